#!/usr/bin/env python3
"""Seeded-mutant sensitivity run: applies each edit of mutants.json to a scratch copy of the CURRENT
/repo (outside /repo and /verif, removed afterwards), checks that it still compiles, runs the named
checks against it and reports whether the expected rule fired.  Usage: run_mutants.py [-j N] [ids...]"""
import json, os, shutil, subprocess, sys, tempfile
from concurrent.futures import ThreadPoolExecutor
HERE = os.path.dirname(os.path.abspath(__file__))
VERIF = os.path.dirname(HERE)
REPO = os.environ.get("NFSA_REPO", "/repo")

def run_one(m):
    d = tempfile.mkdtemp(prefix="nfsa_mut_")
    try:
        repo = os.path.join(d, "repo")
        os.makedirs(repo)
        for f in ("Cargo.toml", "Cargo.lock"):
            shutil.copy(os.path.join(REPO, f), repo)
        shutil.copytree(os.path.join(REPO, "src"), os.path.join(repo, "src"))
        for sub in ("benches", "examples"):
            if os.path.isdir(os.path.join(REPO, sub)):
                shutil.copytree(os.path.join(REPO, sub), os.path.join(repo, sub))
        if m.get("patch"):
            # an independently produced seeded change (seeded/<id>/patch.diff), applied to the scratch copy
            r = subprocess.run(["git", "apply", "--whitespace=nowarn", m["patch"]], cwd=repo, stdout=subprocess.PIPE, stderr=subprocess.STDOUT, text=True)
            if r.returncode != 0:
                return (m["id"], "skipped", "patch does not apply: %s" % r.stdout[:200], {})
        else:
            p = os.path.join(repo, m["file"])
            s = open(p).read()
            if s.count(m["old"]) != 1:
                return (m["id"], "skipped", "edit does not apply (%d matches)" % s.count(m["old"]), {})
            open(p, "w").write(s.replace(m["old"], m["new"]))
        ev = os.path.join(d, "evidence")
        env = dict(os.environ, NFSA_REPO=repo, NFSA_EVIDENCE_DIR=ev)
        res = {}
        for pid in m["props"]:
            if not os.path.exists(os.path.join(VERIF, "nfsa", "rules", pid.lower() + ".py")):
                res[pid] = ("norule", [])
                continue
            r = subprocess.run([os.path.join(VERIF, "check"), pid], env=env, stdout=subprocess.PIPE, stderr=subprocess.STDOUT, text=True, cwd=VERIF)
            keys = []
            try:
                for f in sorted(os.listdir(os.path.join(ev, "replay"))):
                    if f.startswith(pid + "-"):
                        keys.append(json.load(open(os.path.join(ev, "replay", f)))["key"])
            except OSError:
                pass
            res[pid] = (r.returncode, keys)
        allkeys = [k for v in res.values() for k in v[1]]
        if any("R0/crate/compiles" in k for k in allkeys):
            return (m["id"], "nocompile", "", res)
        missing = [e for e in m["expect"] if not any(k.startswith(e + "/") for k in allkeys)]
        fired = [k for k in allkeys]
        if m["expect"] and not missing:
            return (m["id"], "detected", fired[:4], res)
        if not m["expect"]:
            return (m["id"], "silent-ok" if not fired else "unexpected-alarm", fired[:4], res)
        return (m["id"], "MISSED", "expected %s, fired %s" % (missing, fired[:6]), res)
    finally:
        shutil.rmtree(d, ignore_errors=True)

def main():
    args = sys.argv[1:]
    j = 6
    as_json = False
    if args[:1] == ["-j"]:
        j = int(args[1]); args = args[2:]
    if args[:1] == ["--json"]:
        as_json = True; args = args[1:]
    ms = json.load(open(os.path.join(HERE, "mutants.json")))
    # the independently seeded changes take part as well: each must be caught by the property it was written against
    sd = os.path.join(VERIF, "seeded")
    for sid in sorted(os.listdir(sd)) if os.path.isdir(sd) else []:
        mp = os.path.join(sd, sid, "meta.json")
        pp = os.path.join(sd, sid, "patch.diff")
        if os.path.exists(os.path.join(sd, sid, "patch_head.diff")):
            pp = os.path.join(sd, sid, "patch_head.diff")      # re-based onto the current /repo HEAD after a later fix commit
        if os.path.exists(mp) and os.path.exists(pp):
            meta = json.load(open(mp))
            if meta.get("confirmed") and meta.get("breaks"):
                ms.append({"id": "seed:" + sid, "patch": pp, "props": [meta["breaks"]], "expect": [meta["breaks"]]})
    if args:
        sel = [m for m in ms if m["id"] in args or any(a in m["props"] for a in args)]
        # when filtering by property, only run that property's check on each mutant
        props = [a for a in args if a.startswith("C") and len(a) == 3]
        if props:
            sel = [dict(m, props=[p for p in m["props"] if p in props], expect=[e for e in m["expect"] if e.split("/")[0] in props]) for m in sel]
            sel = [m for m in sel if m["expect"] or not any(e for e in m["expect"])]
        ms = sel
    with ThreadPoolExecutor(j) as ex:
        out = list(ex.map(run_one, ms))
    if as_json:
        print(json.dumps([{"id": o[0], "status": o[1], "detail": o[2]} for o in out]))
        return 0
    for o in out:
        print(o[0], o[1], o[2])
    n = sum(1 for o in out if o[1] == "detected")
    print("detected %d / applied %d (skipped %d, nocompile %d)" % (n, sum(1 for o in out if o[1] in ("detected", "MISSED")), sum(1 for o in out if o[1] == "skipped"), sum(1 for o in out if o[1] == "nocompile")))
    return 0
if __name__ == "__main__":
    sys.exit(main())
