#!/bin/sh
# rN_verify.sh <area>   (env R = round dir prefix under /tmp, e.g. r4; P = patch name prefix, e.g. ri): re-run the repository test-suite on each candidate refactor patch of an area (in the agent's
# scratch worktree, which already holds compiled dependencies); accepted ones are copied to selftest/refactors/rh_<area>_<k>.patch
a=$1
cd /tmp/${R:-r3}_$a || exit 1
git reset -q; git checkout -- .; git clean -fdq -e target
for k in 1 2 3 4 5; do
  p=/tmp/${R:-r3}_out/$a/$k.patch
  [ -f $p ] || continue
  if ! git apply $p 2>/dev/null; then echo "$a $k APPLY-FAIL"; continue; fi
  if CARGO_TARGET_DIR=/tmp/${R:-r3}_$a/target CARGO_NET_OFFLINE=true cargo test --workspace --no-fail-fast --offline >/tmp/${R:-r3}_out/$a/$k.test.log 2>&1 && CARGO_TARGET_DIR=/tmp/${R:-r3}_$a/target cargo build --offline --no-default-features >>/tmp/${R:-r3}_out/$a/$k.test.log 2>&1; then
    cp $p /verif/selftest/refactors/${P:-rh}_${a}_$k.patch; echo "$a $k OK"
  else echo "$a $k TEST-FAIL"; fi
  git reset -q; git checkout -- .; git clean -fdq -e target
done
