#!/bin/sh
# run all 17 checks against every pre-applied refactor worktree under /tmp/rfw (fast path; creates them if missing)
mkdir -p /tmp/rfw
for p in /verif/selftest/refactors/*.patch; do n=$(basename $p .patch); if [ ! -d /tmp/rfw/$n ]; then git -C /repo worktree add --detach /tmp/rfw/$n HEAD >/dev/null 2>&1; (cd /tmp/rfw/$n && git apply $p); fi; done
ls /tmp/rfw | xargs -P 8 -I{} sh -c 'out=""; for c in C01 C02 C03 C04 C05 C06 C07 C08 C09 C10 C11 C12 C13 C14 C15 C16 C17; do r=$(NFSA_REPO=/tmp/rfw/{} NFSA_EVIDENCE_DIR=/tmp/rfw_ev/{} /verif/check $c 2>/dev/null | grep -c "^VIOLATION"); if [ "$r" != "0" ]; then out="$out $c:$r"; fi; done; echo "{} ${out:-SILENT}"'
