#!/usr/bin/env python3
"""False-alarm test: apply behaviour-preserving refactorings (selftest/refactors/*.patch, or patch files given on
the command line) to a scratch worktree of /repo HEAD and run every check; any VIOLATION is a false alarm.
usage: refactor_eval.py [-j N] [--json] [patch ...]"""
import glob, json, os, shutil, subprocess, sys, tempfile
from concurrent.futures import ThreadPoolExecutor
VERIF = os.path.dirname(os.path.dirname(os.path.abspath(__file__)))
ALL = ["C%02d" % i for i in range(1, 18)]

def sh(cmd, cwd=None, env=None):
    r = subprocess.run(cmd, shell=True, cwd=cwd, env=env, stdout=subprocess.PIPE, stderr=subprocess.STDOUT, text=True)
    return r.returncode, r.stdout

def one(patch):
    scratch = tempfile.mkdtemp(prefix="rfchk_"); os.rmdir(scratch)
    ev = tempfile.mkdtemp(prefix="rfev_")
    name = os.path.basename(patch)
    try:
        sh("git -C /repo worktree add --detach %s HEAD" % scratch)
        rc, o = sh("git apply %s" % patch, cwd=scratch)
        if rc != 0:
            return name, "patch does not apply", {}
        env = dict(os.environ, NFSA_REPO=scratch, NFSA_EVIDENCE_DIR=ev)
        props = os.environ.get("RF_PROPS", "").split() or ALL
        fired = {}
        for p in props:
            rc, o = sh("%s %s" % (os.path.join(VERIF, "check"), p), cwd=VERIF, env=env)
            keys = [json.load(open(f))["key"] for f in sorted(glob.glob(os.path.join(ev, "replay", p + "-*.json")))]
            if keys:
                fired[p] = keys
        return name, "ok", fired
    finally:
        sh("git -C /repo worktree remove --force %s" % scratch)
        shutil.rmtree(scratch, ignore_errors=True); shutil.rmtree(ev, ignore_errors=True)

def main():
    args = sys.argv[1:]; j = 4; as_json = False
    if args[:1] == ["-j"]:
        j = int(args[1]); args = args[2:]
    if args[:1] == ["--json"]:
        as_json = True; args = args[1:]
    patches = args or sorted(glob.glob(os.path.join(VERIF, "selftest", "refactors", "*.patch")))
    with ThreadPoolExecutor(j) as ex:
        res = list(ex.map(one, patches))
    if as_json:
        print(json.dumps([{"patch": n, "status": st, "alarms": f} for n, st, f in res]))
        return
    for n, st, f in res:
        print(n, st, "SILENT" if not f else "FALSE-ALARM %s" % {k: v[:3] for k, v in f.items()})
main()
