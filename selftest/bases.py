"""Earlier /repo commits that corpus / seed patches may have been written for, newest first, each with the violation
keys /repo itself had at that commit and that a later `fix:` commit repaired (not counted against a patch)."""
P255 = ["C03/R3.4/<protocol::ProtocolTypes as std::convert::From<u8>>::from/arm:255"]
R155 = ["C15/R15.5/variable_versions::ipfix::Data::parse_be/cached-template-copied:IPFixParser.templates",
        "C15/R15.5/variable_versions::ipfix::OptionsData::parse_be/cached-template-copied:IPFixParser.options_templates",
        "C15/R15.5/variable_versions::v9::Data::parse_be/cached-template-copied:V9Parser.templates",
        "C15/R15.5/variable_versions::v9::OptionsData::parse_be/cached-template-copied:V9Parser.options_templates",
        "C15/R15.5/decode-path/cache-lookups-borrowed"]
R57 = ["C05/R5.7/variable_versions::ipfix::FieldParser::parse/stop-criterion:ipfix-data"]
V9C = ["C13/R13.3/<netflow_common::NetflowCommon as std::convert::From<&variable_versions::v9::V9>>::from/kind:%s" % x
       for x in ("protocol_number<-Protocol", "protocol_type<-Protocol", "first_seen<-FirstSwitched", "last_seen<-LastSwitched")]
SGN = ["C04/R4.6/variable_versions::data_number::DataNumber::parse/no-narrowing:(8,True)",
       "C04/R4.6/variable_versions::data_number::DataNumber::parse/no-narrowing:(16,True)",
       "C05/R5.9/variable_versions::data_number::DataNumber::parse/no-narrowing:(8,True)",
       "C05/R5.9/variable_versions::data_number::DataNumber::parse/no-narrowing:(16,True)"] + \
      ["C09/R9.2/variable_versions::data_number::DataNumber::to_be_bytes/codec:SignedDataNumber:%d" % w for w in (1, 2, 8, 16)] + \
      ["C10/R10.3/variable_versions::data_number::DataNumber::to_be_bytes/codec:SignedDataNumber:%d" % w for w in (1, 2, 8, 16)]
OLD_BASES = [("120c5be", SGN),
             ("2d4f2e3", SGN + V9C),
             ("1c167e7", SGN + V9C + P255),
             ("d7a156f", SGN + V9C + P255 + R155),
             ("e7d44c8", SGN + V9C + P255 + R155 + R57)]
