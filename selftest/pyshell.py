"""Debug helper: `NFSA_REPO=<tree> python3 -i selftest/pyshell.py` gives prog/an for a tree."""
import sys
sys.path.insert(0, '/verif')
from nfsa import facts as F, mir
from nfsa.mir import Program
from nfsa.rules.common import *
prog = Program(F.get("default"))
an = An(prog)
