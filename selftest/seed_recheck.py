#!/usr/bin/env python3
"""Re-run checks against every kept seeded change (/verif/seeded/<id>/patch.diff) applied to a scratch
worktree of the CURRENT /repo HEAD; updates meta.json's `checks` / `detected_by`.
usage: seed_recheck.py [-j N] [seed-id ...]   (default: all; properties = meta.checked_properties)"""
import glob, json, os, shutil, subprocess, sys, tempfile
from concurrent.futures import ThreadPoolExecutor
VERIF = os.path.dirname(os.path.dirname(os.path.abspath(__file__)))
ALL = ["C%02d" % i for i in range(1, 18)]
OLD_BASE = "e7d44c8"
sys.path.insert(0, os.path.dirname(os.path.abspath(__file__)))
from bases import OLD_BASES

def sh(cmd, cwd=None, env=None):
    r = subprocess.run(cmd, shell=True, cwd=cwd, env=env, stdout=subprocess.PIPE, stderr=subprocess.STDOUT, text=True)
    return r.returncode, r.stdout

def one(sid):
    d = os.path.join(VERIF, "seeded", sid)
    meta = json.load(open(os.path.join(d, "meta.json")))
    props = ALL if os.environ.get("SEED_ALL_PROPS") else meta.get("checked_properties", [meta["breaks"]])
    scratch = tempfile.mkdtemp(prefix="seedre_"); os.rmdir(scratch)
    ev = tempfile.mkdtemp(prefix="seedev_")
    try:
        sh("git -C /repo worktree add --detach %s HEAD" % scratch)
        pf = os.path.join(d, "patch_head.diff") if os.path.exists(os.path.join(d, "patch_head.diff")) else os.path.join(d, "patch.diff")
        rc, o = sh("git apply %s" % pf, cwd=scratch)
        meta.pop("evaluated_on", None)
        if rc != 0:
            # written against an older /repo commit whose lines were since repaired: evaluate it on that commit
            ok_base = None
            for base in [b for b, _ in OLD_BASES]:
                sh("git checkout -q --detach %s" % base, cwd=scratch)
                rc, o = sh("git apply %s" % os.path.join(d, "patch.diff"), cwd=scratch)
                if rc == 0:
                    ok_base = base
                    break
            if ok_base is None:
                return sid, "patch no longer applies", {}
            meta["evaluated_on"] = ok_base
        env = dict(os.environ, NFSA_REPO=scratch, NFSA_EVIDENCE_DIR=ev)
        fired = {}
        for p in props:
            rc, o = sh("%s %s" % (os.path.join(VERIF, "check"), p), cwd=VERIF, env=env)
            keys = [json.load(open(f))["key"] for f in sorted(glob.glob(os.path.join(ev, "replay", p + "-*.json")))]
            if meta.get("evaluated_on"):
                keys = [k for k in keys if k not in dict(OLD_BASES).get(meta["evaluated_on"], []) or k in meta.get("base_keys_counted", [])]
            fired[p] = {"exit": rc, "violations": keys}
        meta["checks"] = fired
        meta["checked_properties"] = props
        meta["detected_by"] = sorted(p for p, v in fired.items() if v["violations"])
        json.dump(meta, open(os.path.join(d, "meta.json"), "w"), indent=1)
        return sid, "ok", {p: len(v["violations"]) for p, v in fired.items()}
    finally:
        sh("git -C /repo worktree remove --force %s" % scratch)
        shutil.rmtree(scratch, ignore_errors=True); shutil.rmtree(ev, ignore_errors=True)

def main():
    args = sys.argv[1:]; j = 4
    if args[:1] == ["-j"]:
        j = int(args[1]); args = args[2:]
    ids = args or sorted(os.listdir(os.path.join(VERIF, "seeded")))
    with ThreadPoolExecutor(j) as ex:
        for sid, st, r in ex.map(one, ids):
            m = json.load(open(os.path.join(VERIF, "seeded", sid, "meta.json")))
            print(sid, st, "breaks", m["breaks"], "detected_by", m.get("detected_by"), "primary-detected" if m["breaks"] in m.get("detected_by", []) else "PRIMARY-MISSED")
main()
