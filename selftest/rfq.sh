#!/bin/sh
# quick: rfq.sh <refactor-name> <prop> [prop...]  — runs checks against the pre-applied scratch worktree /tmp/rfw/<name>
n=$1; shift
for p in "$@"; do NFSA_REPO=/tmp/rfw/$n NFSA_EVIDENCE_DIR=/tmp/rfw_ev/$n /verif/check $p 2>/dev/null | grep -v "^KNOWN" | grep -E "rule=|reason=|obligations" | cut -c1-${RFW:-400}; done
