#!/usr/bin/env python3
"""Confirm and evaluate a seeded property-breaking change produced in a scratch worktree.

usage: seed_eval.py <seed-id> <worktree> <primary-property> [more properties...]
 1. saves <worktree>'s `git diff -- src` as /verif/seeded/<seed-id>/patch.diff and its tests/demo_*.rs
 2. confirms, in a fresh scratch worktree of /repo HEAD (outside /repo and /verif, removed afterwards):
    demo passes without the patch; with the patch the unedited suite passes and the demo fails
 3. runs the named checks (quick tier) against the patched scratch tree (NFSA_REPO redirect, separate
    evidence dir so /verif/evidence is untouched) and records the violation keys that fire
 4. writes meta.json
"""
import json, os, shutil, subprocess, sys, tempfile, glob

VERIF = os.path.dirname(os.path.dirname(os.path.abspath(__file__)))

def sh(cmd, cwd=None, env=None, timeout=1800):
    r = subprocess.run(cmd, shell=True, cwd=cwd, env=env, stdout=subprocess.PIPE, stderr=subprocess.STDOUT, text=True, timeout=timeout)
    return r.returncode, r.stdout

def main():
    sid, wt, props = sys.argv[1], sys.argv[2], sys.argv[3:]
    out = os.path.join(VERIF, "seeded", sid)
    os.makedirs(out, exist_ok=True)
    rc, diff = sh("git diff -- src", cwd=wt)
    open(os.path.join(out, "patch.diff"), "w").write(diff)
    demos = glob.glob(os.path.join(wt, "tests", "demo_*.rs"))
    for d in demos:
        shutil.copy(d, out)
    scratch = tempfile.mkdtemp(prefix="seedchk_")
    os.rmdir(scratch)
    meta = {"id": sid, "breaks": props[0], "checked_properties": props, "ran": []}
    try:
        rc, o = sh("git -C /repo worktree add --detach %s HEAD" % scratch)
        os.makedirs(os.path.join(scratch, "tests"), exist_ok=True)
        for d in demos:
            shutil.copy(d, os.path.join(scratch, "tests"))
        names = [os.path.splitext(os.path.basename(d))[0] for d in demos]
        tflags = " ".join("--test %s" % n for n in names) + " " + os.environ.get("SEED_DEMO_FLAGS", "")
        env = dict(os.environ, CARGO_NET_OFFLINE="true")
        rc0, o0 = sh("cargo test --offline %s 2>&1 | grep -E '^test result|FAILED|panicked' | head -8" % tflags, cwd=scratch, env=env)
        meta["ran"].append({"cmd": "demo without patch", "out": o0.strip()})
        demo_ok_before = "FAILED" not in o0 and "test result: ok" in o0
        rc1, o1 = sh("git apply %s" % os.path.join(out, "patch.diff"), cwd=scratch)
        rc2, o2 = sh("(cargo test --offline --lib; cargo test --offline --doc) 2>&1 | grep -E '^test result|FAILED|^error' | head -6", cwd=scratch, env=env)
        meta["ran"].append({"cmd": "existing suite with patch (cargo test --offline --lib; cargo test --offline --doc)", "out": o2.strip()})
        suite_ok = rc1 == 0 and "FAILED" not in o2 and "error" not in o2 and "45 passed" in o2 and "11 passed" in o2
        rc3, o3 = sh("cargo test --offline %s 2>&1 | grep -E '^test result|FAILED|panicked' | head -8" % tflags, cwd=scratch, env=env)
        meta["ran"].append({"cmd": "demo with patch", "out": o3.strip()})
        demo_fails_after = "FAILED" in o3
        meta["confirmed"] = bool(demo_ok_before and suite_ok and demo_fails_after)
        meta["confirm_detail"] = {"demo_passes_without": demo_ok_before, "suite_passes_with": suite_ok, "demo_fails_with": demo_fails_after}
        shutil.rmtree(os.path.join(scratch, "target"), ignore_errors=True)
        # run the checks against the patched scratch tree
        ev = tempfile.mkdtemp(prefix="seedev_")
        env2 = dict(os.environ, NFSA_REPO=scratch, NFSA_EVIDENCE_DIR=ev)
        fired = {}
        for p in props:
            rc, o = sh("%s %s" % (os.path.join(VERIF, "check"), p), cwd=VERIF, env=env2)
            keys = []
            for f in sorted(glob.glob(os.path.join(ev, "replay", p + "-*.json"))):
                keys.append(json.load(open(f))["key"])
            fired[p] = {"exit": rc, "violations": keys}
        shutil.rmtree(ev, ignore_errors=True)
        meta["checks"] = fired
        meta["detected_by"] = sorted(p for p, v in fired.items() if v["violations"])
    finally:
        sh("git -C /repo worktree remove --force %s" % scratch)
        shutil.rmtree(scratch, ignore_errors=True)
    old = {}
    mp = os.path.join(out, "meta.json")
    if os.path.exists(mp):
        old = json.load(open(mp))
    for k in ("needs_to_manifest", "description", "source"):
        if k in old:
            meta[k] = old[k]
    json.dump(meta, open(mp, "w"), indent=1)
    print(json.dumps({k: meta[k] for k in ("id", "confirmed", "confirm_detail", "detected_by")}, indent=1))
    for p, v in meta.get("checks", {}).items():
        print(p, v["exit"], v["violations"][:6])

main()
