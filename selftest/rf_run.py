#!/usr/bin/env python3
"""False-alarm corpus run: every patch under selftest/refactors/ (behaviour-preserving refactorings written by
independent sub-agents) is applied in a scratch git worktree of /repo under /tmp/rfw/<name> and all 17 checks are run
against it.  A patch written against an older /repo commit that no longer applies to HEAD is applied on the newest
earlier commit it applies to (OLD_BASES); on such a tree the violations that /repo itself had at that commit and that
were repaired since are not counted.
usage: rf_run.py [-j N] [name-prefix ...]        prints '<name> SILENT' or '<name> Cxx:n ...' per patch"""
import json, os, subprocess, sys
from concurrent.futures import ThreadPoolExecutor
HERE = os.path.dirname(os.path.abspath(__file__))
VERIF = os.path.dirname(HERE)
RFW = "/tmp/rfw"
sys.path.insert(0, HERE)
from bases import OLD_BASES
PROPS = os.environ.get("RF_PROPS", "").split() or ["C%02d" % i for i in range(1, 18)]      # RF_PROPS="C13 C17": only these


def sh(cmd, cwd=None, env=None):
    r = subprocess.run(cmd, shell=True, cwd=cwd, env=env, stdout=subprocess.PIPE, stderr=subprocess.STDOUT, text=True)
    return r.returncode, r.stdout


def prepare(name):
    wt = os.path.join(RFW, name)
    patch = os.path.join(HERE, "refactors", name + ".patch")
    head = sh("git -C /repo rev-parse --short HEAD")[1].strip()
    marker = os.path.join(wt, ".rf_base")
    if os.path.isdir(wt) and os.path.exists(marker) and open(marker).read().split()[0] == head:
        return wt
    if os.path.isdir(wt) and os.path.exists(marker) and open(marker).read().split()[0].endswith("!") and open(marker).read().split()[1:] == [head]:
        return wt
    sh("git -C /repo worktree remove --force %s" % wt)
    sh("rm -rf %s" % wt)
    sh("git -C /repo worktree add --detach %s HEAD" % wt)
    rc, _ = sh("git apply %s" % patch, cwd=wt)
    base = head
    if rc != 0:
        base = "FAILED"
        for ob, _ in OLD_BASES:
            sh("git checkout -q --detach %s" % ob, cwd=wt)
            rc, o = sh("git apply %s" % patch, cwd=wt)
            if rc == 0:
                base = ob + "!"
                break
    open(marker, "w").write(base + " " + head + "\n")
    return wt


_PREP = __import__('threading').Lock()


def rebase_old(name):
    """The patch applies to HEAD textually but the result does not compile there (HEAD gained enum variants, fields ..
    since the patch was written): evaluate it on the newest earlier /repo commit it applies to."""
    wt = os.path.join(RFW, name)
    patch = os.path.join(HERE, "refactors", name + ".patch")
    head = sh("git -C /repo rev-parse --short HEAD")[1].strip()
    for ob, _ in OLD_BASES:
        sh("git checkout -q -f --detach %s" % ob, cwd=wt)
        sh("git clean -fdq -e .rf_base", cwd=wt)
        rc, o = sh("git apply %s" % patch, cwd=wt)
        if rc == 0:
            open(os.path.join(wt, ".rf_base"), "w").write(ob + "! " + head + "\n")
            return True
    return False


def run(name, _retry=True):
    with _PREP:
        wt = prepare(name)
    base = open(os.path.join(wt, ".rf_base")).read().split()[0]
    if base == "FAILED":
        return name, "PATCH-DOES-NOT-APPLY"
    ev = "/tmp/rfw_ev/%s" % name
    env = dict(os.environ, NFSA_REPO=wt, NFSA_EVIDENCE_DIR=ev)
    out = []
    for p in PROPS:
        sh("rm -rf %s/replay" % ev)
        rc, o = sh("%s/check %s" % (VERIF, p), cwd=VERIF, env=env)
        keys = []
        rd = os.path.join(ev, "replay")
        if os.path.isdir(rd):
            for f in sorted(os.listdir(rd)):
                if f.startswith(p + "-"):
                    try:
                        keys.append(json.load(open(os.path.join(rd, f)))["key"])
                    except Exception:
                        keys.append("?")
        n = o.count("\nVIOLATION ") + (1 if o.startswith("VIOLATION ") else 0)
        if base.endswith("!"):
            fixed_since = dict(OLD_BASES).get(base[:-1], [])
            # closure indices in keys are normalised by the engine; compare on the normalised form
            n -= len([k for k in keys if k in fixed_since])
        if n > 0:
            out.append("%s:%d" % (p, n))
        if _retry and not base.endswith("!") and any("/R0/crate/compiles" in k for k in keys):
            with _PREP:
                okb = rebase_old(name)
            if okb:
                return run(name, _retry=False)
    return name, (" ".join(out) if out else "SILENT") + (" (old base)" if base.endswith("!") else "")


def main():
    args = sys.argv[1:]
    j = 8
    if args[:1] == ["-j"]:
        j = int(args[1]); args = args[2:]
    names = sorted(f[:-6] for f in os.listdir(os.path.join(HERE, "refactors")) if f.endswith(".patch"))
    if args:
        names = [n for n in names if any(n.startswith(a) for a in args)]
    os.makedirs(RFW, exist_ok=True)
    with ThreadPoolExecutor(j) as ex:
        for name, res in ex.map(run, names):
            print(name, res, flush=True)


if __name__ == "__main__":
    main()
