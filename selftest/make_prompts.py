#!/usr/bin/env python3
"""usage: make_prompts.py <round> — writes /tmp/s<round>_prompts/Cxx.txt from selftest/seed_prompt_template_r<round>.txt
and creates scratch worktrees /tmp/s<round>_cNN of /repo HEAD (nothing from /verif is handed to the agents but the
property text)."""
import json, os, subprocess, sys
r = sys.argv[1]
V = os.path.dirname(os.path.dirname(os.path.abspath(__file__)))
tpl = open(os.path.join(V, "selftest", "seed_prompt_template_r%s.txt" % r)).read()
os.makedirs("/tmp/s%s_prompts" % r, exist_ok=True)
for l in open(os.path.join(V, "properties.jsonl")):
    j = json.loads(l)
    nn = j["id"][1:]
    off = j["id"] == "C17"
    d = dict(title=j["title"], statement=j["statement"], q=j["quantifier"]["text"],
             nf=" (the `--no-default-features` build is where your breakage should live; a behavioural difference that only exists with the feature off is what is wanted)" if off else " and with `--no-default-features`",
             runhint=" when run with `--no-default-features`" if off else "",
             flags="--no-default-features " if off else "")
    txt = (tpl % d).replace("cNN", "c" + nn)
    open("/tmp/s%s_prompts/%s.txt" % (r, j["id"]), "w").write(txt)
    wt = "/tmp/s%s_c%s" % (r, nn)
    if not os.path.isdir(wt):
        subprocess.run("git -C /repo worktree add --detach %s HEAD" % wt, shell=True, stdout=subprocess.DEVNULL, stderr=subprocess.DEVNULL)
print("ok")
