//! Re-export regressions:
//!  1. a decoded MAC address field must re-export as the 6 octets it was decoded from,
//!     not as the 17 ASCII bytes of its text form;
//!  2. an IPFIX (options) template field carrying an enterprise number must re-export
//!     with the enterprise bit (0x8000) of its field specifier set.

use std::collections::BTreeMap;

use netflow_parser::variable_versions::data_number::FieldValue;
use netflow_parser::variable_versions::ipfix::{FlowSetBody as IpfixBody, IPFix};
use netflow_parser::variable_versions::v9::{
    Data as V9Data, FlowSet as V9FlowSet, FlowSetBody as V9Body,
    FlowSetHeader as V9FlowSetHeader, Header as V9Header, V9,
};
use netflow_parser::variable_versions::v9_lookup::V9Field;
use netflow_parser::{NetflowPacket, NetflowParser};

const MACS: [[u8; 6]; 5] = [
    [0x00, 0x00, 0x00, 0x00, 0x00, 0x00],
    [0xff, 0xff, 0xff, 0xff, 0xff, 0xff],
    [0xaa, 0xbb, 0xcc, 0xdd, 0xee, 0xff],
    [0x00, 0x1b, 0x44, 0x11, 0x3a, 0xb7],
    // Octets that are themselves ASCII hex digits / separators.
    [b'0', b'0', b':', b'1', b'B', b':'],
];

fn mac_text(mac: &[u8; 6]) -> String {
    mac.iter()
        .map(|b| format!("{b:02X}"))
        .collect::<Vec<_>>()
        .join(":")
}

fn be16(v: usize) -> [u8; 2] {
    u16::try_from(v).unwrap().to_be_bytes()
}

/// `id`, `length`, body.
fn set(id: u16, body: &[u8]) -> Vec<u8> {
    let mut out = id.to_be_bytes().to_vec();
    out.extend_from_slice(&be16(body.len() + 4));
    out.extend_from_slice(body);
    out
}

fn v9_packet(flowsets: &[Vec<u8>]) -> Vec<u8> {
    let mut out = vec![0, 9];
    out.extend_from_slice(&be16(flowsets.len()));
    out.extend_from_slice(&[0, 0, 1, 0, 0x5b, 0x3b, 0x54, 0x85, 0, 0, 0, 7, 0, 0, 0, 1]);
    for flowset in flowsets {
        out.extend_from_slice(flowset);
    }
    out
}

fn ipfix_message(sets: &[Vec<u8>]) -> Vec<u8> {
    let body: Vec<u8> = sets.concat();
    let mut out = vec![0, 10];
    out.extend_from_slice(&be16(body.len() + 16));
    out.extend_from_slice(&[0x5b, 0x3b, 0x54, 0x85, 0, 0, 0, 7, 0, 0, 0, 1]);
    out.extend_from_slice(&body);
    out
}

fn parse_one(parser: &mut NetflowParser, bytes: &[u8]) -> NetflowPacket {
    let mut parsed = parser.parse_bytes(bytes);
    assert_eq!(parsed.len(), 1, "expected exactly one packet: {parsed:?}");
    let packet = parsed.remove(0);
    assert!(!packet.is_error(), "unexpected error: {packet:?}");
    packet
}

fn parse_v9(parser: &mut NetflowParser, bytes: &[u8]) -> V9 {
    match parse_one(parser, bytes) {
        NetflowPacket::V9(v9) => v9,
        other => panic!("not a V9 packet: {other:?}"),
    }
}

fn parse_ipfix(parser: &mut NetflowParser, bytes: &[u8]) -> IPFix {
    match parse_one(parser, bytes) {
        NetflowPacket::IPFix(ipfix) => ipfix,
        other => panic!("not an IPFIX message: {other:?}"),
    }
}

// ---------------------------------------------------------------------------------
// (1) MAC addresses
// ---------------------------------------------------------------------------------

/// Template 256: IPV4_SRC_ADDR(4) IN_SRC_MAC(6) OUT_DST_MAC(6) IN_DST_MAC(6) OUT_SRC_MAC(6)
fn v9_mac_template() -> Vec<u8> {
    set(
        0,
        &[
            1, 0, 0, 5, // template 256, 5 fields
            0, 8, 0, 4, 0, 56, 0, 6, 0, 57, 0, 6, 0, 80, 0, 6, 0, 81, 0, 6,
        ],
    )
}

/// One 28 byte record per entry of `MACS`, each holding four (rotated) MACs.
fn mac_records() -> Vec<u8> {
    let mut body = vec![];
    for (i, _) in MACS.iter().enumerate() {
        body.extend_from_slice(&[10, 0, 0, u8::try_from(i).unwrap()]);
        for k in 0..4 {
            body.extend_from_slice(&MACS[(i + k) % MACS.len()]);
        }
    }
    body
}

#[test]
fn v9_mac_fields_reexport_as_six_octets() {
    let packet = v9_packet(&[v9_mac_template(), set(256, &mac_records())]);
    let mut parser = NetflowParser::default();
    let v9 = parse_v9(&mut parser, &packet);

    // The decoded representation is the text form, as before.
    let V9Body::Data(data) = &v9.flowsets[1].body else {
        panic!("not a data flowset: {:?}", v9.flowsets[1].body);
    };
    assert_eq!(data.fields.len(), MACS.len());
    assert!(data.padding.is_empty());
    for (i, record) in data.fields.iter().enumerate() {
        assert_eq!(record.len(), 5);
        let expected = [
            V9Field::InSrcMac,
            V9Field::OutDstMac,
            V9Field::InDstMac,
            V9Field::OutSrcMac,
        ];
        for (k, field) in expected.iter().enumerate() {
            assert_eq!(
                record[&(k + 1)],
                (
                    *field,
                    FieldValue::MacAddr(mac_text(&MACS[(i + k) % MACS.len()]))
                )
            );
        }
    }
    let json = serde_json::to_string(&NetflowPacket::V9(v9.clone())).unwrap();
    assert!(
        json.contains(r#"{"MacAddr":"AA:BB:CC:DD:EE:FF"}"#),
        "{json}"
    );

    // ... and it goes back out as the octets that came in.
    let exported = v9.to_be_bytes().unwrap();
    assert_eq!(exported, packet);

    // The re-exported packet decodes to the same thing again.
    assert_eq!(parse_v9(&mut NetflowParser::default(), &exported), v9);
}

#[test]
fn v9_mac_data_with_cached_template_and_padding() {
    let mut parser = NetflowParser::default();
    let template = v9_packet(&[v9_mac_template()]);
    assert_eq!(
        parse_v9(&mut parser, &template).to_be_bytes().unwrap(),
        template
    );

    // A second call, two data flowsets, the first with trailing padding.
    let mut padded = mac_records();
    padded.extend_from_slice(&[0, 0, 0]);
    let packet = v9_packet(&[set(256, &padded), set(256, &mac_records()[..28])]);
    let v9 = parse_v9(&mut parser, &packet);
    assert_eq!(v9.to_be_bytes().unwrap(), packet);
}

#[test]
fn ipfix_mac_fields_reexport_as_six_octets() {
    // Template 256: sourceMacAddress(6) sourceIPv4Address(4) postDestinationMacAddress(6)
    //               destinationMacAddress(6) postSourceMacAddress(6)
    let template = set(
        2,
        &[
            1, 0, 0, 5, 0, 56, 0, 6, 0, 8, 0, 4, 0, 57, 0, 6, 0, 80, 0, 6, 0, 81, 0, 6,
        ],
    );
    // Options template 257: scope sourceIPv4Address(4), option sourceMacAddress(6)
    let options_template = set(3, &[1, 1, 0, 2, 0, 1, 0, 8, 0, 4, 0, 56, 0, 6]);

    let mut data = vec![];
    let mut options_data = vec![];
    for (i, mac) in MACS.iter().enumerate() {
        data.extend_from_slice(mac);
        data.extend_from_slice(&[10, 0, 0, u8::try_from(i).unwrap()]);
        for k in 1..4 {
            data.extend_from_slice(&MACS[(i + k) % MACS.len()]);
        }
        options_data.extend_from_slice(&[10, 0, 0, u8::try_from(i).unwrap()]);
        options_data.extend_from_slice(mac);
    }
    // Two bytes of set padding, shorter than any record.
    options_data.extend_from_slice(&[0, 0]);

    let message = ipfix_message(&[
        template,
        options_template,
        set(256, &data),
        set(257, &options_data),
    ]);
    let mut parser = NetflowParser::default();
    let ipfix = parse_ipfix(&mut parser, &message);
    assert_eq!(ipfix.flowsets.len(), 4);

    let IpfixBody::Data(decoded) = &ipfix.flowsets[2].body else {
        panic!("not a data set: {:?}", ipfix.flowsets[2].body);
    };
    let macs: Vec<&FieldValue> = decoded
        .fields
        .iter()
        .flat_map(|m| m.values())
        .map(|(_, v)| v)
        .filter(|v| matches!(v, FieldValue::MacAddr(_)))
        .collect();
    assert_eq!(macs.len(), 4 * MACS.len());
    assert_eq!(*macs[0], FieldValue::MacAddr(mac_text(&MACS[0])));
    assert_eq!(*macs[4], FieldValue::MacAddr(mac_text(&MACS[1])));

    let IpfixBody::OptionsData(decoded) = &ipfix.flowsets[3].body else {
        panic!("not an options data set: {:?}", ipfix.flowsets[3].body);
    };
    assert_eq!(decoded.padding, [0, 0]);

    let json = serde_json::to_string(&NetflowPacket::IPFix(ipfix.clone())).unwrap();
    assert!(
        json.contains(r#"{"MacAddr":"FF:FF:FF:FF:FF:FF"}"#),
        "{json}"
    );

    let exported = ipfix.to_be_bytes().unwrap();
    assert_eq!(exported, message);
    assert_eq!(parse_ipfix(&mut NetflowParser::default(), &exported), ipfix);
}

fn v9_with_value(value: FieldValue) -> V9 {
    V9 {
        header: V9Header {
            version: 9,
            count: 1,
            sys_up_time: 0,
            unix_secs: 0,
            sequence_number: 0,
            source_id: 0,
        },
        flowsets: vec![V9FlowSet {
            header: V9FlowSetHeader {
                flowset_id: 256,
                length: 10,
            },
            body: V9Body::Data(V9Data {
                fields: vec![BTreeMap::from([(0, (V9Field::InSrcMac, value))])],
                padding: vec![],
            }),
        }],
    }
}

#[test]
fn hand_built_mac_values_export_or_fail_cleanly() {
    // Either case of hex digit is a MAC address.
    for text in [
        "aa:bb:cc:dd:ee:ff",
        "AA:BB:CC:DD:EE:FF",
        "aA:Bb:cC:Dd:eE:Ff",
    ] {
        let bytes = v9_with_value(FieldValue::MacAddr(text.to_string()))
            .to_be_bytes()
            .unwrap();
        assert_eq!(bytes.len(), 20 + 4 + 6, "{text}");
        assert_eq!(bytes[24..], [0xaa, 0xbb, 0xcc, 0xdd, 0xee, 0xff], "{text}");
    }

    // Text that is not a MAC address is an error: no panic, no made-up octets.
    for text in [
        "",
        ":",
        "aa:bb:cc:dd:ee",
        "aa:bb:cc:dd:ee:f",
        "aa:bb:cc:dd:ee:ff:",
        "aa:bb:cc:dd:ee:ff:00",
        "aabbccddeeff",
        "aa:bb:cc:dd:ee:fg",
        "aa:bb:cc:dd:ee:+f",
        "aa:bb:cc:dd:eeff:",
        "aa:bb:cc:dd:ee::f",
        "aa-bb-cc-dd-ee-ff",
        "aa bb cc dd ee ff",
        "a:bbb:cc:dd:ee:ff",
        "0:0:0:0:0:0:0:0:0",
        // 17 bytes but fewer chars: multi-byte characters must not be split into "digits".
        "\u{e9}\u{e9}:\u{e9}\u{e9}:bb:cc:f",
        "\u{ff11}\u{ff11}:bb:cc:dd:e",
    ] {
        assert!(
            v9_with_value(FieldValue::MacAddr(text.to_string()))
                .to_be_bytes()
                .is_err(),
            "{text:?} was exported"
        );
    }

    // The stand-alone conversion of a field value is what it was.
    assert_eq!(
        FieldValue::MacAddr("00:1B:44:11:3A:B7".to_string())
            .to_be_bytes()
            .unwrap(),
        b"00:1B:44:11:3A:B7"
    );
    // Other values are untouched by the packet exporter.
    let bytes = v9_with_value(FieldValue::String("aa:bb:cc:dd:ee:ff".to_string()))
        .to_be_bytes()
        .unwrap();
    assert_eq!(&bytes[24..], b"aa:bb:cc:dd:ee:ff");
}

// ---------------------------------------------------------------------------------
// (2) IPFIX enterprise bit
// ---------------------------------------------------------------------------------

/// (field specifier as sent, length, enterprise number)
const ENTERPRISE_FIELDS: [(u16, u16, Option<u32>); 8] = [
    (0x8000 | 103, 4, Some(6221)),
    (8, 4, None),
    (0x8000, 2, Some(0)),
    (0xffff, 1, Some(u32::MAX)),
    // The largest IANA element id; not known to the library, so only decodable with
    // `parse_unknown_fields`.
    (
        if cfg!(feature = "parse_unknown_fields") {
            0x7fff
        } else {
            7
        },
        2,
        None,
    ),
    (0x8000 | 103, 4, Some(6221)),
    (0x8000 | 56, 6, Some(9)),
    (10, 4, None),
];

fn field_specifiers() -> Vec<u8> {
    let mut out = vec![];
    for (specifier, length, enterprise) in ENTERPRISE_FIELDS {
        out.extend_from_slice(&specifier.to_be_bytes());
        out.extend_from_slice(&length.to_be_bytes());
        if let Some(enterprise) = enterprise {
            out.extend_from_slice(&enterprise.to_be_bytes());
        }
    }
    out
}

fn record_len() -> usize {
    ENTERPRISE_FIELDS
        .iter()
        .map(|(_, len, _)| usize::from(*len))
        .sum()
}

#[test]
fn ipfix_template_reexports_enterprise_bit() {
    let mut template = vec![1, 0];
    template.extend_from_slice(&be16(ENTERPRISE_FIELDS.len()));
    template.extend_from_slice(&field_specifiers());

    let record: Vec<u8> = (1..=u8::try_from(record_len()).unwrap()).collect();
    let message = ipfix_message(&[
        set(2, &template),
        set(256, &[&record[..], &record].concat()),
    ]);

    let mut parser = NetflowParser::default();
    let ipfix = parse_ipfix(&mut parser, &message);

    // Decoded form: the information element id without the bit, the number beside it.
    let IpfixBody::Template(decoded) = &ipfix.flowsets[0].body else {
        panic!("not a template set: {:?}", ipfix.flowsets[0].body);
    };
    assert_eq!(decoded.fields.len(), ENTERPRISE_FIELDS.len());
    for (field, (specifier, length, enterprise)) in decoded.fields.iter().zip(ENTERPRISE_FIELDS)
    {
        assert_eq!(field.enterprise_number, enterprise);
        assert_eq!(field.field_length, length);
        if enterprise.is_some() {
            assert_eq!(field.field_type_number, specifier & 0x7fff);
        } else {
            assert_eq!(field.field_type_number, specifier);
        }
    }
    let json = serde_json::to_string(&NetflowPacket::IPFix(ipfix.clone())).unwrap();
    assert!(
        json.contains(
            r#"{"field_type_number":103,"field_type":"Enterprise","field_length":4,"enterprise_number":6221}"#
        ),
        "{json}"
    );

    let IpfixBody::Data(data) = &ipfix.flowsets[1].body else {
        panic!("not a data set: {:?}", ipfix.flowsets[1].body);
    };
    assert_eq!(data.fields.len(), 2 * ENTERPRISE_FIELDS.len());

    let exported = ipfix.to_be_bytes().unwrap();
    assert_eq!(exported, message);

    // What a downstream collector makes of the re-export is what we made of the original.
    let mut downstream = NetflowParser::default();
    assert_eq!(parse_ipfix(&mut downstream, &exported), ipfix);
    assert_eq!(downstream.ipfix_parser, parser.ipfix_parser);
}

#[test]
fn ipfix_options_template_reexports_enterprise_bit() {
    // 3 scope fields out of 8, and two bytes of padding after the record.
    let mut template = vec![1, 1];
    template.extend_from_slice(&be16(ENTERPRISE_FIELDS.len()));
    template.extend_from_slice(&[0, 3]);
    template.extend_from_slice(&field_specifiers());
    template.extend_from_slice(&[0, 0]);

    let record: Vec<u8> = (1..=u8::try_from(record_len()).unwrap()).collect();
    let message = ipfix_message(&[set(3, &template), set(257, &record)]);

    let mut parser = NetflowParser::default();
    let ipfix = parse_ipfix(&mut parser, &message);

    let IpfixBody::OptionsTemplate(decoded) = &ipfix.flowsets[0].body else {
        panic!("not an options template set: {:?}", ipfix.flowsets[0].body);
    };
    assert_eq!(decoded.scope_field_count, 3);
    assert_eq!(decoded.padding, [0, 0]);
    assert_eq!(decoded.fields.len(), ENTERPRISE_FIELDS.len());
    for (field, (specifier, _, enterprise)) in decoded.fields.iter().zip(ENTERPRISE_FIELDS) {
        assert_eq!(field.enterprise_number, enterprise);
        assert!(enterprise.is_none() || field.field_type_number == specifier & 0x7fff);
    }
    assert!(matches!(ipfix.flowsets[1].body, IpfixBody::OptionsData(_)));

    let exported = ipfix.to_be_bytes().unwrap();
    assert_eq!(exported, message);

    let mut downstream = NetflowParser::default();
    assert_eq!(parse_ipfix(&mut downstream, &exported), ipfix);
    assert_eq!(downstream.ipfix_parser, parser.ipfix_parser);
}

#[test]
fn hand_built_ipfix_template_fields_export_the_bit_once() {
    use netflow_parser::variable_versions::ipfix::{
        FlowSet, FlowSetHeader, Header, Template, TemplateField,
    };
    use netflow_parser::variable_versions::ipfix_lookup::IPFixField;

    let field = |number: u16, enterprise: Option<u32>| TemplateField {
        field_type_number: number,
        field_type: IPFixField::Enterprise,
        field_length: 4,
        enterprise_number: enterprise,
    };
    let ipfix = IPFix {
        header: Header {
            version: 10,
            length: 16 + 4 + 4 + 8 + 8 + 4,
            export_time: 0,
            sequence_number: 0,
            observation_domain_id: 0,
        },
        flowsets: vec![FlowSet {
            header: FlowSetHeader {
                header_id: 2,
                length: 4 + 4 + 8 + 8 + 4,
            },
            body: IpfixBody::Template(Template {
                template_id: 256,
                field_count: 3,
                // The stripped number (as decoded), a number that already carries the
                // bit, and a plain IANA element.
                fields: vec![
                    field(103, Some(1)),
                    field(0x8000 | 103, Some(1)),
                    field(103, None),
                ],
                padding: vec![],
            }),
        }],
    };
    let bytes = ipfix.to_be_bytes().unwrap();
    assert_eq!(
        bytes[20..],
        [
            1, 0, 0, 3, // template 256, 3 fields
            0x80, 103, 0, 4, 0, 0, 0, 1, //
            0x80, 103, 0, 4, 0, 0, 0, 1, //
            0, 103, 0, 4,
        ]
    );
}
