//! An IPFIX template set (or options template set) may carry several template records
//! (RFC 7011, section 3.4.1). Every record has to be read with exactly `field_count` field
//! specifiers, cached under its own id and written back by `to_be_bytes`.

use netflow_parser::variable_versions::data_number::FieldValue;
use netflow_parser::variable_versions::ipfix::{FlowSetBody, IPFix, IPFixParser};
use netflow_parser::variable_versions::ipfix_lookup::IPFixField;
use netflow_parser::{NetflowPacket, NetflowParser};

use std::net::Ipv4Addr;

/// (type, length) field specifier without enterprise number.
fn spec(field_type: u16, length: u16) -> Vec<u8> {
    let mut bytes = field_type.to_be_bytes().to_vec();
    bytes.extend_from_slice(&length.to_be_bytes());
    bytes
}

/// Template record with a truthful field count.
fn template_record(id: u16, specs: &[Vec<u8>]) -> Vec<u8> {
    let mut bytes = id.to_be_bytes().to_vec();
    bytes.extend_from_slice(&(specs.len() as u16).to_be_bytes());
    specs.iter().for_each(|s| bytes.extend_from_slice(s));
    bytes
}

/// Options template record with a truthful field count.
fn options_template_record(id: u16, scope_count: u16, specs: &[Vec<u8>]) -> Vec<u8> {
    let mut bytes = id.to_be_bytes().to_vec();
    bytes.extend_from_slice(&(specs.len() as u16).to_be_bytes());
    bytes.extend_from_slice(&scope_count.to_be_bytes());
    specs.iter().for_each(|s| bytes.extend_from_slice(s));
    bytes
}

fn set(id: u16, body: &[u8]) -> Vec<u8> {
    let mut bytes = id.to_be_bytes().to_vec();
    bytes.extend_from_slice(&((body.len() + 4) as u16).to_be_bytes());
    bytes.extend_from_slice(body);
    bytes
}

fn message(sets: &[Vec<u8>]) -> Vec<u8> {
    let length: usize = 16 + sets.iter().map(Vec::len).sum::<usize>();
    let mut bytes = vec![0, 10];
    bytes.extend_from_slice(&(length as u16).to_be_bytes());
    bytes.extend_from_slice(&[0, 0, 0, 1, 0, 0, 0, 2, 0, 0, 0, 3]);
    sets.iter().for_each(|s| bytes.extend_from_slice(s));
    bytes
}

/// Parses one buffer that has to come back as exactly one IPFIX message.
fn parse_one(parser: &mut NetflowParser, bytes: &[u8]) -> IPFix {
    let mut packets = parser.parse_bytes(bytes);
    assert_eq!(packets.len(), 1, "{packets:?}");
    match packets.remove(0) {
        NetflowPacket::IPFix(ipfix) => ipfix,
        other => panic!("not an IPFIX message: {other:?}"),
    }
}

/// (template id, field count, [(type number, length)])
type TemplateSummary = (u16, u16, Vec<(u16, u16)>);

/// Summary of a cached template.
fn cached_template(parser: &IPFixParser, id: u16) -> Option<TemplateSummary> {
    parser.templates.get(&id).map(|t| {
        (
            t.template_id,
            t.field_count,
            t.fields
                .iter()
                .map(|f| (f.field_type_number, f.field_length))
                .collect(),
        )
    })
}

/// The template records a template set (or options template set) reports, in order, as
/// they appear in its JSON form: the first record, then its `additional_templates`.
fn reported_records(ipfix: &IPFix, set: usize) -> Vec<serde_json::Value> {
    let json = serde_json::to_value(ipfix).unwrap();
    let body = &json["flowsets"][set]["body"];
    let first = match &ipfix.flowsets[set].body {
        FlowSetBody::Template(_) => &body["Template"],
        FlowSetBody::OptionsTemplate(_) => &body["OptionsTemplate"],
        other => panic!("not a template set: {other:?}"),
    };
    let mut first = first.clone();
    let additional = first
        .as_object_mut()
        .unwrap()
        .remove("additional_templates")
        .map_or(vec![], |records| records.as_array().unwrap().clone());
    std::iter::once(first).chain(additional).collect()
}

/// (type number, length, enterprise number) of each field of a reported record.
fn reported_fields(record: &serde_json::Value) -> Vec<(u64, u64, Option<u64>)> {
    record["fields"]
        .as_array()
        .unwrap()
        .iter()
        .map(|f| {
            (
                f["field_type_number"].as_u64().unwrap(),
                f["field_length"].as_u64().unwrap(),
                f["enterprise_number"].as_u64(),
            )
        })
        .collect()
}

/// Cached templates are plain records: they do not carry the rest of a set.
fn is_plain_record<T: serde::Serialize>(template: &T) -> bool {
    serde_json::to_value(template).unwrap()["additional_templates"].is_null()
}

/// All decoded values of a data set, record after record, field after field.
fn data_values(body: &FlowSetBody) -> Vec<(IPFixField, FieldValue)> {
    match body {
        FlowSetBody::Data(data) => data
            .fields
            .iter()
            .flat_map(|record| record.values().cloned())
            .collect(),
        other => panic!("not a data set: {other:?}"),
    }
}

fn three_templates() -> [Vec<u8>; 3] {
    [
        // sourceIPv4Address, destinationIPv4Address
        template_record(256, &[spec(8, 4), spec(12, 4)]),
        // sourceTransportPort
        template_record(257, &[spec(7, 2)]),
        // an enterprise field (enterprise bit, enterprise number 9), sourceIPv4Address
        template_record(
            258,
            &[
                [spec(0x8000 | 77, 2), vec![0, 0, 0, 9]].concat(),
                spec(8, 4),
            ],
        ),
    ]
}

#[test]
fn every_record_of_a_template_set_is_learned_and_used() {
    let [t256, t257, t258] = three_templates();
    let template_set = set(2, &[t256, t257, t258, vec![0, 0]].concat());
    let bytes = message(&[
        template_set,
        set(257, &[0x1f, 0x90, 0x00, 0x35]),
        set(256, &[10, 0, 0, 1, 10, 0, 0, 2]),
        set(258, &[0xab, 0xcd, 192, 168, 0, 1]),
    ]);

    let mut parser = NetflowParser::default();
    let ipfix = parse_one(&mut parser, &bytes);
    assert_eq!(ipfix.flowsets.len(), 4, "{ipfix:?}");

    // Each record is reported with exactly the fields its field count announces.
    let FlowSetBody::Template(first) = &ipfix.flowsets[0].body else {
        panic!("not a template set: {:?}", ipfix.flowsets[0].body);
    };
    assert_eq!((first.template_id, first.field_count), (256, 2));
    assert_eq!(first.fields.len(), 2);
    assert_eq!(first.padding, vec![0, 0]);
    let records = reported_records(&ipfix, 0);
    assert_eq!(records.len(), 3, "{records:?}");
    assert_eq!(records[0]["template_id"], 256);
    assert_eq!(records[0]["field_count"], 2);
    assert_eq!(
        reported_fields(&records[0]),
        vec![(8, 4, None), (12, 4, None)]
    );
    assert_eq!(records[1]["template_id"], 257);
    assert_eq!(records[1]["field_count"], 1);
    assert_eq!(reported_fields(&records[1]), vec![(7, 2, None)]);
    assert_eq!(records[1]["fields"][0]["field_type"], "SourceTransportPort");
    assert_eq!(records[2]["template_id"], 258);
    assert_eq!(records[2]["field_count"], 2);
    assert_eq!(
        reported_fields(&records[2]),
        vec![(77, 2, Some(9)), (8, 4, None)]
    );
    assert_eq!(records[2]["fields"][0]["field_type"], "Enterprise");
    // A record inside the set does not carry a set of its own.
    assert!(
        records[1..]
            .iter()
            .all(|r| r.as_object().unwrap().len() == 3)
    );

    // Each record is cached under its own id, as a plain record.
    let cache = &parser.ipfix_parser;
    assert_eq!(
        cache.templates.keys().copied().collect::<Vec<_>>(),
        vec![256, 257, 258]
    );
    assert_eq!(
        cached_template(cache, 256),
        Some((256, 2, vec![(8, 4), (12, 4)]))
    );
    assert_eq!(cached_template(cache, 257), Some((257, 1, vec![(7, 2)])));
    assert_eq!(
        cached_template(cache, 258),
        Some((258, 2, vec![(77, 2), (8, 4)]))
    );
    assert!(cache.templates.values().all(is_plain_record));
    assert!(
        cache
            .templates
            .values()
            .all(|t| t.padding.is_empty() || (t.template_id == 256 && t.padding == [0, 0]))
    );
    assert!(cache.options_templates.is_empty());

    // The data sets of the same message are decoded with them.
    let ports = data_values(&ipfix.flowsets[1].body);
    assert_eq!(ports.len(), 2);
    assert!(
        ports
            .iter()
            .all(|(f, _)| *f == IPFixField::SourceTransportPort)
    );
    assert_eq!(
        data_values(&ipfix.flowsets[2].body),
        vec![
            (
                IPFixField::SourceIpv4address,
                FieldValue::Ip4Addr(Ipv4Addr::new(10, 0, 0, 1))
            ),
            (
                IPFixField::DestinationIpv4address,
                FieldValue::Ip4Addr(Ipv4Addr::new(10, 0, 0, 2))
            ),
        ]
    );
    assert_eq!(
        data_values(&ipfix.flowsets[3].body),
        vec![
            (IPFixField::Enterprise, FieldValue::Vec(vec![0xab, 0xcd])),
            (
                IPFixField::SourceIpv4address,
                FieldValue::Ip4Addr(Ipv4Addr::new(192, 168, 0, 1))
            ),
        ]
    );

    // The JSON is the same for a second parser.
    let again = parse_one(&mut NetflowParser::default(), &bytes);
    assert_eq!(
        serde_json::to_string(&ipfix).unwrap(),
        serde_json::to_string(&again).unwrap()
    );
}

#[test]
fn a_template_set_with_several_records_is_re_exported_byte_for_byte() {
    // No enterprise field here: only the layout of the set is under test.
    let [t256, t257, _] = three_templates();
    let t259 = template_record(259, &[spec(1, 8), spec(2, 8), spec(4, 1)]);
    for padding in [vec![], vec![0], vec![0, 0, 0]] {
        let bytes = message(&[
            set(
                2,
                &[t256.clone(), t257.clone(), t259.clone(), padding].concat(),
            ),
            set(259, &[0, 0, 0, 0, 0, 0, 1, 0, 0, 0, 0, 0, 0, 0, 0, 2, 6]),
        ]);
        let ipfix = parse_one(&mut NetflowParser::default(), &bytes);
        assert_eq!(ipfix.flowsets.len(), 2);
        assert_eq!(ipfix.to_be_bytes().unwrap(), bytes);
    }
}

#[test]
fn later_records_are_still_known_in_later_calls_and_in_chained_messages() {
    let [t256, t257, t258] = three_templates();
    let templates = message(&[set(2, &[t256, t257, t258].concat())]);
    let data = message(&[set(257, &[0, 80]), set(258, &[1, 2, 10, 1, 1, 1])]);

    let mut split = NetflowParser::default();
    assert_eq!(split.parse_bytes(&templates).len(), 1);
    let ipfix = parse_one(&mut split, &data);
    assert_eq!(ipfix.flowsets.len(), 2, "{ipfix:?}");
    assert_eq!(data_values(&ipfix.flowsets[0].body).len(), 1);
    assert_eq!(data_values(&ipfix.flowsets[1].body).len(), 2);
    assert_eq!(ipfix.to_be_bytes().unwrap(), data);

    let mut chained = NetflowParser::default();
    let packets = chained.parse_bytes(&[templates, data].concat());
    assert_eq!(packets.len(), 2);
    let NetflowPacket::IPFix(second) = &packets[1] else {
        panic!("not an IPFIX message: {:?}", packets[1]);
    };
    assert_eq!(second, &ipfix);
    assert_eq!(chained.ipfix_parser, split.ipfix_parser);
}

#[test]
fn every_record_of_an_options_template_set_is_learned_and_used() {
    let o300 = options_template_record(300, 1, &[spec(149, 4), spec(41, 8)]);
    let o301 = options_template_record(
        301,
        1,
        &[
            [spec(0x8000 | 5, 4), vec![0, 0, 0, 7]].concat(),
            spec(42, 2),
            spec(40, 2),
        ],
    );
    let o302 = options_template_record(302, 2, &[spec(149, 4), spec(143, 4)]);
    let bytes = message(&[
        set(3, &[o300, o301, o302, vec![0, 0]].concat()),
        set(301, &[1, 2, 3, 4, 0, 5, 0, 6]),
        set(302, &[0, 0, 0, 1, 0, 0, 0, 2, 0, 0, 0, 3, 0, 0, 0, 4]),
    ]);

    let mut parser = NetflowParser::default();
    let ipfix = parse_one(&mut parser, &bytes);
    assert_eq!(ipfix.flowsets.len(), 3, "{ipfix:?}");

    let FlowSetBody::OptionsTemplate(first) = &ipfix.flowsets[0].body else {
        panic!("not an options template set: {:?}", ipfix.flowsets[0].body);
    };
    assert_eq!(
        (
            first.template_id,
            first.field_count,
            first.scope_field_count
        ),
        (300, 2, 1)
    );
    assert_eq!(first.fields.len(), 2);
    assert_eq!(first.padding, vec![0, 0]);
    let records = reported_records(&ipfix, 0);
    assert_eq!(records.len(), 3, "{records:?}");
    assert_eq!(records[0]["template_id"], 300);
    assert_eq!(
        reported_fields(&records[0]),
        vec![(149, 4, None), (41, 8, None)]
    );
    assert_eq!(records[1]["template_id"], 301);
    assert_eq!(records[1]["field_count"], 3);
    assert_eq!(records[1]["scope_field_count"], 1);
    assert_eq!(
        reported_fields(&records[1]),
        vec![(5, 4, Some(7)), (42, 2, None), (40, 2, None)]
    );
    assert_eq!(records[2]["template_id"], 302);
    assert_eq!(records[2]["field_count"], 2);
    assert_eq!(records[2]["scope_field_count"], 2);
    assert_eq!(
        reported_fields(&records[2]),
        vec![(149, 4, None), (143, 4, None)]
    );
    assert!(
        records[1..]
            .iter()
            .all(|r| r.as_object().unwrap().len() == 4)
    );

    let cache = &parser.ipfix_parser;
    assert_eq!(
        cache.options_templates.keys().copied().collect::<Vec<_>>(),
        vec![300, 301, 302]
    );
    assert_eq!(cache.options_templates[&301].fields.len(), 3);
    assert_eq!(cache.options_templates[&302].fields.len(), 2);
    assert!(cache.options_templates.values().all(is_plain_record));
    assert!(cache.templates.is_empty());

    let FlowSetBody::OptionsData(data) = &ipfix.flowsets[1].body else {
        panic!("not options data: {:?}", ipfix.flowsets[1].body);
    };
    assert_eq!(data.fields.len(), 3);
    let FlowSetBody::OptionsData(data) = &ipfix.flowsets[2].body else {
        panic!("not options data: {:?}", ipfix.flowsets[2].body);
    };
    assert_eq!(data.fields.len(), 4);
}

#[test]
fn an_options_template_set_with_several_records_is_re_exported_byte_for_byte() {
    let o300 = options_template_record(300, 1, &[spec(149, 4), spec(41, 8)]);
    let o301 = options_template_record(301, 1, &[spec(149, 4), spec(42, 2), spec(40, 2)]);
    let bytes = message(&[
        set(3, &[o300, o301, vec![0, 0]].concat()),
        set(301, &[1, 2, 3, 4, 0, 5, 0, 6]),
    ]);
    let ipfix = parse_one(&mut NetflowParser::default(), &bytes);
    assert_eq!(ipfix.flowsets.len(), 2);
    assert_eq!(ipfix.to_be_bytes().unwrap(), bytes);
}

#[test]
fn the_last_record_of_a_repeated_id_wins_and_a_kind_change_replaces_the_other_kind() {
    let mut parser = NetflowParser::default();
    let old = template_record(256, &[spec(8, 4)]);
    let other = template_record(257, &[spec(7, 2)]);
    let new = template_record(256, &[spec(7, 2), spec(11, 2)]);
    let bytes = message(&[set(2, &[old, other, new].concat()), set(256, &[0, 1, 0, 2])]);
    let ipfix = parse_one(&mut parser, &bytes);
    assert_eq!(ipfix.flowsets.len(), 2);
    assert_eq!(
        cached_template(&parser.ipfix_parser, 256),
        Some((256, 2, vec![(7, 2), (11, 2)]))
    );
    assert_eq!(data_values(&ipfix.flowsets[1].body).len(), 2);
    assert_eq!(ipfix.to_be_bytes().unwrap(), bytes);

    // 257 comes back as the second record of an options template set ...
    let o300 = options_template_record(300, 1, &[spec(149, 4), spec(41, 8)]);
    let o257 = options_template_record(257, 1, &[spec(149, 4), spec(42, 2)]);
    parse_one(&mut parser, &message(&[set(3, &[o300, o257].concat())]));
    assert!(!parser.ipfix_parser.templates.contains_key(&257));
    assert!(parser.ipfix_parser.options_templates.contains_key(&257));
    assert!(parser.ipfix_parser.templates.contains_key(&256));

    // ... and 300 as the second record of a template set.
    let t400 = template_record(400, &[spec(8, 4)]);
    let t300 = template_record(300, &[spec(12, 4)]);
    parse_one(&mut parser, &message(&[set(2, &[t400, t300].concat())]));
    assert!(!parser.ipfix_parser.options_templates.contains_key(&300));
    assert_eq!(
        cached_template(&parser.ipfix_parser, 300),
        Some((300, 1, vec![(12, 4)]))
    );
}

#[test]
fn a_single_record_set_is_reported_as_before() {
    let bytes = message(&[
        set(
            2,
            &[template_record(256, &[spec(8, 4), spec(12, 4)]), vec![0, 0]].concat(),
        ),
        set(256, &[10, 0, 0, 1, 10, 0, 0, 2]),
    ]);
    let mut parser = NetflowParser::default();
    let ipfix = parse_one(&mut parser, &bytes);
    let FlowSetBody::Template(template) = &ipfix.flowsets[0].body else {
        panic!("not a template set: {:?}", ipfix.flowsets[0].body);
    };
    assert_eq!(reported_records(&ipfix, 0).len(), 1);
    assert_eq!(template.padding, vec![0, 0]);
    let json = serde_json::to_value(&ipfix).unwrap();
    let keys: Vec<&String> = json["flowsets"][0]["body"]["Template"]
        .as_object()
        .unwrap()
        .keys()
        .collect();
    assert_eq!(keys.len(), 3, "{keys:?}");
    assert_eq!(ipfix.to_be_bytes().unwrap(), bytes);
}

#[test]
fn a_record_that_announces_more_fields_than_the_set_holds_is_not_learned() {
    // First record incomplete: the set is not a template set, nothing is cached.
    let mut parser = NetflowParser::default();
    let mut short = template_record(256, &[spec(8, 4), spec(12, 4)]);
    short[3] = 3;
    let ipfix = parse_one(&mut parser, &message(&[set(2, &short)]));
    assert!(ipfix.flowsets.is_empty(), "{ipfix:?}");
    assert_eq!(parser.ipfix_parser, IPFixParser::default());

    // The largest field count on the smallest set.
    let ipfix = parse_one(&mut parser, &message(&[set(2, &[1, 0, 0xff, 0xff])]));
    assert!(ipfix.flowsets.is_empty(), "{ipfix:?}");
    let ipfix = parse_one(
        &mut parser,
        &message(&[set(3, &[1, 0, 0xff, 0xff, 0xff, 0xff])]),
    );
    assert!(ipfix.flowsets.is_empty(), "{ipfix:?}");
    assert_eq!(parser.ipfix_parser, IPFixParser::default());

    // A later record incomplete: the complete records before it are learned, the rest of
    // the set is kept so that the message is still re-exported as received.
    let good = template_record(256, &[spec(8, 4)]);
    let mut cut = template_record(257, &[spec(7, 2), spec(11, 2)]);
    cut.truncate(8);
    let bytes = message(&[
        set(2, &[good, cut.clone()].concat()),
        set(256, &[10, 0, 0, 1]),
    ]);
    let ipfix = parse_one(&mut parser, &bytes);
    assert_eq!(ipfix.flowsets.len(), 2, "{ipfix:?}");
    let FlowSetBody::Template(template) = &ipfix.flowsets[0].body else {
        panic!("not a template set: {:?}", ipfix.flowsets[0].body);
    };
    assert_eq!(template.fields.len(), 1);
    assert_eq!(reported_records(&ipfix, 0).len(), 1);
    assert_eq!(template.padding, cut);
    assert_eq!(
        parser
            .ipfix_parser
            .templates
            .keys()
            .copied()
            .collect::<Vec<_>>(),
        vec![256]
    );
    assert_eq!(ipfix.to_be_bytes().unwrap(), bytes);
}

#[test]
fn a_record_without_fields_does_not_take_the_fields_of_the_next_record() {
    // Field count zero is a template withdrawal, not a template: it must not be cached
    // with the bytes of the following record as its fields.
    let mut parser = NetflowParser::default();
    let withdrawal = template_record(256, &[]);
    let next = template_record(257, &[spec(7, 2)]);
    let ipfix = parse_one(
        &mut parser,
        &message(&[set(2, &[withdrawal, next].concat())]),
    );
    assert!(ipfix.flowsets.is_empty(), "{ipfix:?}");
    assert_eq!(parser.ipfix_parser, IPFixParser::default());

    // Zero padding that is as long as a record header is padding, not a record.
    let bytes = message(&[set(
        2,
        &[template_record(256, &[spec(8, 4)]), vec![0; 5]].concat(),
    )]);
    let ipfix = parse_one(&mut parser, &bytes);
    let FlowSetBody::Template(template) = &ipfix.flowsets[0].body else {
        panic!("not a template set: {:?}", ipfix.flowsets[0].body);
    };
    assert_eq!(reported_records(&ipfix, 0).len(), 1);
    assert_eq!(template.padding, vec![0; 5]);
    assert_eq!(
        parser
            .ipfix_parser
            .templates
            .keys()
            .copied()
            .collect::<Vec<_>>(),
        vec![256]
    );
    assert_eq!(ipfix.to_be_bytes().unwrap(), bytes);
}

#[test]
fn a_set_full_of_smallest_records_is_decoded_record_by_record() {
    // 8 bytes per record: as many records as a message can hold.
    let records: Vec<Vec<u8>> = (0..8000u16)
        .map(|n| template_record(256 + n, &[spec(8, 4)]))
        .collect();
    let bytes = message(&[set(2, &records.concat())]);
    assert!(bytes.len() <= 65535);
    let mut parser = NetflowParser::default();
    let ipfix = parse_one(&mut parser, &bytes);
    let FlowSetBody::Template(template) = &ipfix.flowsets[0].body else {
        panic!("not a template set");
    };
    assert_eq!(template.template_id, 256);
    assert_eq!(reported_records(&ipfix, 0).len(), 8000);
    assert_eq!(parser.ipfix_parser.templates.len(), 8000);
    assert_eq!(ipfix.to_be_bytes().unwrap(), bytes);
    assert!(serde_json::to_string(&ipfix).is_ok());
}
