//! A V9 options data flowset carries any number of options records back to back
//! (all scope fields of record 1, all option fields of record 1, record 2, ...).
//! Every complete record has to be decoded, what is left over is padding, and
//! re-exporting the packet has to give back the bytes received.

//!
//! The records after the first one are read from the serialized form, so that this file
//! also builds against a version of the crate that does not decode them.

use netflow_parser::variable_versions::v9::{
    FlowSetBody, OptionDataField, OptionsData, ScopeDataField, V9,
};
use netflow_parser::variable_versions::v9_lookup::V9Field;
use netflow_parser::{NetflowPacket, NetflowParser};
use serde_json::{Value, json};

/// Template fields as (type, length).
type Fields = [(u16, u16)];

const SCOPE_SYSTEM: u16 = 1;
const SCOPE_INTERFACE: u16 = 2;
const SCOPE_LINE_CARD: u16 = 3;
const SCOPE_NETFLOW_CACHE: u16 = 4;
const SCOPE_TEMPLATE: u16 = 5;

const SAMPLING_INTERVAL: u16 = 34;
const SAMPLING_ALGORITHM: u16 = 35;
const IF_NAME: u16 = 82;

fn v9_packet(flowsets: &[Vec<u8>]) -> Vec<u8> {
    let mut packet = vec![0, 9];
    packet.extend_from_slice(&(flowsets.len() as u16).to_be_bytes());
    packet.extend_from_slice(&[0, 0, 9, 9, 0, 1, 2, 3, 0, 0, 0, 1, 0, 0, 0, 1]);
    for flowset in flowsets {
        packet.extend_from_slice(flowset);
    }
    packet
}

fn flowset(id: u16, body: &[u8]) -> Vec<u8> {
    let mut flowset = id.to_be_bytes().to_vec();
    flowset.extend_from_slice(&((body.len() + 4) as u16).to_be_bytes());
    flowset.extend_from_slice(body);
    flowset
}

/// Options template flowset with one template; fields are (type, length).
fn options_template(id: u16, scope: &[(u16, u16)], options: &[(u16, u16)]) -> Vec<u8> {
    let mut body = id.to_be_bytes().to_vec();
    body.extend_from_slice(&((scope.len() * 4) as u16).to_be_bytes());
    body.extend_from_slice(&((options.len() * 4) as u16).to_be_bytes());
    for (field_type, field_length) in scope.iter().chain(options.iter()) {
        body.extend_from_slice(&field_type.to_be_bytes());
        body.extend_from_slice(&field_length.to_be_bytes());
    }
    flowset(1, &body)
}

fn parse_v9(parser: &mut NetflowParser, packet: &[u8]) -> V9 {
    let mut parsed = parser.parse_bytes(packet);
    assert_eq!(parsed.len(), 1, "one packet expected: {parsed:?}");
    match parsed.remove(0) {
        NetflowPacket::V9(v9) => v9,
        other => panic!("V9 packet expected, got {other:?}"),
    }
}

fn options_data(v9: &V9, flowset_index: usize) -> &OptionsData {
    match &v9.flowsets[flowset_index].body {
        FlowSetBody::OptionsData(options_data) => options_data,
        other => panic!("options data expected, got {other:?}"),
    }
}

fn record(scope_fields: &[ScopeDataField], options_fields: &[OptionDataField]) -> Value {
    json!({ "scope_fields": scope_fields, "options_fields": options_fields })
}

/// Every record of flowset `flowset_index`, in order. No record at all is reported as a
/// first record without fields.
fn records(v9: &V9, flowset_index: usize) -> Vec<Value> {
    let first = options_data(v9, flowset_index);
    let mut records = vec![record(&first.scope_fields, &first.options_fields)];

    let serialized = serde_json::to_value(v9).unwrap();
    let serialized = &serialized["flowsets"][flowset_index]["body"]["OptionsData"];
    assert_eq!(serialized["scope_fields"], records[0]["scope_fields"]);
    assert_eq!(serialized["options_fields"], records[0]["options_fields"]);
    if let Some(additional) = serialized.get("additional_records") {
        let additional = additional.as_array().unwrap();
        assert!(!additional.is_empty(), "empty list is left out");
        records.extend(additional.iter().cloned());
    }
    records
}

fn no_record() -> Vec<Value> {
    vec![record(&[], &[])]
}

fn scope_value(field_type: u16, value: &[u8]) -> ScopeDataField {
    match field_type {
        SCOPE_SYSTEM => ScopeDataField::System(value.to_vec()),
        SCOPE_INTERFACE => ScopeDataField::Interface(value.to_vec()),
        SCOPE_LINE_CARD => ScopeDataField::LineCard(value.to_vec()),
        SCOPE_NETFLOW_CACHE => ScopeDataField::NetFlowCache(value.to_vec()),
        SCOPE_TEMPLATE => ScopeDataField::Template(value.to_vec()),
        other => panic!("no such scope type {other}"),
    }
}

/// What a flowset body has to decode to: the complete records and the padding.
fn expected(
    scope: &[(u16, u16)],
    options: &[(u16, u16)],
    body: &[u8],
) -> (Vec<Value>, Vec<u8>) {
    let record_len: usize = scope
        .iter()
        .chain(options.iter())
        .map(|(_, length)| usize::from(*length))
        .sum();
    let count = body.len().checked_div(record_len).unwrap_or(0);
    let mut at = 0;
    let mut records = vec![];
    for _ in 0..count {
        let mut scope_fields = vec![];
        for (field_type, length) in scope {
            let end = at + usize::from(*length);
            scope_fields.push(scope_value(*field_type, &body[at..end]));
            at = end;
        }
        let mut options_fields = vec![];
        for (field_type, length) in options {
            let end = at + usize::from(*length);
            options_fields.push(OptionDataField {
                field_type: V9Field::from(*field_type),
                field_value: body[at..end].to_vec(),
            });
            at = end;
        }
        records.push(record(&scope_fields, &options_fields));
    }
    if records.is_empty() {
        records = no_record();
    }
    (records, body[at..].to_vec())
}

#[test]
fn every_options_record_of_a_flowset_is_decoded() {
    let scope = [(SCOPE_INTERFACE, 2)];
    let options = [(SAMPLING_INTERVAL, 2), (SAMPLING_ALGORITHM, 1)];
    // three records of five bytes and three bytes that are too few for a fourth
    let body = [
        0, 1, 0, 100, 1, //
        0, 2, 0, 200, 2, //
        0, 3, 1, 44, 3, //
        0xaa, 0xbb, 0xcc,
    ];
    let packet = v9_packet(&[options_template(300, &scope, &options), flowset(300, &body)]);

    let mut parser = NetflowParser::default();
    let v9 = parse_v9(&mut parser, &packet);
    let decoded = options_data(&v9, 1);

    // the first record stays where it always was
    assert_eq!(
        decoded.scope_fields,
        vec![ScopeDataField::Interface(vec![0, 1])]
    );
    assert_eq!(
        decoded.options_fields,
        vec![
            OptionDataField {
                field_type: V9Field::SamplingInterval,
                field_value: vec![0, 100],
            },
            OptionDataField {
                field_type: V9Field::SamplingAlgorithm,
                field_value: vec![1],
            },
        ]
    );
    // the further ones follow, in the order received
    assert_eq!(
        records(&v9, 1)[1..],
        [
            json!({
                "scope_fields": [{ "Interface": [0, 2] }],
                "options_fields": [
                    { "field_type": "SamplingInterval", "field_value": [0, 200] },
                    { "field_type": "SamplingAlgorithm", "field_value": [2] },
                ],
            }),
            json!({
                "scope_fields": [{ "Interface": [0, 3] }],
                "options_fields": [
                    { "field_type": "SamplingInterval", "field_value": [1, 44] },
                    { "field_type": "SamplingAlgorithm", "field_value": [3] },
                ],
            }),
        ]
    );
    assert_eq!(decoded.padding, vec![0xaa, 0xbb, 0xcc]);

    let (want_records, want_padding) = expected(&scope, &options, &body);
    assert_eq!(records(&v9, 1), want_records);
    assert_eq!(decoded.padding, want_padding);

    assert_eq!(v9.to_be_bytes().unwrap(), packet);

    // same bytes, template now taken from the cache of an earlier call
    let data_only = v9_packet(&[flowset(300, &body)]);
    let v9 = parse_v9(&mut parser, &data_only);
    assert_eq!(records(&v9, 0), want_records);
    assert_eq!(options_data(&v9, 0).padding, want_padding);
    assert_eq!(v9.to_be_bytes().unwrap(), data_only);
}

#[test]
fn a_single_record_keeps_its_shape() {
    let scope = [(SCOPE_SYSTEM, 4)];
    let options = [(SAMPLING_INTERVAL, 4), (IF_NAME, 3)];
    let body = [1, 2, 3, 4, 0, 0, 0, 9, b'e', b't', b'h', 0, 0];
    let packet = v9_packet(&[options_template(256, &scope, &options), flowset(256, &body)]);

    let mut parser = NetflowParser::default();
    let v9 = parse_v9(&mut parser, &packet);
    let decoded = options_data(&v9, 1);

    assert_eq!(
        decoded.scope_fields,
        vec![ScopeDataField::System(vec![1, 2, 3, 4])]
    );
    assert_eq!(
        decoded.options_fields,
        vec![
            OptionDataField {
                field_type: V9Field::SamplingInterval,
                field_value: vec![0, 0, 0, 9],
            },
            OptionDataField {
                field_type: V9Field::IfName,
                field_value: b"eth".to_vec(),
            },
        ]
    );
    assert_eq!(decoded.padding, vec![0, 0]);
    assert_eq!(v9.to_be_bytes().unwrap(), packet);

    // nothing but the two lists it always had is serialized
    let serialized = serde_json::to_value(&v9).unwrap();
    let serialized = serialized["flowsets"][1]["body"]["OptionsData"]
        .as_object()
        .unwrap();
    let mut keys: Vec<&str> = serialized.keys().map(String::as_str).collect();
    keys.sort_unstable();
    assert_eq!(keys, ["options_fields", "scope_fields"]);
}

#[test]
fn bytes_too_few_for_a_record_are_padding() {
    let scope = [(SCOPE_INTERFACE, 4), (SCOPE_LINE_CARD, 2)];
    let options = [(SAMPLING_INTERVAL, 2), (SAMPLING_ALGORITHM, 1)];
    let mut parser = NetflowParser::default();
    parse_v9(
        &mut parser,
        &v9_packet(&[options_template(400, &scope, &options)]),
    );

    // nine bytes make a record: no record up to eight bytes, then one, then two, each
    // with every possible leftover
    for len in 0..27_u8 {
        let body: Vec<u8> = (1..=len).collect();
        let packet = v9_packet(&[flowset(400, &body)]);
        let v9 = parse_v9(&mut parser, &packet);
        let (want_records, want_padding) = expected(&scope, &options, &body);
        if len < 9 {
            assert_eq!(want_records, no_record());
            assert_eq!(want_padding, body);
        }
        assert_eq!(want_padding.len(), usize::from(len % 9));
        assert_eq!(records(&v9, 0), want_records, "body of {len} bytes");
        assert_eq!(
            options_data(&v9, 0).padding,
            want_padding,
            "body of {len} bytes"
        );
        assert_eq!(v9.to_be_bytes().unwrap(), packet);
    }
}

#[test]
fn record_layouts_and_counts() {
    // (scope fields, option fields)
    let layouts: [(&Fields, &Fields); 6] = [
        (&[(SCOPE_SYSTEM, 1)], &[]),
        (&[], &[(SAMPLING_ALGORITHM, 1)]),
        (&[(SCOPE_TEMPLATE, 2)], &[(SAMPLING_INTERVAL, 4)]),
        (
            &[
                (SCOPE_SYSTEM, 4),
                (SCOPE_INTERFACE, 4),
                (SCOPE_NETFLOW_CACHE, 1),
            ],
            &[
                (IF_NAME, 16),
                (SAMPLING_INTERVAL, 3),
                (SAMPLING_ALGORITHM, 1),
            ],
        ),
        (&[(SCOPE_LINE_CARD, 7)], &[(40001, 5), (40002, 11)]),
        (&[(SCOPE_INTERFACE, 300)], &[(IF_NAME, 700)]),
    ];

    let mut seed = 0x2545_f491_u32;
    let mut next = move || {
        seed ^= seed << 13;
        seed ^= seed >> 17;
        seed ^= seed << 5;
        seed as u8
    };

    for (scope, options) in layouts {
        let record_len: usize = scope
            .iter()
            .chain(options.iter())
            .map(|(_, length)| usize::from(*length))
            .sum();
        let mut parser = NetflowParser::default();
        parse_v9(
            &mut parser,
            &v9_packet(&[options_template(1000, scope, options)]),
        );

        for count in [0_usize, 1, 2, 3, 7] {
            for leftover in [0, 1, record_len / 2, record_len - 1] {
                let leftover = leftover.min(record_len - 1);
                let body: Vec<u8> =
                    (0..count * record_len + leftover).map(|_| next()).collect();
                // two flowsets for the same template in one packet
                let packet = v9_packet(&[flowset(1000, &body), flowset(1000, &body)]);
                let v9 = parse_v9(&mut parser, &packet);
                let (want_records, want_padding) = expected(scope, options, &body);
                assert_eq!(want_records.len(), count.max(1));
                for index in 0..2 {
                    assert_eq!(records(&v9, index), want_records);
                    assert_eq!(options_data(&v9, index).padding, want_padding);
                }
                assert_eq!(v9.to_be_bytes().unwrap(), packet);
            }
        }
    }
}

#[test]
fn options_records_between_other_flowsets() {
    let scope = [(SCOPE_INTERFACE, 4)];
    let options = [(SAMPLING_INTERVAL, 4), (SAMPLING_ALGORITHM, 1)];
    let options_body: Vec<u8> = (0..29).collect(); // three records and two bytes
    // template 500: IPV4_SRC_ADDR (8), 4 bytes, and L4_SRC_PORT (7), 2 bytes
    let template = flowset(0, &[1, 244, 0, 2, 0, 8, 0, 4, 0, 7, 0, 2]);
    let data_body = [10, 0, 0, 1, 0, 80, 10, 0, 0, 2, 1, 187];
    let packet = v9_packet(&[
        template,
        options_template(501, &scope, &options),
        flowset(500, &data_body),
        flowset(501, &options_body),
        flowset(500, &data_body),
    ]);

    let mut parser = NetflowParser::default();
    let v9 = parse_v9(&mut parser, &packet);
    assert_eq!(v9.flowsets.len(), 5);
    let (want_records, want_padding) = expected(&scope, &options, &options_body);
    assert_eq!(want_records.len(), 3);
    assert_eq!(records(&v9, 3), want_records);
    assert_eq!(options_data(&v9, 3).padding, want_padding);
    for index in [2, 4] {
        match &v9.flowsets[index].body {
            FlowSetBody::Data(data) => assert_eq!(data.fields.len(), 2),
            other => panic!("data expected, got {other:?}"),
        }
    }
    assert_eq!(v9.to_be_bytes().unwrap(), packet);

    // options records are not flows
    let common = NetflowPacket::V9(v9).as_netflow_common().unwrap();
    assert_eq!(common.flowsets.len(), 4);
}

#[test]
fn many_small_records() {
    let template = options_template(700, &[(SCOPE_SYSTEM, 1)], &[]);
    let body: Vec<u8> = (0..60_000_u32).map(|n| n as u8).collect();
    let packet = v9_packet(&[template, flowset(700, &body)]);

    let mut parser = NetflowParser::default();
    let v9 = parse_v9(&mut parser, &packet);
    let decoded = records(&v9, 1);
    assert_eq!(decoded.len(), 60_000);
    assert_eq!(
        decoded[59_999],
        json!({ "scope_fields": [{ "System": [59_999 % 256] }], "options_fields": [] })
    );
    assert!(options_data(&v9, 1).padding.is_empty());
    assert_eq!(v9.to_be_bytes().unwrap(), packet);
}

#[test]
fn zero_length_fields_do_not_multiply_the_output() {
    // one byte of scope and 2000 option fields that take no bytes at all: were those
    // decoded, 50,000 bytes of data would turn into a hundred million values
    let options = vec![(SAMPLING_ALGORITHM, 0_u16); 2000];
    let template = options_template(800, &[(SCOPE_SYSTEM, 1)], &options);
    let body = vec![7_u8; 50_000];
    let packet = v9_packet(&[template, flowset(800, &body)]);

    let mut parser = NetflowParser::default();
    let parsed = parser.parse_bytes(&packet);
    assert_eq!(parsed.len(), 1);
    if let NetflowPacket::V9(v9) = &parsed[0] {
        let values: usize = records(v9, 1)
            .iter()
            .map(|record| {
                record["scope_fields"].as_array().unwrap().len()
                    + record["options_fields"].as_array().unwrap().len()
            })
            .sum();
        assert!(values <= body.len(), "{values} values out of 50,000 bytes");
        assert_eq!(v9.to_be_bytes().unwrap(), packet);
    }

    // every field of length zero: there is no record to decode
    let template = options_template(801, &[(SCOPE_SYSTEM, 0)], &[(SAMPLING_ALGORITHM, 0)]);
    let packet = v9_packet(&[template, flowset(801, &[1, 2, 3, 4])]);
    let parsed = parser.parse_bytes(&packet);
    assert_eq!(parsed.len(), 1);
    if let NetflowPacket::V9(v9) = &parsed[0] {
        assert_eq!(records(v9, 1), no_record());
        assert_eq!(options_data(v9, 1).padding, vec![1, 2, 3, 4]);
        assert_eq!(v9.to_be_bytes().unwrap(), packet);
    }
}

#[test]
fn a_record_with_an_unknown_scope_type_is_not_decoded_from_the_wrong_bytes() {
    // there is no scope type 9, so the second scope field has no decoded form; whatever
    // is reported, the option field of the first record lies at bytes 4..6, not at 2..4
    let scope = [(SCOPE_SYSTEM, 2), (9, 2)];
    let options = [(SAMPLING_INTERVAL, 2)];
    let body: Vec<u8> = (1..=14).collect();
    let packet = v9_packet(&[options_template(900, &scope, &options), flowset(900, &body)]);

    let mut parser = NetflowParser::default();
    let v9 = parse_v9(&mut parser, &packet);
    for field in options_data(&v9, 1).options_fields.iter() {
        assert_eq!(field.field_value, vec![5, 6]);
    }
    assert_eq!(v9.to_be_bytes().unwrap(), packet);
}
