#!/bin/sh
# rf_some.sh <name-prefix>...: all 17 checks on the matching pre-applied refactor worktrees
for pat in "$@"; do ls /tmp/rfw | grep "^$pat"; done | sort -u | xargs -P 8 -I{} sh -c 'out=""; for c in C01 C02 C03 C04 C05 C06 C07 C08 C09 C10 C11 C12 C13 C14 C15 C16 C17; do r=$(NFSA_REPO=/tmp/rfw/{} NFSA_EVIDENCE_DIR=/tmp/rfw_ev/{} /verif/check $c 2>/dev/null | grep -c "^VIOLATION"); if [ "$r" != "0" ]; then out="$out $c:$r"; fi; done; echo "{} ${out:-SILENT}"'
