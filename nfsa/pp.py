"""Pretty-printer for exported MIR (debugging aid and replay files)."""


def place_s(p):
    s = "_%d" % p["l"]
    for e in p.get("p", []):
        k = e["k"]
        if k == "deref":
            s = "(*%s)" % s
        elif k == "field":
            s = "%s.%s" % (s, e.get("name", e["i"]))
        elif k == "downcast":
            s = "(%s as %s)" % (s, e.get("variant", e["vi"]))
        elif k == "index":
            s = "%s[_%d]" % (s, e["l"])
        else:
            s = "%s<%s>" % (s, k)
    return s


def op_s(o):
    if o is None:
        return "?"
    k = o["k"]
    if k in ("copy", "move"):
        return ("move " if k == "move" else "") + place_s(o["place"])
    if k == "const":
        if "fn" in o:
            f = o["fn"]
            r = f.get("resolved")
            if isinstance(r, dict):
                return "fn<%s>" % r["id"]
            return "fn<%s%s>" % (f["path"], f["args"])
        if "val" in o:
            return "const %s_%s" % (o["val"], o["ty"])
        if "promoted" in o:
            return "promoted[%d]" % o["promoted"]
        return "const(%s)" % o.get("repr", o["ty"])
    return "<%s>" % k


def rv_s(rv):
    k = rv["k"]
    if k == "use":
        return op_s(rv["op"])
    if k == "ref":
        return "&%s%s" % ("mut " if rv["bk"] == "mut" else "", place_s(rv["place"]))
    if k == "binop":
        return "%s(%s, %s)" % (rv["op"], op_s(rv["a"]), op_s(rv["b"]))
    if k == "unop":
        return "%s(%s)" % (rv["op"], op_s(rv["a"]))
    if k == "cast":
        return "%s as %s (%s)" % (op_s(rv["op"]), rv["ty"], rv["kind"])
    if k == "discriminant":
        return "discriminant(%s)" % place_s(rv["place"])
    if k == "aggregate":
        a = rv["agg"]
        ops = ", ".join(op_s(o) for o in rv["ops"])
        if a == "adt":
            return "%s::%s{%s}" % (rv["adt"], rv["variant"], ops)
        if a == "closure":
            return "closure<%s>[%s]" % (rv["closure"], ops)
        return "%s(%s)" % (a, ops)
    if k == "copyforderef":
        return "copy_for_deref(%s)" % place_s(rv["place"])
    return "<%s %s>" % (k, rv.get("repr", ""))


def term_s(t):
    k = t["k"]
    if k == "goto":
        return "goto bb%d" % t["t"]
    if k == "switch":
        return "switch %s [%s, otherwise bb%d]" % (
            op_s(t["op"]),
            ", ".join("%s→bb%d" % (v, b) for v, b in t["targets"]),
            t["otherwise"],
        )
    if k == "call":
        return "%s = %s(%s) → %s" % (
            place_s(t["dest"]),
            op_s(t["func"]),
            ", ".join(op_s(a) for a in t["args"]),
            "bb%d" % t["t"] if t["t"] is not None else "!",
        )
    if k == "assert":
        return "assert(%s == %s, %s(%s)) → bb%d" % (
            op_s(t["cond"]), t["expected"], t["kind"], ", ".join(op_s(o) for o in t["ops"]), t["t"])
    if k == "drop":
        return "drop(%s) → bb%d" % (place_s(t["place"]), t["t"])
    return k


def body_s(mir, with_cleanup=False):
    out = []
    for i, l in enumerate(mir["locals"]):
        out.append("  let _%d: %s" % (i, l["ty"]))
    for d in mir["debug"]:
        out.append("  debug %s => %s" % (d["name"], place_s(d["place"])))
    for i, b in enumerate(mir["blocks"]):
        if b["cleanup"] and not with_cleanup:
            continue
        out.append(" bb%d:%s" % (i, " (cleanup)" if b["cleanup"] else ""))
        for s in b["stmts"]:
            if s["k"] == "assign":
                out.append("    %s = %s" % (place_s(s["place"]), rv_s(s["rv"])))
            elif s["k"] == "setdiscr":
                out.append("    discriminant(%s) = %s" % (place_s(s["place"]), s["vi"]))
            else:
                out.append("    <%s>" % s["k"])
        out.append("    %s    // %s" % (term_s(b["term"]), b["tspan"]["s"]))
    return "\n".join(out)


if __name__ == "__main__":
    import json, sys
    f = json.load(open(sys.argv[1]))
    for name in sys.argv[2:]:
        b = f["bodies"][name]
        print("fn", name, b.get("sig", ""))
        print(body_s(b["mir"]))
