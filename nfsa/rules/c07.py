"""C07 — data for an unknown template is never turned into flow records (DESIGN §4.7)."""
import re

from .common import *
from .cache import *

LEVEL = "proof"
EXPLANATION = (
    "Every call of a data / options-data decoder is dominated by the true edge of contains_key(&id) on "
    "exactly the cache map and key that the decoder's own get(&id) later reads; the path on which no "
    "guard holds builds Err and reaches neither a decoder nor a cache write; every "
    "unwrap_or_default() fallback on a cache lookup sits in a function that is only called under such a "
    "guard (and the IPFIX decoders additionally refuse an empty field list before decoding); V9 "
    "propagates a flowset error with `?` through parse_flowsets, IPFIX parses sets under "
    "many0(complete(..)) so earlier sets are kept. Cache immutability on this path is C06 R6.1."
)
ASSUMPTIONS = ["HashMap/BTreeMap::contains_key and get agree on key presence (std contract)"]

DECODERS = {
    "variable_versions::v9::Data": ("variable_versions::v9::V9Parser", "templates"),
    "variable_versions::v9::OptionsData": ("variable_versions::v9::V9Parser", "options_templates"),
    "variable_versions::ipfix::Data": ("variable_versions::ipfix::IPFixParser", "templates"),
    "variable_versions::ipfix::OptionsData": ("variable_versions::ipfix::IPFixParser", "options_templates"),
}


def option_guards(an, b):
    """Guards of the form `match map.get(&id) { Some(t) => .., None => .. }` on a cache map:
    [(call block, get expr, switch block, Some target, None target, (adt, field))]."""
    out = []
    for blk in sorted(b.live_blocks()):
        t = b.term(blk)
        if t["k"] != "switch":
            continue
        e = peel(an.op(b, t["op"]))
        if e[0] != "discr":
            continue
        g = peel(e[1])
        if not (g[0] == "call" and g[2] is not None and g[2].npath in GET and len(g[3]) == 2):
            continue
        recv = peel(g[3][0])
        if not (recv[0] == "field" and (recv[3], recv[2]) in DECODERS.values()):
            continue
        some_t = [tb for v, tb in t["targets"] if v == 1]
        none_t = [tb for v, tb in t["targets"] if v == 0]
        st = some_t[0] if some_t else t["otherwise"]
        nt = none_t[0] if none_t else t["otherwise"]
        if st == nt:
            continue
        out.append((g[1], g, blk, st, nt, (recv[3], recv[2])))
    return out


def template_handed_over(an, b, t):
    """The call is given the template found by `get` on a cache map: -> (get expr, (adt, field)) or None."""
    for a in t["args"]:
        e = peel(an.op(b, a))
        while e[0] in ("ref", "deref"):
            e = peel(e[1])
        if e[0] == "some":
            g = peel(e[1])
            if g[0] == "call" and g[2] is not None and g[2].npath in GET and len(g[3]) == 2:
                recv = peel(g[3][0])
                if recv[0] == "field" and (recv[3], recv[2]) in DECODERS.values():
                    return g, (recv[3], recv[2])
    return None


def decoder_of(path):
    """'variable_versions::v9::Data::parse_be::{closure#0}' -> 'variable_versions::v9::Data'"""
    p = re.sub(r"(::\{closure#\d+\})+$", "", path)
    for d in DECODERS:
        if p in (d + "::parse", d + "::parse_be", d + "::parse_le"):
            return d
    return None


def decoder_part(prog, path, memo=None, depth=0):
    """The decoder a function belongs to: the decoder's own parse/parse_be (and closures), or a private helper all
    of whose callers belong to one and the same decoder (`FieldParser::parse_with_cached` called only from
    `Data::parse_be`)."""
    d = decoder_of(path)
    if d:
        return d
    memo = {} if memo is None else memo
    root = re.sub(r"(::\{closure#\d+\})+$", "", path)
    if root in memo:
        return memo[root]
    memo[root] = None
    hb = prog.bodies.get(root)
    if hb is None or hb.j.get("pub") or hb.derived or depth > 2:
        return None
    from .common import call_sites_of
    ds = set(decoder_part(prog, cb.path, memo, depth + 1) for cb, _, _ in call_sites_of(prog, root))
    if len(ds) == 1 and None not in ds:
        memo[root] = ds.pop()
    return memo[root]


def run(ctx, env):
    prog = env.prog("default")
    an = An(prog)
    ctx.rule("R7.1", "each decoder call is dominated by contains_key(&id)==true on the very map and key the decoder's own get(&id) reads")
    ctx.rule("R7.2", "the fall-through (no guard true) builds Err and reaches no decoder call and no cache write")
    ctx.rule("R7.3", "each unwrap_or_default() on a cache lookup is inside a decoder that is only called under R7.1's guard; IPFIX decoders reject an empty field list before decoding")
    ctx.rule("R7.7", "a data set for an unknown id is looked up, not parsed as a template record: set ids 255 and above reach neither template parser, so the set cannot teach the cache (shared with C05 R5.2)")
    from . import c05 as _c05
    _c05.set_id_dispatch_rule(ctx, prog, an, "R7.7", only_data=True)
    ctx.rule("R7.6", "every flowset of a V9 packet reaches the template lookup: the flowset repetition is bounded by header.count itself and finishes early only on empty input, so a data flowset without a template cannot be left unexamined (and re-read as something else) instead of failing the packet (shared with C14 R14.6)")
    from . import loopexit as _le
    _le.flowset_repetition_rule(ctx, prog, an, "R7.6")
    ctx.rule("R7.5", "every mutation of a template map (insert / extend / remove / ..) is made by the template or options-template arm of FlowSetBody::parse (directly or through private helpers called only from there): the unknown-id path, the data decoders and the error path of a failed packet cannot change the caches")
    ctx.rule("R7.4", "V9: the flowset error is propagated with `?` (packet becomes an error); IPFIX: sets are parsed under many0(complete(..)) (earlier sets kept)")
    ca = CacheAccess(prog, an)
    bodies = reach_bodies(prog, PARSE_ROOTS)
    # what each decoder reads
    reads_by_decoder = {}
    for r in ca.reads:
        if r["callee"].npath in GET:
            d = decoder_of(r["body"].path)
            if d and r["body"].path.split("::parse")[1].startswith(("_be", "::", "")) and "parse_le" not in r["body"].path:
                _, key = an.lift(r["body"], an.op(r["body"], r["term"]["args"][1]))
                reads_by_decoder.setdefault(d, []).append((r["adt"], r["field"], peel(key)))
            elif d is None and "parse_le" not in r["body"].path and decoder_part(prog, r["body"].path):
                # the lookup sits in a private helper of the decoder: its key in the decoder's own terms
                from .common import lift_callers
                d = decoder_part(prog, r["body"].path)
                hb, key = an.lift(r["body"], an.op(r["body"], r["term"]["args"][1]))
                for _ in range(3):
                    if decoder_of(hb.path):
                        break
                    up = lift_callers(an, hb, key)
                    if not up:
                        break
                    hb, key = up[0] if len(set(canon(x[1]) for x in up)) == 1 else (hb, ("unknown", "helper called with differing keys"))
                    if key[0] == "unknown":
                        break
                key = peel(key)
                while key[0] in ("ref", "deref"):
                    key = peel(key[1])
                reads_by_decoder.setdefault(d, []).append((r["adt"], r["field"], key))
    # R7.1
    n = 0
    guarded_decoders = {}
    guard_bodies = {}
    handed = set()
    handed_callees = set()
    def guard_helper(p):
        """A private helper that performs the contains_key test(s) on behalf of the dispatch function
        (`fn known_template_kind(&self, id) -> Option<Kind>`): inlined at CFG level into its caller."""
        hb = prog.bodies.get(p)
        if hb is None or hb.j.get("pub") or hb.derived or hb.nblocks > 80:
            return False
        cs = [c2 for _, _, c2 in hb.calls() if c2 is not None]
        return any(c2.npath in CONTAINS_KEY for c2 in cs) and not any(c2.local and decoder_of(c2.path) for c2 in cs)

    for b in list(bodies.values()):
        if any(c is not None and c.local and decoder_of(c.path) and decoder_of(b.path) != decoder_of(c.path) for _, _, c in b.calls()):
            b = prog.inlined_body(b.path, guard_helper, key="c07") or b
        for blk, t, c in b.calls():
            if c is None or not c.local:
                continue
            d = decoder_of(c.path)
            if d is None:
                # lookup-then-decode: `match parser.templates.get(&id) { Some(t) => Data::from_template(i, t), .. }`.
                # The decoder is handed the template itself; the call only exists on the Some edge of that get, and
                # performs no lookup of its own (nothing to fall back to).
                ho = template_handed_over(an, b, t) if (decoder_of(b.path) is None and not b.derived and "parse_le" not in b.path) else None
                if ho is None:
                    continue
                g, mf = ho
                d2 = [dd for dd, v in DECODERS.items() if v == mf][0]
                key = peel(g[3][1])
                while key[0] in ("ref", "deref"):
                    key = peel(key[1])
                og = [x for x in option_guards(an, b) if x[5] == mf and b.edge_dominates((x[2], x[3]), blk)]
                okh = bool(og) and key[0] == "arg"
                n += 1
                guarded_decoders.setdefault(d2, []).append(okh)
                handed.add(d2)
                handed_callees.add((d2, c.path))
                if okh:
                    guard_bodies.setdefault(b.path, b)
                ctx.ob("R7.1", b.path, "guarded:%s" % d2, okh,
                       ("%s is handed the template found by get(&%s.%s, &id) and is only called on its Some edge (%s)" % (c.path.rsplit("::", 2)[-2] + "::" + c.path.rsplit("::", 1)[1], mf[0].rsplit("::", 1)[1], mf[1], b.line(og[0][0])))
                       if okh else "decode call fed from a cache lookup that is not a dominating `Some` match on the id argument (key %s)" % canon(key)[:60], site=b.line(blk))
                continue
            if decoder_of(b.path) == d:
                continue  # parse -> parse_be delegation inside the decoder itself
            n += 1
            idarg = peel(an.op(b, t["args"][-1]))
            guards = guards_by_call(an, b, set(CONTAINS_KEY))
            ok = False
            why = "no contains_key guard dominates this decoder call"
            for (cb, cexpr, sw, tt, ff) in guards:
                recv = peel(cexpr[3][0])
                key = peel(cexpr[3][1])
                if not (recv[0] == "field" and (recv[3], recv[2]) == DECODERS[d]):
                    continue
                if not b.edge_dominates((sw, tt), blk):
                    why = "contains_key on %s.%s at %s does not dominate the call" % (recv[3].rsplit("::", 1)[1], recv[2], b.line(cb))
                    continue
                if canon(key) != canon(idarg):
                    why = "guard key %s differs from the id handed to the decoder %s" % (canon(key)[:80], canon(idarg)[:80])
                    continue
                # decoder's own lookups
                rd = reads_by_decoder.get(d, [])
                if not rd:
                    why = "decoder %s performs no get() on a cache map (unrecognised shape)" % d
                    continue
                bad = [(a, f) for (a, f, k) in rd if (a, f) != DECODERS[d]]
                badk = [canon(k)[:60] for (a, f, k) in rd if not (k[0] == "arg" and k[1] == b_arg_index_of_id(prog, d))]
                if bad:
                    why = "decoder reads %s, guard checked %s" % (bad, DECODERS[d])
                    continue
                if badk:
                    why = "decoder looks up key %s, not its id parameter" % badk
                    continue
                ok = True
                why = "guarded by contains_key(&%s.%s, &id) at %s; decoder reads the same map with its id parameter (%d get site(s))" % (recv[3].rsplit("::", 1)[1], recv[2], b.line(cb), len(rd))
                guard_bodies.setdefault(b.path, b)
            guarded_decoders.setdefault(d, []).append(ok)
            ctx.ob("R7.1", b.path, "guarded:%s" % d, ok, why, site=b.line(blk))
    ctx.floor("R7.1", "crate", "decoder call sites", n, 4)
    # R7.8: a Data / OptionsData body is never made up: what the dispatch wraps is what a (guarded) decoder returned
    ctx.rule("R7.8", "every FlowSetBody::Data / ::OptionsData value built on the parse path wraps the value returned by the decoder of that kind (whose calls R7.1 shows guarded): no path - an empty body, a short cut before the lookup - reports data records without the template having been found")
    n8 = 0
    for b in list(bodies.values()):
        if b.derived or "parse_le" in b.path:
            continue
        for (blk, i, st) in block_aggs(b):
            rv = st["rv"]
            if not (rv["adt"].endswith("::FlowSetBody") and rv.get("variant") in ("Data", "OptionsData")):
                continue
            want = rv["adt"].rsplit("::", 1)[0] + "::" + rv["variant"]
            n8 += 1
            hb, e8r = an.lift(b, an.op(b, rv["ops"][0]))
            e8 = an.expand(e8r)
            made = [c8 for c8 in find(e8r, lambda n: n[0] == "call" and n[2] is not None and n[2].local and (decoder_of(n[2].path) == want or (want, n[2].path) in handed_callees))] + [c8 for c8 in find(e8, lambda n: n[0] == "call" and n[2] is not None and n[2].local and (decoder_of(n[2].path) == want or (want, n[2].path) in handed_callees))]
            ctx.ob("R7.8", b.path, "wraps-decoder-result:%s" % rv["variant"], bool(made),
                   "FlowSetBody::%s(%s) %s" % (rv["variant"], canon(peel(e8))[:100], "is the result of the decoder" if made else "is not the value returned by %s::parse: a %s body is reported without the guarded decode" % (want.rsplit("::", 1)[1], rv["variant"])),
                   site=site(st["span"]) if st.get("span") else b.line(blk))
    ctx.floor("R7.8", "crate", "Data/OptionsData bodies built on the parse path", n8, 4)
    for d in DECODERS:
        ctx.ob("R7.1", d, "decoder-has-guarded-callers", bool(guarded_decoders.get(d)) and all(guarded_decoders[d]),
               "%d call site(s), all guarded" % len(guarded_decoders.get(d, [])) if guarded_decoders.get(d) else "no call site found")

    # R7.2
    write_blocks = {}
    for w in ca.writes:
        write_blocks.setdefault(w["body"].path, set()).add(w["block"])
    for path, b in sorted(guard_bodies.items()):
        guards = [g for g in guards_by_call(an, b, set(CONTAINS_KEY))] + [(x[0], x[1], x[2], x[3], x[4]) for x in option_guards(an, b)]
        true_edges = set((sw, tt) for (cb, ce, sw, tt, ff) in guards)
        # region: from every guard's false target, never taking a guard's true edge
        # (path-sensitive: enum values built on the way — e.g. the `None` a guard helper returns when no test
        # succeeded — decide the switches that follow)
        region = set()
        for (cb, ce, sw, tt, ff) in guards:
            region |= b.reachable_cp(ff, without_edge=frozenset(true_edges))
        # exclude the guard evaluation blocks themselves
        dec_calls = [blk for blk, t, c in b.calls() if blk in region and c is not None and c.local and decoder_of(c.path)]
        wr = sorted(region & write_blocks.get(path, set()))
        oks = [s for (blk, i, s) in block_aggs(b, region) if s["rv"]["adt"].endswith("result::Result") and s["rv"]["variant"] == "Ok"]
        errs = [s for (blk, i, s) in block_aggs(b, region) if s["rv"]["adt"].endswith("result::Result") and s["rv"]["variant"] == "Err"]
        # Err built by a private helper (`return Self::verify_failure(i)`)
        for blk, t, c in b.calls():
            if blk in region and c is not None and c.local and t["dest"]["l"] == 0:
                ev = peel(an.expand(an.slicer(b).call_expr(blk, t)))
                if ev[0] == "agg" and ev[2] == "Err":
                    errs.append(("helper", c.path))
        ctx.ob("R7.2", path, "fallthrough-is-Err", bool(errs) and not oks and not dec_calls and not wr,
               "fall-through region (%d blocks): Err built=%s, Ok built=%d, decoder calls=%s, cache writes=%s" % (len(region), bool(errs), len(oks), dec_calls, wr),
               site=b.line(min(region)) if region else "")
    ctx.floor("R7.2", "crate", "dispatch functions with guards", len(guard_bodies), 2)

    # R7.5
    ARM_OWNERS = ("variable_versions::v9::FlowSetBody::parse", "variable_versions::ipfix::FlowSetBody::parse")
    memo_ok = {}

    def owner_ok(path, depth=0):
        root = path.split("::{closure")[0]
        if root in ARM_OWNERS:
            return True, root
        if root in memo_ok:
            return memo_ok[root]
        memo_ok[root] = (False, "recursive")
        hb = prog.bodies.get(root)
        if hb is None or hb.j.get("pub") or depth > 3:
            memo_ok[root] = (False, "%s is %s" % (root, "public" if hb is not None and hb.j.get("pub") else "not a private helper of the template arms"))
            return memo_ok[root]
        callers = [cb.path for cb in prog.bodies.values() for _, _, c2 in cb.calls() if c2 is not None and c2.local and c2.path == root]
        if not callers:
            memo_ok[root] = (False, "%s has no caller" % root)
            return memo_ok[root]
        for cp in callers:
            ok2, why2 = owner_ok(cp, depth + 1)
            if not ok2:
                memo_ok[root] = (False, "%s is called from %s" % (root, cp))
                return memo_ok[root]
        memo_ok[root] = (True, root)
        return memo_ok[root]

    nmut = 0
    for w in ca.writes:
        nmut += 1
        okw, whyw = owner_ok(w["body"].path)
        ctx.ob("R7.5", w["body"].path, "mutation-in-template-arm:%s:%s.%s" % (w["kind"], w["adt"].rsplit("::", 1)[1], w["field"]), okw,
               "%s of %s.%s %s" % (w["kind"], w["adt"].rsplit("::", 1)[1], w["field"], "belongs to a template arm of FlowSetBody::parse" if okw else "happens outside the template arms: " + whyw),
               site=w["body"].line(w["block"]))
    ctx.floor("R7.5", "crate", "cache mutation sites", nmut, 4)
    # ... and no cache map (or the parser that holds it) is overwritten wholesale from anywhere: a snapshot / restore
    # around a failing packet changes the caches on the unknown-id path (seed r12-c07)
    for (vb, vsite, vdetail, vwhy) in ca.violations:
        ctx.ob("R7.5", vb.path, "mutation-in-template-arm:%s" % vdetail, False,
               "%s in %s: the template caches are changed by something that is not a template record (an unknown-id data flowset can trigger it or be followed by it)" % (vwhy, vb.path), site=vsite)
    # R7.3 — form-independent: every cache lookup (`get`) on the parse path sits in a decoder whose callers are all
    # guarded (R7.1), so whatever the lookup falls back to when the id is missing (unwrap_or_default(), a `None` arm,
    # unwrap_or(&default)) is unreachable
    nfb = 0
    fb_decoders = set()
    for r in ca.reads:
        if r["callee"].npath not in GET:
            continue
        rb = r["body"]
        if rb.derived or "parse_le" in rb.path:
            continue
        nfb += 1
        d = decoder_part(prog, rb.path)
        if d:
            fb_decoders.add(d)
        ok = d is not None and bool(guarded_decoders.get(d)) and all(guarded_decoders[d])
        if not ok and d is None and rb.path in guard_bodies:
            gb = guard_bodies[rb.path]
            if any(x[0] == r["block"] or (x[5] == (r["adt"], r["field"])) for x in option_guards(an, gb)):
                ok = True
                fb_decoders.update(dd for dd, v in DECODERS.items() if v == (r["adt"], r["field"]))
                ctx.ob("R7.3", rb.path, "fallback-unreachable:%s.%s" % (r["adt"].rsplit("::", 1)[1], r["field"]), True,
                       "the lookup is itself the guard: its None arm is the fall-through checked by R7.2, its Some arm hands the template to the decoder", site=rb.line(r["block"]))
                continue
        ctx.ob("R7.3", rb.path, "fallback-unreachable:%s.%s" % (r["adt"].rsplit("::", 1)[1], r["field"]), ok,
               "template lookup in %s; %s" % (d or "a non-decoder function", "all callers are guarded by contains_key on the same map and key, so the lookup always hits" if ok else "not proven to hit: a missing template would decode with a fallback"),
               site=rb.line(r["block"]))
    ctx.count("cache_lookup_sites", nfb)
    ctx.floor("R7.3", "crate", "decoders with a cache lookup", len(fb_decoders), 4)
    for d in ("variable_versions::ipfix::Data", "variable_versions::ipfix::OptionsData"):
        b = prog.body(d + "::parse_be")
        if not ctx.anchor("R7.3", d + "::parse_be", b):
            continue
        # the rejection may sit in the decoder itself or in a private helper on the way to the records parser
        # (`FieldParser::parse_cached(i, Option<&T>)`): every body on that way is looked at
        chain = [b] + [cb2 for p2, cb2 in prog.bodies.items() if p2.startswith(d + "::parse_be::{closure")]
        seen_h = set()
        for hb0 in list(chain):
            for _, _, c2 in hb0.calls():
                if c2 is not None and c2.local and c2.kind == "Item" and c2.path in prog.bodies and c2.path not in seen_h \
                        and not prog.bodies[c2.path].j.get("pub") and "nom_derive::Parse" not in c2.path:
                    seen_h.add(c2.path)
                    chain.append(prog.bodies[c2.path])
        ok = False
        why = "no `fields.is_empty()` rejection before decoding"
        for hb in chain:
            fp = [(blk, c) for blk, t, c in hb.calls() if c is not None and (c.nsyn.startswith("std::ops::Fn") or "FieldParser" in c.path)]
            guards = guards_by_call(an, hb, set(["std::vec::Vec::is_empty", "core::slice::<impl [T]>::is_empty"]))
            for (cb, ce, sw, tt, ff) in guards:
                # the decode call (closure call to / call of FieldParser::parse) must be on the false side
                dom = [blk for blk, c in fp if hb.edge_dominates((sw, ff), blk)]
                if dom:
                    ok = True
                    why = "decoding at %s dominated by !fields.is_empty() (%s)" % ([hb.line(x) for x in dom][:2], hb.line(cb))
        ctx.ob("R7.3", d + "::parse_be", "empty-template-rejected", ok, why, site=site(b.span))

    # R7.4 (role-based: wherever v9::FlowSet::parse is called on the parse path, its error must be propagated with `?`)
    nsites = 0
    for pth, bb in sorted(bodies.items()):
        for blk, t, c in bb.calls():
            if c is not None and c.local and c.path.startswith("variable_versions::v9::FlowSet::parse") and not bb.path.startswith("variable_versions::v9::FlowSet::parse"):
                nsites += 1
                uses = uses_of_local(bb, t["dest"]["l"])
                only_branch = len(uses) == 1 and uses[0][0] == "callarg" and Callee(uses[0][2][0]["func"]["fn"]).nsyn in ("std::ops::Try::branch",)
                ctx.ob("R7.4", "variable_versions::v9::FlowSet::parse", "v9-propagates-flowset-error", only_branch,
                       "called from %s: %s" % (bb.path, "result consumed only by `?`" if only_branch else "result is inspected / swallowed: %s" % [u[0] for u in uses]), site=bb.line(blk))
    ctx.floor("R7.4", "v9", "call sites of v9::FlowSet::parse", nsites, 1)
    ok, why = ipfix_sets_many0_complete(prog, an, bodies)
    ctx.ob("R7.4", "variable_versions::ipfix::IPFix", "ipfix-sets-under-many0-complete", ok, why)


def ipfix_sets_many0_complete(prog, an, bodies):
    """Some parse-reachable body applies nom many0(complete(P)) where P (closure or fn) calls ipfix::FlowSet::parse."""
    for p, b in sorted(bodies.items()):
        for blk, t, c in b.calls():
            if c is not None and c.npath == "nom::multi::many0":
                inner = peel(an.op(b, t["args"][0]))
                if inner[0] == "call" and inner[2] is not None and inner[2].npath == "nom::combinator::complete":
                    clo = peel(inner[3][0], identity=(), casts=False)
                    tgt = None
                    if clo[0] == "closure":
                        tgt = prog.body(clo[1])
                    elif clo[0] == "constfn" and clo[1].local:
                        tgt = prog.body(clo[1].path)
                    if tgt is not None and any(cc is not None and cc.local and cc.path.startswith("variable_versions::ipfix::FlowSet::parse") for _, _, cc in tgt.calls()):
                        return True, "sets parsed by many0(complete(..FlowSet::parse..)) in %s" % p
    # the same repetition written as a loop: every iteration applies FlowSet::parse to the cursor; the loop finishes
    # with Ok (keeping the sets decoded so far) when the set fails to decode, and otherwise only on empty input or
    # when nothing was consumed - nothing else (content, counters) ends it
    from . import loopexit
    target = "variable_versions::ipfix::FlowSet::parse"
    for p, b in sorted(bodies.items()):
        if b.derived or p.startswith(target) or "parse_le" in p:
            continue
        ds = [blk for blk, t, c in b.calls() if c is not None and c.local and c.path == target]
        for d in ds:
            if not any(d in comp for comp in b.sccs()):
                continue
            edges = loopexit.finishing_edges(an, b, d)
            kinds = set(k for (_, _, k, _) in edges)
            if "result-err" in kinds and kinds <= {"result-err", "empty", "zero-progress", "len-vs-len", "iter-exhausted"}:
                return True, "sets parsed by a loop around FlowSet::parse in %s that keeps the earlier sets when a set fails to decode (ways to finish: %s) - the explicit form of many0(complete(..))" % (p, sorted(kinds))
            return False, "the loop around FlowSet::parse in %s can finish under %s - not the behaviour of many0(complete(..))" % (p, sorted(kinds))
    return False, "many0(complete(..FlowSet::parse..)) not found on the parse path"


def b_arg_index_of_id(prog, d):
    """Index (MIR local) of the id parameter of decoder d::parse_be: (orig_i, parser, id) -> 3."""
    b = prog.body(d + "::parse_be")
    return b.arg_count if b else 3
