"""C13 — the common-flow view is a faithful projection of what was decoded (DESIGN §4.13)."""
import json
import os
import re

from .common import *
from ..engine import VERIF

LEVEL = "other"
EXPLANATION = (
    "Table clauses of the projection, decided from MIR: (R13.1) the V5/V7 conversions build each common "
    "field from the like-named record field, version/timestamp from the header, one flow per record in "
    "order; (R13.2) the V9/IPFIX conversions look up exactly the expected field keys; (R13.3) for every "
    "selected key, the value kind the decoder produces for that field (FieldDataType table x "
    "from_field_type arm x DataNumber width table) is one the target conversion (TryFrom<&FieldValue>) "
    "accepts — otherwise the common field is None for every input; (R13.4) the container the conversion "
    "iterates holds one map per record (map created per record, one insert per field); (R13.5) Error "
    "converts to Err and the flattening helper is iter→flat_map→collect. Run-time equality of projected "
    "values is not decided."
)
ASSUMPTIONS = ["tables/projection.json states the intended projection"]

PROJ = {
    "v9": {
        "fn": "<netflow_common::NetflowCommon as std::convert::From<&variable_versions::v9::V9>>::from",
        "enum": "variable_versions::v9_lookup::V9Field",
        "dt": "<variable_versions::data_number::FieldDataType as std::convert::From<variable_versions::v9_lookup::V9Field>>::from",
        "keys": {"src_addr": ["Ipv4SrcAddr", "Ipv6SrcAddr"], "dst_addr": ["Ipv4DstAddr", "Ipv6DstAddr"], "src_port": ["L4SrcPort"], "dst_port": ["L4DstPort"],
                 "protocol_number": ["Protocol"], "protocol_type": ["Protocol"], "first_seen": ["FirstSwitched"], "last_seen": ["LastSwitched"],
                 "src_mac": ["InSrcMac"], "dst_mac": ["InDstMac"]},
        "timestamp": "sys_up_time",
    },
    "ipfix": {
        "fn": "<netflow_common::NetflowCommon as std::convert::From<&variable_versions::ipfix::IPFix>>::from",
        "enum": "variable_versions::ipfix_lookup::IPFixField",
        "dt": "<variable_versions::data_number::FieldDataType as std::convert::From<variable_versions::ipfix_lookup::IPFixField>>::from",
        "keys": {"src_addr": ["SourceIpv4address", "SourceIpv6address"], "dst_addr": ["DestinationIpv4address", "DestinationIpv6address"],
                 "src_port": ["SourceTransportPort"], "dst_port": ["DestinationTransportPort"], "protocol_number": ["ProtocolIdentifier"],
                 "protocol_type": ["ProtocolIdentifier"], "first_seen": ["FlowStartSysUpTime"], "last_seen": ["FlowEndSysUpTime"],
                 "src_mac": ["SourceMacaddress"], "dst_mac": ["DestinationMacaddress"]},
        "timestamp": "export_time",
    },
}
FIXED = {"src_addr": "src_addr", "dst_addr": "dst_addr", "src_port": "src_port", "dst_port": "dst_port", "protocol_number": "protocol_number",
         "protocol_type": "protocol_type", "first_seen": "first", "last_seen": "last", "src_mac": None, "dst_mac": None}
NORMAL_WIDTH = {"src_port": 2, "dst_port": 2, "protocol_number": 1, "protocol_type": 1, "first_seen": 4, "last_seen": 4}
GET = ("std::collections::BTreeMap::get",)


FORBIDDEN_ADAPTORS = ("rev", "skip", "step_by", "filter", "take", "skip_while", "take_while", "zip", "chain", "cycle", "peekable_skip",
                      "reverse", "sort", "sort_by", "sort_unstable", "sort_by_key", "dedup", "swap", "rotate_left", "rotate_right", "truncate", "pop",
                      "remove", "swap_remove", "insert", "drain", "retain", "split_off", "last", "nth", "max", "min")


# combinators that map Some(v) to None depending on v (or on an unrelated option): not conversions
VALUE_DROPPING = {
    "std::option::Option::filter", "std::option::Option::take_if", "std::option::Option::xor", "std::option::Option::zip",
    "std::option::Option::and", "std::iter::Iterator::filter", "std::iter::Iterator::skip_while", "std::iter::Iterator::take_while",
    "std::iter::Iterator::skip", "std::iter::Iterator::step_by", "std::bool::then", "std::bool::then_some", "bool::then", "bool::then_some",
}


def reachable_local_bodies(prog, fn_path):
    """Crate bodies reachable in the instance graph from the function (closures and helpers included)."""
    starts = [i for i, n in enumerate(prog.nodes) if n["path"] == fn_path]
    seen = set()
    st = list(starts)
    while st:
        x = st.pop()
        if x in seen:
            continue
        seen.add(x)
        st.extend(prog.nodes[x]["callees"])
    out = {}
    for i in seen:
        nd = prog.nodes[i]
        if nd["local"] and nd["path"] in prog.bodies and not prog.bodies[nd["path"]].derived:
            out[nd["path"]] = prog.bodies[nd["path"]]
    # closures defined under those bodies (even when only passed as values)
    for p, b in prog.bodies.items():
        root = p.split("::{closure")[0]
        if root in out and p not in out:
            out[p] = b
    if fn_path in prog.bodies:
        out[fn_path] = prog.bodies[fn_path]
    return out


def order_preserving(prog, bodies, stop_at=()):
    """No reordering / filtering adaptor or vector edit is called in the given bodies."""
    bad = []
    for b in bodies.values():
        if any(b.path.startswith(s) for s in stop_at):
            continue
        for blk, t, c in b.calls():
            if c is None:
                continue
            last = c.nsyn.rsplit("::", 1)[-1]
            if (c.nsyn.startswith(("std::iter::Iterator::", "std::vec::Vec::", "core::slice::<impl [T]>::", "std::slice::<impl [T]>::", "std::iter::DoubleEndedIterator::")) and last in FORBIDDEN_ADAPTORS):
                # only the sequence of records / flowsets / common flows is ordered by the property; the fields of
                # one record may be searched in any order (`record.values().rev().find(..)`, a sorted per-record index)
                recv = " ".join([str(x) for x in (t.get("argtys") or [])[:1]] + [str(a) for a in (c.args or [])[:1]])
                if not re.search(r"FlowSet\b|(Iter(Mut)?<'?\w*,? ?|Vec<|\[)std::collections::BTreeMap<", recv):
                    continue
                bad.append("%s at %s" % (c.nsyn, b.line(blk)))
    return bad


def is_element(e):
    """Expression denoting 'the current element' of an in-order iteration: a closure/helper parameter or Some(next(iter))."""
    e = peel(e)
    if e[0] == "arg":
        return True
    if e[0] == "some":
        inner = peel(e[1])
        return inner[0] == "call" and inner[2] is not None and inner[2].nsyn == "std::iter::Iterator::next"
    if e[0] == "cycle":
        return True
    return False


RECORD_TY = re.compile(r"BTreeMap<usize, \(")
LOOKUPS = re.compile(r"(BTreeMap|HashMap)(<.*>)?::get$|<impl \[T\]>::get$|ops::Index(<.*>)?.*::index$|(BTreeMap|HashMap)(<.*>)?::(entry|get_mut|get_key_value)$|<impl \[T\]>::(first|last)$|Vec(<.*>)?::(first|last)$")


def lookups_outside_this_record(an, b, e, depth=0):
    """Lookups in operand e whose collection is not built from the current record alone: a field position or value
    taken from another record of the flowset (`fields.first()`), or from a table that outlives the record (a layout
    cached per template / flowset id), is not `this record's field`.  -> [description]"""
    bad = []

    def leaves(x, out, d=0):
        x = peel(x, identity=(), casts=False) if x[0] not in ("closure",) else x
        if d > 40:
            out.append("deep")
            return
        k = x[0]
        if k in ("const", "constfn", "sym", "uconst"):
            return
        if k == "some" and peel(x[1])[0] == "call" and peel(x[1])[2] is not None and peel(x[1])[2].nsyn == "std::iter::Iterator::next":
            return                      # the element of an in-order iteration
        if k == "cycle":
            return
        if k == "arg":
            if not (b.kind == "Closure" and 1 < x[1] <= b.arg_count and RECORD_TY.search(b.local_ty(x[1]))) and not (b.kind != "Closure" and RECORD_TY.search(b.local_ty(x[1])) and "Vec<" not in b.local_ty(x[1]).split("BTreeMap")[0]):
                out.append("arg%d: %s" % (x[1], b.local_ty(x[1])[:60]))
            return
        if k == "call":
            if x[2] is not None and LOOKUPS.search(x[2].npath) and re.search(r"::(first|last|entry)$", x[2].npath):
                out.append(x[2].npath.rsplit("::", 1)[1] + "()")
            for a in x[3]:
                leaves(a, out, d + 1)
            return
        if k == "closure":
            for c in x[2]:
                leaves(c, out, d + 1)
            return
        if k == "phi":
            for m in x[1]:
                leaves(m, out, d + 1)
            return
        if k in ("tuple", "array"):
            for m in x[1]:
                leaves(m, out, d + 1)
            return
        if k == "agg":
            for m in x[3]:
                leaves(m, out, d + 1)
            return
        if k == "mutlocal":
            leaves(x[2], out, d + 1)
            return
        if k in ("ref", "deref", "ok", "err", "some", "discr", "downcast", "field", "tfield", "cast", "unop"):
            leaves(x[1] if k not in ("cast", "unop") else x[2], out, d + 1)
            return
        if k == "binop":
            leaves(x[2], out, d + 1)
            leaves(x[3], out, d + 1)
            return
        out.append("?%s" % k)

    for n in find(e, lambda n: n[0] == "call" and n[2] is not None and LOOKUPS.search(n[2].npath) and n[3]):
        out = []
        leaves(n[3][0], out)
        if out:
            bad.append("%s on a collection that also depends on %s" % (n[2].npath.rsplit("::", 1)[1], sorted(set(out))[:3]))
    if depth < 4:
        called = set()
        # closures called directly (`let get = |k| helper(layout, record, k); get(K)`): apply them to their arguments
        for n in find(e, lambda n: n[0] == "call" and n[2] is not None and len(n[3]) == 2 and
                      (n[2].nsyn in ("std::ops::Fn::call", "std::ops::FnMut::call_mut", "std::ops::FnOnce::call_once") or "{closure#" in n[2].npath)):
            clo = peel(n[3][0], identity=(), casts=False)
            while clo[0] in ("ref", "deref"):
                clo = peel(clo[1], identity=(), casts=False)
            tup = peel(n[3][1])
            if clo[0] == "closure" and tup[0] == "tuple":
                called.add(canon(clo))
                bad += lookups_outside_this_record(an, b, an.expand(an.interp.apply(clo, list(tup[1]))), depth + 1)
        for c in find(e, lambda n: n[0] == "closure"):
            if canon(c) in called:
                continue
            sub = an.expand(an.interp.apply(c, [("sym", "x")]))
            bad += lookups_outside_this_record(an, b, sub, depth + 1)
    return bad


def keys_in(an, prog, e, depth=0, tmap=None, enum=None):
    """Variant names used as keys of BTreeMap::get inside expression e (following closures); with `enum`, also the
    variants of that field-name enum handed as constants to whatever does the lookup (`find_field(rec, Enum::K)`,
    `rec.iter().find(|(f, _)| *f == Enum::K)`): which key constants reach the operand is what the rule compares."""
    out = []
    if tmap:
        from ..slicer import subst_types
        e = an.simp(subst_types(e, tmap))
    if enum:
        for n in find(e, lambda n: n[0] == "agg" and n[1] == enum and not n[3]):
            out.append(n[2])
    for n in find(e, lambda n: n[0] == "call" and n[2] is not None and n[2].npath in GET):
        k = peel(an.simp(n[3][1]))
        if k[0] == "agg":
            out.append(k[2])
        else:
            out.append("?" + canon(k)[:60])
    called = set()
    if depth < 3:
        # a local closure called directly with the keys as arguments: `let addr = |v4, v6| ..; addr(K4, K6)`
        for n in find(e, lambda n: n[0] == "call" and n[2] is not None and n[2].nsyn in ("std::ops::Fn::call", "std::ops::FnMut::call_mut", "std::ops::FnOnce::call_once") and len(n[3]) == 2):
            clo = peel(n[3][0], identity=(), casts=False)
            while clo[0] in ("ref", "deref"):
                clo = peel(clo[1], identity=(), casts=False)
            tup = peel(n[3][1])
            if clo[0] == "closure" and tup[0] == "tuple":
                called.add(id(clo))
                called.add(canon(clo))
                sub = an.interp.apply(clo, list(tup[1]))
                out = [k for k in out if not k.startswith("?")] if False else out
                out += keys_in(an, prog, sub, depth + 1, tmap, enum)
        for c in find(e, lambda n: n[0] == "closure"):
            if canon(c) in called:
                continue
            sub = an.interp.apply(c, [("sym", "x")])
            out += keys_in(an, prog, sub, depth + 1, tmap, enum)
    if enum and any(not k.startswith("?") for k in out):
        out = [k for k in out if not k.startswith("?")] if all(k.startswith("?arg") or k.startswith("?('sym'") or not k.startswith("?") for k in out) else out
    return out


def generic_target(prog, c, depth=0, cargs=None):
    """Call of a crate helper generic in the target type: the helper converts with `T::try_from(..)` /
    `..try_into::<T>()` where T is one of its type parameters — T is then the call's generic argument."""
    hb = prog.bodies.get(c.path)
    if hb is None or not c.local:
        return None
    gens = prog.facts["bodies"][c.path].get("generics") or []
    cargs = cargs if cargs is not None else list(c.args or [])
    all_calls = list(hb.calls())
    for cp, cbody in prog.bodies.items():
        if cp.startswith(c.path + "::{closure"):
            all_calls += list(cbody.calls())       # `.and_then(|v| T::try_from(v).ok())` inside the helper
    for blk, t, cc in all_calls:
        if cc is None:
            continue
        if cc.local and cc.kind == "Item" and depth < 3 and cc.path != c.path and cc.path in prog.bodies:
            # delegation to another generic helper (`get_or` -> `get`): carry the instantiation along
            sub_args = [cargs[gens.index(a)] if a in gens and gens.index(a) < len(cargs) else a for a in (cc.args or [])]
            r = generic_target(prog, cc, depth + 1, sub_args)
            if r:
                return r
        tp = None
        if cc.nsyn == "std::convert::TryFrom::try_from" and cc.syn_args:
            tp = cc.syn_args[0]
        elif cc.nsyn == "std::convert::TryInto::try_into" and len(cc.syn_args) > 1:
            tp = cc.syn_args[1]
        if tp is None:
            continue
        if tp in gens and gens.index(tp) < len(cargs):
            return cargs[gens.index(tp)]
        return tp
    return None


def target_of(an, prog, e):
    """The T of the `try_into::<T>` performed on the looked-up value."""
    for n in find(e, lambda n: n[0] == "call" and n[2] is not None and n[2].local and n[2].kind == "Item"):
        t = generic_target(prog, n[2])
        if t:
            return t
    # the conversion written in line (`match map.get(&K) { Some(v) => v.try_into().ok(), None => None }`)
    for n in find(e, lambda n: n[0] == "call" and n[2] is not None and n[2].nsyn in ("std::convert::TryInto::try_into", "std::convert::TryFrom::try_from")):
        sa = n[2].syn_args or []
        tt = sa[1] if n[2].nsyn.endswith("try_into") and len(sa) > 1 else (sa[0] if n[2].nsyn.endswith("try_from") and sa else None)
        if tt and not re.match(r"^[A-Z]\w*$", tt):      # a bare type parameter of an inlined generic helper says nothing
            return tt
    for c in find(e, lambda n: n[0] == "closure"):
        b = prog.body(c[1])
        if b is None:
            continue
        for blk, t, cc in b.calls():
            if cc is not None and cc.nsyn in ("std::convert::TryInto::try_into",):
                return cc.syn_args[1] if len(cc.syn_args) > 1 else None
        sub = target_of(an, prog, an.interp.apply(c, [("sym", "x")]))
        if sub:
            return sub
    return None


def accepted_kinds(an, prog, T):
    """(set of FieldValue variants accepted, set of DataNumber variants accepted) by <T as TryFrom<&FieldValue>> /
    <T as TryFrom<&DataNumber>>. Decided per variant, whatever the shape of the conversion: the discriminant of the
    argument is set to the variant, private helpers are inlined at CFG level, and the conversion accepts the variant
    iff a block that builds `Ok(..)` (or delegates to another conversion) can then execute."""
    CONV = ("std::convert::TryFrom::try_from", "std::convert::TryInto::try_into", "std::convert::From::from", "std::convert::Into::into")

    def accepted(body, adt_path):
        body = classifier_inlined(prog, body.path) or body
        adt = prog.adts[adt_path]
        scr = []
        for l in range(1, len(body.locals)):
            try:
                x = peel(an.local(body, l), widen=True)
            except RecursionError:
                continue
            if x[0] == "discr" and peel(x[1]) == ("arg", 1):
                scr.append(l)
        out = set()
        if not scr:
            return None
        for v in adt["variants"]:
            dv = v.get("discr")
            val = int(dv) if dv is not None and str(dv).lstrip("-").isdigit() else v["vi"]
            live = body.reachable_cp(0, assume={l: val for l in scr})
            oks = [1 for (bb, i, s) in block_aggs(body, live) if s["rv"]["variant"] == "Ok" and s["rv"]["adt"].endswith("result::Result")]
            dele = [1 for (cb, tt, cc) in body.calls() if cb in live and cc is not None and cc.nsyn in CONV
                    and not (cc.nsyn.endswith("From::from") and "Error" in (cc.id or ""))]
            if oks or dele:
                out.add(v["name"])
        return out

    b = prog.impl_fn(T, "TryFrom<&variable_versions::data_number::FieldValue>", "try_from")
    if b is None:
        return None, None
    fv = accepted(b, "variable_versions::data_number::FieldValue")
    if fv is None:
        return None, None
    dn = set()
    b2 = prog.impl_fn(T, "TryFrom<&variable_versions::data_number::DataNumber>", "try_from")
    if b2 is not None:
        dn = accepted(b2, "variable_versions::data_number::DataNumber") or set()
    return fv, dn


def accepted_by_helper(an, prog, e):
    """A crate-local projection helper in place of a TryFrom conversion (`fn v9_protocol(&FieldValue) -> Option<..>`):
    -> (helper path, FieldValue variants for which it can build Some / Ok, DataNumber variants likewise) decided per
    variant by setting the discriminant(s) and asking whether a block that builds `Some(..)` / `Ok(..)` can execute."""
    FV = "variable_versions::data_number::FieldValue"
    DN = "variable_versions::data_number::DataNumber"
    cands = [n[2] for n in find(e, lambda n: n[0] == "call" and n[2] is not None and n[2].local and n[2].kind == "Item")] + \
        [n[1] for n in find(e, lambda n: n[0] == "constfn" and getattr(n[1], "local", False))]      # `.and_then(v9_protocol)`
    for cal in cands:
        hb = prog.bodies.get(cal.path)
        if hb is None or hb.derived or hb.arg_count != 1 or "FieldValue" not in hb.local_ty(1) or not re.match(r"^std::(option::Option|result::Result)<", hb.local_ty(0)):
            continue
        body = classifier_inlined(prog, hb.path) or hb
        outer, inner = [], []
        for l in range(1, len(body.locals)):
            try:
                x = peel(an.local(body, l), widen=True)
            except RecursionError:
                continue
            if x[0] != "discr":
                continue
            base = peel(x[1])
            while base[0] in ("ref", "deref"):
                base = peel(base[1])
            if base == ("arg", 1):
                outer.append(l)
            elif find(x[1], lambda m: m[0] == "downcast" and m[2] == "DataNumber"):
                inner.append(l)
        if not outer:
            continue

        def builds(live):
            return any(s0["rv"]["variant"] in ("Some", "Ok") for (bb, i0, s0) in block_aggs(body, live)) or \
                any(cb in live and cc is not None and cc.nsyn in ("std::result::Result::ok", "std::convert::TryFrom::try_from", "std::convert::TryInto::try_into", "std::option::Option::map")
                    for (cb, tt, cc) in body.calls())

        def val(v):
            dv = v.get("discr")
            return int(dv) if dv is not None and str(dv).lstrip("-").isdigit() else v["vi"]
        fv, dn = set(), set()
        for v in prog.adts[FV]["variants"]:
            asg = {l: val(v) for l in outer}
            if v["name"] != "DataNumber":
                if builds(body.reachable_cp(0, assume=asg)):
                    fv.add(v["name"])
                continue
            for w in prog.adts[DN]["variants"]:
                a2 = dict(asg)
                a2.update({l: val(w) for l in inner})
                if builds(body.reachable_cp(0, assume=a2)):
                    dn.add(w["name"])
                    fv.add("DataNumber")
        return hb.path, fv, dn
    return None, None, None


def produced_kinds(an, prog):
    """FieldDataType variant -> FieldValue variant built by from_field_type in that arm; and DataNumber width table."""
    b = prog.body("variable_versions::data_number::FieldValue::from_field_type")
    out = {}
    if b is None:
        return out, {}
    adt = prog.adts["variable_versions::data_number::FieldDataType"]
    for blk in sorted(b.live_blocks()):
        t = b.term(blk)
        if t["k"] == "switch" and peel(an.op(b, t["op"]))[0] == "discr" and find(an.op(b, t["op"]), lambda n: n == ("arg", 2)):
            for v, tb in t["targets"]:
                name = [x["name"] for x in adt["variants"] if x["vi"] == v]
                if not name:
                    continue
                kinds = set()
                for (bb, i, s) in block_aggs(b):
                    if s["rv"]["adt"].endswith("::FieldValue") and b.edge_dominates((blk, tb), bb):
                        kinds.add(s["rv"]["variant"])
                if not kinds:
                    # value built by a function value applied in this arm: a closure (`map(be_u32, |a| FieldValue::X(..))`)
                    # or the variant constructor itself (`map(f64::parse, FieldValue::Float64)`)
                    arm_blocks = [x for x in sorted(b.live_blocks()) if b.edge_dominates((blk, tb), x)]
                    for x in arm_blocks:
                        for st in b.blocks[x]["stmts"]:
                            if st["k"] == "assign" and st["rv"]["k"] == "aggregate" and st["rv"].get("agg") == "closure":
                                cbody = prog.bodies.get(st["rv"]["closure"])
                                if cbody is not None:
                                    for (bb, i, s) in block_aggs(cbody):
                                        if s["rv"]["adt"].endswith("::FieldValue"):
                                            kinds.add(s["rv"]["variant"])
                        tt0 = b.blocks[x]["term"]
                        if tt0["k"] == "call":
                            for a in tt0["args"]:
                                if a.get("k") == "const" and "fn" in a:
                                    m = re.match(r"^variable_versions::data_number::FieldValue::(\w+)$", a["fn"]["path"])
                                    if m and m.group(1)[0].isupper():
                                        kinds.add(m.group(1))
                if not kinds:
                    # value built by a crate helper called from this arm (one level)
                    # (helpers of helpers too, up to three levels, with their closures)
                    work = [(c.path, 0) for cb2, tt, c in b.calls() if c is not None and c.local and c.kind == "Item" and b.edge_dominates((blk, tb), cb2)]
                    seenp = set()
                    while work:
                        hpth, dep = work.pop()
                        if hpth in seenp:
                            continue
                        seenp.add(hpth)
                        for hp, hb in prog.bodies.items():
                            if hp == hpth or hp.startswith(hpth + "::{closure"):
                                for (bb, i, s) in block_aggs(hb):
                                    if s["rv"]["adt"].endswith("::FieldValue"):
                                        kinds.add(s["rv"]["variant"])
                                if dep < 2:
                                    for _, _, c3 in hb.calls():
                                        if c3 is not None and c3.local and c3.kind == "Item" and "nom_derive::Parse" not in c3.path and not c3.path.endswith("::from_field_type"):
                                            work.append((c3.path, dep + 1))
                out[name[0]] = kinds
            break
    # DataNumber::parse width table: (len, signed) -> variant
    wt = {}
    pb = prog.body("variable_versions::data_number::DataNumber::parse")
    if pb is not None:
        from .c04 import datanumber_table
        wt = datanumber_table(an, prog)
    return out, wt


def later_field_writes(an, b, agg_stmt_site, name):
    """Values assigned to `<local>.<name>` after the struct literal that initialises <local> (`flow.x = Some(..)`)."""
    blk0, s0 = agg_stmt_site
    pl = s0.get("place") or {}
    if pl.get("p"):
        return []
    out = []
    for blk, i, st in b.stmts():
        if st["k"] != "assign" or st is s0:
            continue
        p2 = st["place"]
        pr = p2.get("p") or []
        if p2["l"] == pl.get("l") and len(pr) == 1 and pr[0]["k"] == "field" and pr[0].get("name") == name:
            raw = an.slicer(b).rvalue(st["rv"], blk)
            out.append((an.expand(raw), an.simp(raw)))
    return out


def struct_fields(an, prog, e, adt_suffix, depth=0):
    """Field name -> value expression of a struct value built by a literal, by `Default::default()`, or by a chain of
    private builder methods (`fn with_x(mut self, ..) -> Self { self.f = ..; self }`) on top of one of those."""
    e = peel(e)
    if depth > 8:
        return None
    if e[0] == "agg" and e[1].endswith(adt_suffix):
        return dict(zip(e[4], e[3]))
    if e[0] != "call" or e[2] is None or not e[2].local:
        return None
    c = e[2]
    hb = prog.bodies.get(c.path)
    if hb is None:
        return None
    if c.nsyn == "std::default::Default::default":
        out = {}
        for (blk, i, st) in block_aggs(hb):
            if st["rv"]["adt"].endswith(adt_suffix):
                for nm, o in zip(st["rv"]["fields"], st["rv"]["ops"]):
                    out[nm] = default_field(prog, an, ("field", e, nm, st["rv"]["adt"]))
                return out
        return None
    if not hb.local_ty(0).endswith(adt_suffix) or not e[3] or hb.arg_count < 1 or not hb.local_ty(1).endswith(adt_suffix):
        return None
    # builder: returns its first argument with some fields overwritten
    r = peel(an.local(hb, 0), mutlocal=False)
    base = r[2] if r[0] == "mutlocal" else r
    if peel(base) != ("arg", 1):
        return None
    fields = struct_fields(an, prog, e[3][0], adt_suffix, depth + 1)
    if fields is None:
        return None
    fields = dict(fields)
    mapping = {i + 1: a for i, a in enumerate(e[3])}
    for blk, i, st in hb.stmts():
        if st["k"] == "assign" and st["place"]["l"] == 1:
            pr = st["place"].get("p") or []
            if len(pr) == 1 and pr[0]["k"] == "field" and pr[0].get("name"):
                v = an.expand(an.slicer(hb).rvalue(st["rv"], blk))
                fields[pr[0]["name"]] = an.simp(an.interp.subst(v, mapping))
    return fields


def top_fields(an, prog, fnb, rb):
    """(version expr, timestamp expr) of the NetflowCommon a conversion returns — read from the conversion's return
    value with private constructors inlined (`NetflowCommon::new(v, t, flows)`), else from the one aggregate built
    below it."""
    ret = peel(an.localx(fnb, 0))
    if ret[0] == "agg" and ret[1].endswith("NetflowCommon") and "version" in ret[4] and "timestamp" in ret[4]:
        return peel(ret[3][ret[4].index("version")]), peel(ret[3][ret[4].index("timestamp")])
    top = [(bb, x) for bb in rb.values() for x in block_aggs(bb) if x[2]["rv"]["adt"].endswith("NetflowCommon")]
    if top:
        bb, x = top[0]
        tf = dict(zip(x[2]["rv"]["fields"], x[2]["rv"]["ops"]))
        return peel(an.opx(bb, tf["version"])), peel(an.opx(bb, tf["timestamp"]))
    return None


def default_field(prog, an, e):
    """`..Default::default()` struct update: the field of a (derived) Default value of a crate struct; Option fields
    default to None."""
    if e[0] == "field" and peel(e[1])[0] == "call" and peel(e[1])[2] is not None:
        c = peel(e[1])[2]
        if c.nsyn == "std::default::Default::default" and c.local:
            db = prog.bodies.get(c.path)
            if db is not None:
                for (blk, i, s) in block_aggs(db):
                    if e[2] in s["rv"].get("fields", []):
                        o = s["rv"]["ops"][s["rv"]["fields"].index(e[2])]
                        v = peel(an.opx(db, o))
                        if v[0] == "call" and v[2] is not None and v[2].nsyn == "std::default::Default::default" and any(str(a).startswith("std::option::Option<") for a in (v[2].syn_args or [])):
                            return ("agg", "std::option::Option", "None", [], [])
                        return v
    return e


def run(ctx, env):
    prog = env.prog("default")
    an = An(prog)
    ctx.rule("R13.1", "V5/V7: each NetflowCommonFlowSet operand slices to the like-named record field (MACs None); version/timestamp from header.version/header.sys_up_time; flows = flowsets.iter().map(f).collect()")
    ctx.rule("R13.2", "V9/IPFIX: each operand looks up exactly the expected field key(s) in the per-record map; version/timestamp from the header")
    ctx.rule("R13.3", "producer/consumer kind agreement: the FieldValue kind decoded for each selected key is accepted by the target conversion (else the common field is None for every input)")
    ctx.rule("R13.4", "one common flow per record: the per-record map is created once per record and receives one insert per template field")
    ctx.rule("R13.6", "V9/IPFIX: common flows are made from the records of data flowsets only: the per-record map every lookup reads is an element of `fields` of the Data body (accessor helpers, public or private, inlined) - options data, whose records are not flows, is never walked")
    ctx.rule("R13.7", "V9/IPFIX: between the per-record lookup and the common field there are only conversions: no combinator that drops a present value depending on its contents (Option::filter / take_if / xor / zip / and, Iterator::filter / skip / take_while, bool::then)")
    ctx.rule("R13.5", "NetflowPacket::Error converts to Err; the flattening helper is parse_bytes → iter → flat_map(as_netflow_common().unwrap_or_default().flowsets) → collect")
    # R13.1
    for ver, mod in ((5, "static_versions::v5::V5"), (7, "static_versions::v7::V7")):
        fnb = prog.impl_fn("netflow_common::NetflowCommon", "From<&%s>" % mod, "from")
        fn = fnb.path if fnb else "From<&%s> for NetflowCommon" % mod
        if not ctx.anchor("R13.1", fn, fnb):
            continue
        rb = reachable_local_bodies(prog, fn)
        aggs = []
        for p, cb in rb.items():
            for (blk, i, s) in block_aggs(cb):
                if s["rv"]["adt"].endswith("NetflowCommonFlowSet"):
                    aggs.append((cb, s))
        built = None
        if len(aggs) != 1:
            # no struct literal: the flow may be assembled by builder methods and pushed (`flows.push(F::default().with_..)`)
            pushes = [(pb, blk, t) for pb in rb.values() for blk, t, c2 in pb.calls()
                      if c2 is not None and c2.npath == "std::vec::Vec::push" and len(t.get("argtys") or []) == 2 and t["argtys"][1].endswith("NetflowCommonFlowSet")]
            if len(pushes) == 1:
                pb, blk, t = pushes[0]
                fl = struct_fields(an, prog, an.op(pb, t["args"][1]), "NetflowCommonFlowSet")
                if fl is not None:
                    built = (pb, {"span": pb.blocks[blk]["tspan"]}, fl)
            if built is None:
                ctx.ob("R13.1", fn, "single-flow-constructor", False, "found %d NetflowCommonFlowSet constructions below the conversion" % len(aggs))
                continue
        if built is None:
            cb, s = aggs[0]
            items = [(nm, peel(an.opx(cb, o))) for nm, o in zip(s["rv"]["fields"], s["rv"]["ops"])]
        else:
            cb, s, fl = built
            items = [(nm, peel(an.expand(v))) for nm, v in fl.items()]
        for nm, e0 in items:
            e = default_field(prog, an, e0)
            want = FIXED.get(nm)
            if e[0] == "agg" and e[2] == "Some" and want is not None:
                # Some(IpAddr::V4(x)) is what Some(x.into()) builds
                i0 = peel(e[3][0], widen=True)
                if i0[0] == "agg" and i0[1] == "std::net::IpAddr" and len(i0[3]) == 1:
                    e = ("agg", e[1], e[2], [i0[3][0]])
            if want is None:
                ok = e[0] == "agg" and e[2] == "None"
                ctx.ob("R13.1", fn, "field:%s" % nm, ok, "%s = %s (expected None)" % (nm, canon(e)[:100]), site=site(s["span"]))
                continue
            ok = False
            if e[0] == "agg" and e[2] == "Some":
                inner = peel(e[3][0], widen=True)
                ok = inner[0] == "field" and inner[2] == want and is_element(inner[1])
            ctx.ob("R13.1", fn, "field:%s" % nm, ok, "%s = %s (expected Some(record.%s))" % (nm, canon(e)[:140], want), site=site(s["span"]))
        top = top_fields(an, prog, fnb, rb)
        if top:
            v, ts = top
            ctx.ob("R13.1", fn, "version", v[0] == "field" and v[2] == "version" and peel(v[1])[0] == "field" and peel(v[1])[2] == "header", canon(v)[:100])
            ctx.ob("R13.1", fn, "timestamp", ts[0] == "field" and ts[2] == "sys_up_time" and peel(ts[1])[2] == "header", canon(ts)[:100])
            # one flow per record, in order: the only collection iterated is value.flowsets, by an order-preserving traversal
            iters = []
            for b2 in rb.values():
                for blk, t, c in b2.calls():
                    if c is not None and (c.npath in ("core::slice::<impl [T]>::iter", "std::slice::<impl [T]>::iter") or c.nsyn == "std::iter::IntoIterator::into_iter"):
                        src = peel(an.op(b2, t["args"][0]))
                        iters.append(src)
            okit = len(iters) == 1 and iters[0][0] == "field" and iters[0][2] == "flowsets"
            bad = order_preserving(prog, rb)
            ctx.ob("R13.1", fn, "flows-in-record-order", okit and not bad,
                   "iterates %s; reordering/filtering calls: %s" % ([canon(x)[:60] for x in iters], bad))
        else:
            ctx.ob("R13.1", fn, "common-constructor", False, "no NetflowCommon aggregate")
    # R13.2 / R13.3
    prod, wt = produced_kinds(an, prog)
    for proto, P in sorted(PROJ.items()):
        b0 = prog.body(P["fn"])
        if not ctx.anchor("R13.2", P["fn"], b0):
            continue
        rb = reachable_local_bodies(prog, P["fn"])
        aggs = [(bb, blk, i, s) for bb in rb.values() for (blk, i, s) in block_aggs(bb) if s["rv"]["adt"].endswith("NetflowCommonFlowSet")]
        if len(aggs) != 1:
            ctx.ob("R13.2", P["fn"], "single-flow-constructor", False, "found %d NetflowCommonFlowSet constructions below the conversion" % len(aggs))
            continue
        b, blk, i, s = aggs[0]
        enum = prog.adts.get(P["enum"])
        discr = {v["name"]: int(v["discr"]) for v in enum["variants"]} if enum else {}
        dtb = prog.impl_fn("variable_versions::data_number::FieldDataType", "From<%s>" % P["enum"], "from")
        dtt = switch_table(an, dtb, lambda e: True) if dtb is not None else None
        # the flow may be built inside a helper generic over the field-name enum: instantiate its type parameters
        # with the arguments of the (single) call that reaches it from this conversion
        tmap = {}
        gens = prog.facts["bodies"].get(b.path.split("::{closure")[0], {}).get("generics") or []
        if gens:
            insts = set()
            for cb in rb.values():
                for _, _, cc in cb.calls():
                    if cc is not None and cc.local and cc.path == b.path.split("::{closure")[0] and len(cc.args or []) == len(gens):
                        insts.add(tuple(cc.args))
            # ... or the helper handed over as a function value: `.map(project_record::<V9Field>)`
            for cb in rb.values():
                ops = [a for _, t0, _ in cb.calls() for a in t0["args"]] + [st["rv"]["op"] for _, _, st in cb.stmts() if st["k"] == "assign" and st["rv"]["k"] in ("use", "cast") and isinstance(st["rv"].get("op"), dict)]
                for a in ops:
                    fnj = a.get("fn") if a.get("k") == "const" else None
                    if fnj and fnj.get("path") == b.path.split("::{closure")[0] and len(fnj.get("args") or []) == len(gens):
                        insts.add(tuple(fnj["args"]))
            if len(insts) == 1:
                tmap = dict(zip(gens, insts.pop()))
        # ... and its value parameters (`to_common(&self, names: &FieldNames<F>)` called with `&V9_FIELD_NAMES`)
        amap = {}
        broot = b.path.split("::{closure")[0]
        if broot != P["fn"] and b.kind != "Closure":
            sites = [(cb, t0) for cb in rb.values() for _, t0, cc in cb.calls()
                     if cc is not None and cc.local and cc.path == broot and cb.path.split("::{closure")[0] != broot]
            if len(sites) == 1:
                cb0, t0 = sites[0]
                amap = {i + 1: an.expand(an.op(cb0, a)) for i, a in enumerate(t0["args"])}
        for nm, o in zip(s["rv"]["fields"], s["rv"]["ops"]):
            e = an.opx(b, o)
            if amap:
                e = an.expand(an.interp.subst(e, amap))
            late = later_field_writes(an, b, (blk, s), nm)
            if late:
                e = ("phi", [e] + [x[0] for x in late])
            if tmap:
                from ..slicer import subst_types
                e = an.simp(subst_types(e, tmap))
            ks = keys_in(an, prog, e, 0, tmap, P["enum"])
            want = P["keys"][nm]
            if want:
                # R13.7: the looked-up value reaches the slot through conversions only - a combinator that can turn a
                # present, convertible value into None depending on the value itself makes the common field disagree
                # with the decoded record for those values (seed r12-c13: `.filter(|a| !a.is_unspecified())`)
                seen = [(n[2].nsyn if n[2] is not None else "?") for n in find(e, lambda n: n[0] == "call")]
                dropping = sorted(set(c for c in seen if c in VALUE_DROPPING))
                ctx.ob("R13.7", P["fn"], "no-value-filter:%s" % nm, bool(seen) and not dropping,
                       ("%s passes through %s, which drops the value for some field contents" % (nm, ", ".join(dropping))) if dropping
                       else "%d calls on the path from the lookup to %s, none of them a value-dependent filter" % (len(seen), nm), site=site(s["span"]))
            # which of several keys is preferred when a record carries more than one is not part of the property
            ctx.ob("R13.2", P["fn"], "keys:%s" % nm, sorted(set(ks)) == sorted(set(want)), "%s looks up %s, expected %s" % (nm, ks, want), site=site(s["span"]))
            if want:
                foreign = lookups_outside_this_record(an, b, e)
                ctx.ob("R13.2", P["fn"], "from-this-record:%s" % nm, not foreign,
                       ("%s is looked up through %s" % (nm, "; ".join(sorted(set(foreign))[:2]))) if foreign else "%s is looked up in collections built from the current record only" % nm, site=site(s["span"]))
            T = target_of(an, prog, an.op(b, o)) or target_of(an, prog, e)
            for le in late:
                T = T or target_of(an, prog, le[1]) or target_of(an, prog, le[0])
            fv, dn = accepted_kinds(an, prog, T) if T else (None, None)
            if fv is None:
                hp, fv, dn = accepted_by_helper(an, prog, an.op(b, o))
                if hp is None:
                    hp, fv, dn = accepted_by_helper(an, prog, e)
                if fv is not None:
                    T = "helper %s" % hp.rsplit("::", 1)[-1]
            if fv is None:
                ctx.ob("R13.3", P["fn"], "target:%s" % nm, False, "cannot determine the conversion target of %s (T=%s)" % (nm, T))
                continue
            for key in want:
                d = discr.get(key)
                arm = None
                if dtt:
                    arm = dtt[1].get(d, dtt[2])
                if (arm is None or arm[0] != "variant") and dtb is not None and d is not None:
                    arm = result_for_value(an, dtb, d)      # ranges / or-patterns / guards instead of a plain table
                dt = arm[2] if arm and arm[0] == "variant" else None
                kinds = prod.get(dt, set())
                ok = bool(kinds) and kinds <= fv
                detail = "key %s -> FieldDataType::%s -> FieldValue::%s; %s accepts %s" % (key, dt, sorted(kinds), T, sorted(fv))
                if ok and kinds == {"DataNumber"}:
                    w = NORMAL_WIDTH.get(nm)
                    unsigned = dt == "UnsignedDataNumber"
                    pv = wt.get((w, not unsigned))
                    ok = pv in dn
                    detail += "; width %s -> DataNumber::%s; %s accepts DataNumber::%s" % (w, pv, T, sorted(dn))
                ctx.ob("R13.3", P["fn"], "kind:%s<-%s" % (nm, key), ok, detail, site=site(s["span"]))
        # R13.6: where the records come from
        srcs = set()
        an.interp.allow_pub = True
        try:
            for nm, o in zip(s["rv"]["fields"], s["rv"]["ops"]):
                if not P["keys"][nm]:
                    continue
                e6 = an.slicer(b).operand(o)
                if amap:
                    e6 = an.interp.subst(e6, amap)
                e6 = an.expand(e6)
                _, e6 = an.lift(b, e6)
                e6 = an.expand(e6)
                mod = P["enum"].rsplit("::", 1)[0].replace("_lookup", "")
                for n6 in find(e6, lambda n: n[0] == "field" and len(n) > 3 and str(n[3]).startswith(mod + "::") and str(n[3]).rsplit("::", 1)[1] in ("Data", "OptionsData", "Templates", "OptionsTemplates", "Template", "OptionsTemplate")):
                    srcs.add((str(n6[3]).rsplit("::", 1)[1], n6[2]))
        finally:
            an.interp.allow_pub = False
        how6 = "the flow fields are looked up in records taken from %s" % sorted("%s.%s" % x for x in srcs)
        if not srcs:
            # iterator-chain forms (`.filter_map(|fs| match &fs.body { Data(d) => Some(d), .. }).flat_map(|d| d.fields.iter())`)
            # hide the element from the slicer: fall back to what the conversion and everything it calls can touch at
            # all - `fields` of the Data body and of no other flowset body
            mod6 = P["enum"].rsplit("::", 1)[0].replace("_lookup", "")

            def accesses(x, out):
                if isinstance(x, dict):
                    if x.get("k") == "field" and x.get("adt") and str(x["adt"]).startswith(mod6 + "::") and x.get("name") in ("fields", "templates", "scope_fields", "option_fields"):
                        out.add((str(x["adt"]).rsplit("::", 1)[1], x["name"]))
                    for v in x.values():
                        accesses(v, out)
                elif isinstance(x, list):
                    for v in x:
                        accesses(v, out)
            for rb6 in rb.values():
                if not rb6.derived:
                    accesses(rb6.j.get("mir"), srcs)
            how6 = "the conversion (and what it calls) reads %s" % (sorted("%s.%s" % x for x in srcs) or "no flowset body at all (unrecognised shape)")
        ctx.ob("R13.6", P["fn"], "records-of-data-flowsets-only", srcs == {("Data", "fields")}, how6, site=site(s["span"]))
        top = top_fields(an, prog, b0, rb)
        if top:
            v, ts = top
            bad = order_preserving(prog, rb)
            ctx.ob("R13.2", P["fn"], "records-in-order", not bad, "reordering/filtering calls below the conversion: %s" % bad)
            ctx.ob("R13.2", P["fn"], "version", v[0] == "field" and v[2] == "version", canon(v)[:100])
            ctx.ob("R13.2", P["fn"], "timestamp", ts[0] == "field" and ts[2] == P["timestamp"], canon(ts)[:100])
    # R13.4 (form-independent, see records.py)
    from . import records
    records.one_map_per_record_rule(ctx, prog, an, "R13.4", "variable_versions::v9::Data::parse_be", "v9")
    records.one_map_per_record_rule(ctx, prog, an, "R13.4", "variable_versions::ipfix::Data::parse_be", "ipfix")
    # R13.5
    tb = prog.impl_fn("netflow_common::NetflowCommon", "TryFrom<&NetflowPacket>", "try_from")
    if tb is not None and not any(tb.term(x)["k"] == "switch" and peel(an.op(tb, tb.term(x)["op"]))[0] == "discr" for x in tb.live_blocks()):
        # the conversion may merely delegate (`value.as_netflow_common()`): the per-kind match then lives there
        for _, t0, c0 in tb.calls():
            if c0 is not None and c0.local and c0.kind == "Item" and c0.path in prog.bodies and t0["args"] and peel(an.op(tb, t0["args"][0])) == ("arg", 1):
                tb = prog.bodies[c0.path]
                break
    if ctx.anchor("R13.5", "TryFrom<&NetflowPacket>", tb):
        adt = prog.adts["NetflowPacket"]
        vi = {v["name"]: v["vi"] for v in adt["variants"]}
        sw = [(blk, tb.term(blk)) for blk in sorted(tb.live_blocks()) if tb.term(blk)["k"] == "switch" and peel(an.op(tb, tb.term(blk)["op"]))[0] == "discr"]
        ok = False
        why = "no switch on the packet kind"
        if sw:
            blk, t = sw[0]
            tgt = None
            for v, x in t["targets"]:
                if v == vi["Error"]:
                    tgt = x
            tgt = tgt if tgt is not None else t["otherwise"]
            r = tb.reachable(tgt)
            errs = [1 for (bb, i, s) in block_aggs(tb, r) if s["rv"]["variant"] == "Err"]
            oks = [1 for (bb, i, s) in block_aggs(tb, r) if s["rv"]["variant"] == "Ok" and tb.edge_dominates((blk, tgt), bb)]
            ok = bool(errs) and not oks
            why = "Error arm builds Err=%s Ok=%s" % (bool(errs), bool(oks))
            for name in ("V5", "V7", "V9", "IPFix"):
                tg = [x for v, x in t["targets"] if v == vi[name]]
                okv = bool(tg) and any(s["rv"]["variant"] == "Ok" for (bb, i, s) in block_aggs(tb, tb.reachable(tg[0])))
                ctx.ob("R13.5", tb.path, "converts:%s" % name, okv, "%s arm builds Ok" % name)
        ctx.ob("R13.5", tb.path, "error-to-Err", ok, why)
    hb = prog.body("NetflowParser::parse_bytes_as_netflow_common_flowsets")
    if ctx.anchor("R13.5", "parse_bytes_as_netflow_common_flowsets", hb):
        rb = reachable_local_bodies(prog, hb.path)
        own = {p: b for p, b in rb.items() if p == hb.path or p.startswith(hb.path + "::")}
        pcalls = [(b.path, blk) for b in own.values() for blk, t, c in b.calls() if c is not None and c.local and c.path == "NetflowParser::parse_bytes"]
        convs = [(b.path, blk) for b in own.values() for blk, t, c in b.calls() if c is not None and c.local and
                 (c.path == "NetflowPacket::as_netflow_common" or ("TryFrom<&NetflowPacket>" in c.path and "NetflowCommon" in c.path))]
        bad = order_preserving(prog, own)
        ok = len(pcalls) == 1 and len(convs) >= 1 and not bad
        ctx.ob("R13.5", hb.path, "flatten-in-order", ok,
               "parse_bytes calls: %d, as_netflow_common calls: %d, reordering/filtering calls: %s" % (len(pcalls), len(convs), bad))
