"""A6 — wire-layout dataflow for nom-derive generated (and hand-written nom) parsers.

For a parser body the unique success value `Ok((cursor_n, Struct{..}))` is sliced;
the cursor chain cursor_n -> .. -> arg1 is walked backwards, each link being one
parser application `P_k(cursor_{k-1})`.  Each application becomes a *term*:

  ("prim", name, width, endian, mode)     nom number primitive / <uN as Parse>::parse_be
  ("struct", adt, parser_path, extra_args)  nested crate parser
  ("map", term, fn_expr) ("mapres", term, fn_expr)
  ("take", n_expr) ("count", term, n_expr) ("many0", term) ("many1", term)
  ("complete", term) ("cond", c_expr, term) ("vec", elem_ty, parser)   (<Vec<T> as Parse>)
  ("value", expr)                         zero-width injected value
  ("closure", path, applied_expr)         user closure parser (result of applying it to a cursor)
  ("fn", Callee)                          other function used as a parser
  ("unknown", text)
"""
import re

from .common import *

PRIM_W = {"u8": 1, "i8": 1, "u16": 2, "i16": 2, "u24": 3, "i24": 3, "u32": 4, "i32": 4, "f32": 4,
          "u64": 8, "i64": 8, "f64": 8, "u128": 16, "i128": 16}

FN_CALL = ("std::ops::FnMut::call_mut", "core::ops::FnMut::call_mut", "std::ops::FnOnce::call_once",
           "core::ops::FnOnce::call_once", "std::ops::Fn::call", "core::ops::Fn::call")

CUR = ("cursor",)


def prim_of(c):
    """Recognise a number primitive from a Callee -> ("prim", name, width, endian, mode) or None."""
    n = c.npath
    m = re.match(r"^core::(num|f32|f64)::<impl ([uif]\d+)>::from_(be|le)_bytes$", n)
    if m and m.group(2) in PRIM_W:
        # `uN::from_be_bytes` applied to a `[u8; N]` cut off the input (the array length is tied to the type)
        return ("prim", n, PRIM_W[m.group(2)], m.group(3), "complete")
    m = re.match(r"^nom::number::(complete|streaming)::(be|le)_([uif]\d+)$", n)
    if m:
        return ("prim", n, PRIM_W.get(m.group(3)), m.group(2), m.group(1))
    m = re.match(r"^nom::number::(complete|streaming)::([uif]\d+)$", n)
    if m:
        return ("prim", n, PRIM_W.get(m.group(2)), "arg", m.group(1))
    # <u16 as nom_derive::Parse<..>>::parse_be
    m = re.match(r"^<([uif]\d+) as nom_derive::Parse<.*>>::(parse_be|parse_le|parse)$", c.id if c.resolved else c.npath)
    if not m:
        m = re.match(r"^<([uif]\d+) as nom_derive::Parse<.*>>::(parse_be|parse_le|parse)$", c.npath)
    if m and m.group(1) in PRIM_W:
        endian = {"parse_be": "be", "parse": "be", "parse_le": "le"}[m.group(2)]
        return ("prim", "<%s as Parse>::%s" % (m.group(1), m.group(2)), PRIM_W[m.group(1)], endian, "complete")
    if c.nsyn in ("nom_derive::Parse::parse_be", "nom_derive::Parse::parse", "nom_derive::Parse::parse_le") and c.syn_args:
        t = c.syn_args[0]
        if t in PRIM_W:
            endian = "le" if c.nsyn.endswith("parse_le") else "be"
            return ("prim", "<%s as Parse>::%s" % (t, c.nsyn.rsplit("::", 1)[1]), PRIM_W[t], endian, "complete")
    return None


class Layouts:
    def __init__(self, prog, an):
        self.prog = prog
        self.an = an
        self.cache = {}

    # ---- terms -----------------------------------------------------------
    def term_of_callable(self, v, depth=0):
        v = peel(v)
        if depth > 10:
            return ("unknown", "depth")
        if v[0] == "constfn":
            return self.term_of_fn(v[1], [])
        if v[0] == "closure":
            applied = self.an.interp.apply(v, [CUR])
            okv = self.an.interp._through("ok", applied)
            okv = peel(okv)
            if okv[0] == "tuple" and len(okv[1]) == 2 and peel(okv[1][0]) == CUR:
                return ("value", okv[1][1])
            # closure delegating to another parser application
            ap = peel(applied)
            inner = self.step_of_call(ap) if ap[0] == "call" else None
            if inner is not None and peel(inner[1]) == CUR:
                return ("closure", v[1], inner[0], v[2])
            if ap[0] == "phi" and ap[1]:
                # an arm that consumes nothing and yields an empty collection (`None => Ok((i, Vec::new()))` for an
                # absent template) does not change which parser decodes the bytes on the other arms
                def empty_success(m):
                    o = peel(self.an.interp._through("ok", m))
                    if o[0] == "tuple" and len(o[1]) == 2 and peel(o[1][0]) == CUR:
                        x = peel(o[1][1])
                        return x[0] == "call" and x[2] is not None and re.search(r"(Vec(<.*>)?::new|Default::default|Vec(<.*>)?::default)$", x[2].npath) is not None and not x[3]
                    return False
                rest = [m for m in ap[1] if not empty_success(m)]
                if rest and len(rest) < len(ap[1]) and all(peel(m)[0] == "call" for m in rest):
                    ap = ("phi", rest)
            if ap[0] == "phi" and ap[1] and all(peel(m)[0] == "call" for m in ap[1]):
                # `match .. { A => P(i, x), B => P(i, y) }`: the same parser applied on every arm
                inners = [self.step_of_call(peel(m)) for m in ap[1]]
                if all(x is not None and peel(x[1]) == CUR for x in inners):
                    keys = set((x[0][0], x[0][2] if x[0][0] == "struct" else term_s(x[0])) for x in inners)
                    if len(keys) == 1:
                        return ("closure", v[1], inners[0][0], v[2])
            return ("closure", v[1], ("unknown", canon(applied)[:300]), v[2])
        if v[0] == "call" and v[2] is not None:
            c = v[2]
            n = c.npath
            a = v[3]
            if n == "nom::combinator::map" and len(a) == 2:
                return ("map", self.term_of_callable(a[0], depth + 1), a[1])
            if n == "nom::combinator::map_res" and len(a) == 2:
                return ("mapres", self.term_of_callable(a[0], depth + 1), a[1])
            if n in ("nom::bytes::complete::take", "nom::bytes::streaming::take") and len(a) == 1:
                return ("take", a[0], "complete" if "complete" in n else "streaming")
            if n == "nom::multi::count" and len(a) == 2:
                return ("count", self.term_of_callable(a[0], depth + 1), a[1])
            if n in ("nom::multi::many0", "nom::multi::many1") and len(a) == 1:
                return (n.rsplit("::", 1)[1], self.term_of_callable(a[0], depth + 1))
            if n == "nom::multi::many_m_n" and len(a) == 3:
                return ("many_m_n", self.term_of_callable(a[2], depth + 1), a[0], a[1])
            if n == "nom::combinator::complete" and len(a) == 1:
                return ("complete", self.term_of_callable(a[0], depth + 1))
            if n == "nom::combinator::cond" and len(a) == 2:
                return ("cond", a[0], self.term_of_callable(a[1], depth + 1))
            if n == "nom::combinator::success" and len(a) == 1:
                return ("value", a[0])          # consumes nothing, yields the given value (= nom-derive `Value(..)`)
            if n == "nom::combinator::opt" and len(a) == 1:
                return ("opt", self.term_of_callable(a[0], depth + 1))
            return ("unknown", "combinator %s" % n)
        return ("unknown", canon(v)[:200])

    def prim_mode(self, c):
        """complete / streaming, read from the instance graph (nom-derive's <uN as Parse> impls wrap nom::number::streaming)."""
        if not hasattr(self, "_modes"):
            self._modes = {}
            byid = {}
            for n in self.prog.nodes:
                byid.setdefault(n["id"], n)
            self._byid = byid
        if c.id in self._modes:
            return self._modes[c.id]
        n = self._byid.get(c.id)
        mode = "unknown"
        if n is not None:
            seen = set()
            st = [n["i"]]
            modes = set()
            while st and len(seen) < 60:
                x = st.pop()
                if x in seen:
                    continue
                seen.add(x)
                pth = self.prog.nodes[x]["path"]
                if "::streaming::" in pth:
                    modes.add("streaming")
                elif "::complete::" in pth:
                    modes.add("complete")
                st.extend(self.prog.nodes[x]["callees"])
            if len(modes) == 1:
                mode = modes.pop()
            elif modes:
                mode = "mixed"
        self._modes[c.id] = mode
        return mode

    def term_of_fn(self, c, extra, ci=0):
        p = prim_of(c)
        if p:
            if p[1].startswith("<"):
                p = (p[0], p[1], p[2], p[3], self.prim_mode(c))
            return p
        n = c.npath
        m = re.match(r"^<std::vec::Vec<(.+)> as nom_derive::Parse<.*>>::(parse_be|parse|parse_le)$", c.id)
        if m:
            return ("vec", m.group(1), m.group(2))
        if c.nsyn in ("nom_derive::Parse::parse_be", "nom_derive::Parse::parse", "nom_derive::Parse::parse_le") and c.syn_args and c.syn_args[0].startswith("std::vec::Vec<"):
            return ("vec", c.syn_args[0][len("std::vec::Vec<"):-1], c.nsyn.rsplit("::", 1)[1])
        if c.local:
            inl = self.fn_as_term(c)
            if inl is not None:
                return inl
            sz = self.sized_fn(c.path)
            if sz is not None:
                # hand-written `let (rest, body) = take(n)(i)?; P(body, ..)`: the same as map_res(take(n), P)
                amap = {ci + 1: CUR}
                rest = [i for i in range(len(extra) + 1) if i != ci]
                for k, x in zip(rest, extra):
                    amap[k + 1] = x
                n = self.an.simp(self.an.interp.subst(sz["n"], amap))
                return ("mapres", ("take", n, sz["mode"]), ("sym", "sized:%s" % c.path))
            return ("struct", self.self_adt(c), c.path, extra)
        return ("fn", c)

    def fn_as_term(self, c, depth=0):
        """A private crate function that is just one parser application on its input
        (`fn parse_ipv4_addr(i) -> IResult<..> { map(be_u32, Ipv4Addr::from)(i) }`) is replaced by that term."""
        b = self.prog.body(c.path)
        if b is None or b.arg_count != 1 or b.nblocks > 40 or b.parent_impl or depth > 3:
            return None
        ret = peel(self.an.local(b, 0))
        if ret[0] == "call":
            st = self.step_of_call(ret)
            if st is not None:
                term, cur = st
                if peel(cur) == ("arg", 1):
                    return term
        # `let (rest, raw) = P(input)?; Ok((rest, f(raw)))` — one parser application plus a pure transform
        L = self.parser_layout(c.path)
        if L["ok"] and len(L["steps"]) == 1 and L.get("adt") is None:
            step = L["steps"][0]
            val = peel(L.get("value", ("opaque",)))
            src = ("tfield", ("ok", step["call"]), 1)
            if canon(val) == canon(src):
                return step["term"]
            if val[0] == "call" and val[2] is not None and len(val[3]) == 1 and canon(peel(val[3][0])) == canon(src):
                return ("map", step["term"], ("constfn", val[2]))
        return None

    def sized_fn(self, path):
        """A hand-written crate function that delimits a body: it cuts `take(n)` bytes off its input (arg 1), returns
        the remainder of that take, and every crate parser it applies reads the taken bytes only.
        -> {n, mode, inner:[callee paths], block} or None."""
        if not hasattr(self, "_sized"):
            self._sized = {}
        if path in self._sized:
            return self._sized[path]
        self._sized[path] = None
        b = self.prog.bodies.get(path)
        if b is None or b.derived or b.kind == "Closure" or "nom_derive::Parse" in path:
            return None
        an = self.an
        takes = []
        cur_arg = 1
        for i in range(b.arg_count):
            ty = b.local_ty(i + 1)
            if ty.startswith("&") and ty.replace("&", "").replace("'", "").split(" ")[-1] == "[u8]":
                cur_arg = i + 1
                break
        for blk, t, c in b.calls():
            if c is None or c.nsyn not in FN_CALL:
                continue
            call = peel(an.local(b, t["dest"]["l"])) if t.get("dest") else None
            if call is None or call[0] != "call":
                continue
            st = self.step_of_call(call)
            if st is not None and st[0][0] == "take" and peel(st[1]) == ("arg", cur_arg):
                takes.append((blk, call, st[0]))
        if len(takes) != 1:
            return None
        blk, call, term = takes[0]
        taken = canon(("tfield", ("ok", call), 1))
        rest = canon(("tfield", ("ok", call), 0))
        inner = []
        take_key = (call[1], call[2].id if call[2] is not None else None)

        def rooted(e, depth=0):
            """The slice is the taken body or what a parser applied to (a tail of) the taken body left over - a
            loop that walks the body (`unparsed = tail`) stays inside it."""
            e = peel(e)
            while e[0] in ("ref", "deref"):
                e = peel(e[1])
            if depth > 12:
                return False
            if canon(e) == taken:
                return True
            if e[0] == "cycle":
                return True       # the loop-carried value itself: decided by the phi's other members
            if e[0] == "phi":
                ms = [m for m in e[1] if peel(m)[0] != "cycle"]
                return bool(ms) and all(rooted(m, depth + 1) for m in ms)
            if e[0] == "mutlocal":
                return rooted(e[2], depth + 1)
            if e[0] == "tfield" and e[2] == 0 and e[1][0] == "ok":
                cx = peel(e[1][1])
                if cx[0] == "cycle":
                    return True
                if cx[0] == "call" and cx[2] is not None and (cx[1], cx[2].id) != take_key:
                    st3 = self.step_of_call(cx)
                    if st3 is not None:
                        return rooted(st3[1], depth + 1)
            return False
        for blk2, t2, c2 in b.calls():
            if c2 is None or not c2.local or c2.kind != "Item" or not t2["args"]:
                continue
            a0 = t2["args"][0]
            ty = (b.op_ty(a0) if hasattr(b, "op_ty") else "") or ""
            e0 = peel(an.op(b, a0))
            if canon(e0) == taken or rooted(e0):
                inner.append(c2.path)
            elif find(e0, lambda n: n == ("arg", cur_arg)) or canon(e0) == rest:
                return None     # a crate parser applied to bytes outside the delimited body
        # combinator values applied to the taken bytes (`many0(complete(P))(body)`)
        for blk2, t2, c2 in b.calls():
            if c2 is None or c2.nsyn not in FN_CALL or blk2 == blk:
                continue
            cx = peel(an.local(b, t2["dest"]["l"])) if t2.get("dest") else None
            if cx is None or cx[0] != "call":
                continue
            st2 = self.step_of_call(cx)
            if st2 is None:
                continue
            cin = peel(st2[1])
            if canon(cin) == taken or rooted(cin):
                inner.append(term_s(st2[0])[:80])
            elif find(cin, lambda n: n == ("arg", cur_arg)) or canon(cin) == rest:
                return None
        if not inner:
            return None
        # the success remainder is the take's remainder
        okv = peel(an.interp._through("ok", an.local(b, 0)))
        members = okv[1] if okv[0] == "phi" else [okv]
        for m in members:
            m = peel(m)
            if m[0] == "tuple" and len(m[1]) == 2:
                if canon(peel(m[1][0])) != rest:
                    return None
        r = {"n": term[1], "mode": term[2], "inner": inner, "block": blk}
        self._sized[path] = r
        return r

    def self_adt(self, c):
        b = self.prog.body(c.path)
        if b is not None and b.parent_impl:
            return b.parent_impl["self_ty"]
        return c.path

    def step_of_call(self, call):
        """call expr -> (term, cursor_in_expr) or None"""
        c = call[2]
        a = call[3]
        if c is None:
            return None
        is_fncall = c.nsyn in FN_CALL or re.search(r"::\{closure#\d+\}$", c.path or "") and not c.local
        if c.nsyn in FN_CALL or (c.resolved and re.search(r"\{closure#\d+\}$", c.path) and len(a) == 2 and peel(a[1])[0] == "tuple" and not c.local):
            callable_v = a[0]
            argt = peel(a[1])
            cur = argt[1][0] if argt[0] == "tuple" and argt[1] else ("opaque", "no-cursor")
            return (self.term_of_callable(callable_v), cur)
        if c.resolved and re.search(r"\{closure#\d+\}$", c.path) and c.local and len(a) == 2 and peel(a[1])[0] == "tuple":
            # direct call of a local closure value
            argt = peel(a[1])
            return (self.term_of_callable(a[0]), argt[1][0])
        if not a:
            return None
        ci = self.cursor_param(c)
        if ci >= len(a):
            ci = 0
        return (self.term_of_fn(c, [x for i, x in enumerate(a) if i != ci], ci), a[ci])

    def cursor_param(self, c):
        """Index of the parameter that carries the input bytes of a crate parser function: the first `&[u8]`
        parameter (`fn parse_body(&self, i: &[u8], ..)` takes it second)."""
        b = self.prog.bodies.get(c.path) if c is not None and c.local else None
        if b is None:
            return 0
        for i in range(b.arg_count):
            ty = b.local_ty(i + 1)
            if ty.startswith("&") and ty.replace("&", "").replace("'", "").split(" ")[-1] == "[u8]":
                return i
        return 0

    # ---- struct layouts ---------------------------------------------------
    def parser_layout(self, path):
        """Layout of a crate parser function: dict(adt, steps=[{term, fields, value_exprs, site}], ok, why)."""
        if path in self.cache:
            return self.cache[path]
        self.cache[path] = {"ok": False, "why": "recursive", "steps": [], "adt": None, "path": path}
        b = self.prog.body(path)
        if b is None:
            r = {"ok": False, "why": "no body %s" % path, "steps": [], "adt": None, "path": path}
            self.cache[path] = r
            return r
        an = self.an
        ret = an.local(b, 0)
        okv = peel(an.interp._through("ok", ret))
        # `parse` delegating to `parse_be`
        if okv[0] in ("ok",) and peel(okv[1])[0] == "call":
            inner = peel(okv[1])
            c = inner[2]
            if c is not None and c.local and c.path != path and all(peel(x)[0] == "arg" for x in inner[3]):
                r = dict(self.parser_layout(c.path))
                r["delegates_to"] = c.path
                self.cache[path] = r
                return r
        if not (okv[0] == "tuple" and len(okv[1]) == 2):
            r = {"ok": False, "why": "success value is not a (remainder, value) tuple: %s" % canon(okv)[:300], "steps": [], "adt": None, "path": path}
            self.cache[path] = r
            return r
        cursor, val = okv[1]
        val = peel(val)
        steps = []
        cur = cursor
        ok = True
        why = ""
        guard = 0
        while True:
            guard += 1
            cp = peel(cur)
            if cp == ("arg", 1):
                break
            if guard > 200:
                ok, why = False, "cursor chain too long"
                break
            if cp[0] == "tfield" and cp[2] == 0 and cp[1][0] == "ok" and peel(cp[1][1])[0] == "call":
                call = peel(cp[1][1])
                st = self.step_of_call(call)
                if st is None:
                    ok, why = False, "unrecognised parser application %s" % canon(call)[:200]
                    break
                term, cin = st
                steps.append({"term": term, "call": call, "block": call[1], "site": b.line(call[1]) if call[1] >= 0 else "?", "fields": []})
                cur = cin
                continue
            ok, why = False, "cursor does not come from a parser remainder: %s" % canon(cp)[:300]
            break
        steps.reverse()
        adt = None
        fields = {}
        if val[0] == "agg":
            adt = val[1]
            for name, e in zip(val[4], val[3]):
                fields[name] = e
        # attribute each field to the step(s) whose result it uses
        by_block = {s["block"]: s for s in steps}
        field_info = {}
        for name, e in fields.items():
            used = []
            for n in find(e, lambda n: n[0] == "ok" and peel(n[1])[0] == "call"):
                blk = peel(n[1])[1]
                if blk in by_block and blk not in used:
                    used.append(blk)
            core = peel(e)
            identity = False
            src_block = None
            if core[0] == "tfield" and core[2] == 1 and core[1][0] == "ok" and peel(core[1][1])[0] == "call":
                src_block = peel(core[1][1])[1]
                identity = src_block in by_block
            field_info[name] = {"expr": e, "uses": used, "identity": identity, "src": src_block}
            if identity:
                by_block[src_block]["fields"].append(name)
        r = {"ok": ok, "why": why, "steps": steps, "adt": adt, "fields": field_info, "path": path, "value": val, "body": b}
        self.cache[path] = r
        return r

    def width(self, term, depth=0):
        """Static wire width of a term in bytes, or None when data-dependent."""
        k = term[0]
        if depth > 12:
            return None
        if k == "prim":
            return term[2]
        if k == "value":
            return 0
        if k in ("map", "mapres", "complete"):
            return self.width(term[1], depth + 1)
        if k == "struct":
            lay = self.parser_layout(term[2])
            if not lay["ok"]:
                return None
            tot = 0
            for s in lay["steps"]:
                w = self.width(s["term"], depth + 1)
                if w is None:
                    return None
                tot += w
            return tot
        if k == "closure":
            return self.width(term[2], depth + 1)
        return None

    def min_width(self, term, depth=0):
        """A lower bound of the bytes a successful application of the term consumes (0 when nothing is known)."""
        k = term[0]
        if depth > 12:
            return 0
        if k == "prim":
            return term[2]
        if k in ("map", "mapres", "complete"):
            return self.min_width(term[1], depth + 1)
        if k == "closure":
            return self.min_width(term[2], depth + 1)
        if k == "take":
            v = const_eval(peel(term[1], widen=True))
            return min(v) if v else 0
        if k == "struct":
            lay = self.parser_layout(term[2])
            if not lay["ok"]:
                return 0
            return sum(self.min_width(s["term"], depth + 1) for s in lay["steps"])
        return 0

    def struct_width(self, path):
        lay = self.parser_layout(path)
        if not lay["ok"]:
            return None
        tot = 0
        for s in lay["steps"]:
            w = self.width(s["term"])
            if w is None:
                return None
            tot += w
        return tot


def term_s(t, depth=0):
    k = t[0]
    if depth > 6:
        return "…"
    if k == "prim":
        return "%s[%s,%s,%s]" % (t[1], t[2], t[3], t[4])
    if k == "struct":
        return "struct<%s>" % t[2]
    if k in ("map", "mapres"):
        return "%s(%s, %s)" % (k, term_s(t[1], depth + 1), canon(peel(t[2]))[:80])
    if k == "take":
        return "take(%s)" % canon(peel(t[1]))[:160]
    if k == "count":
        return "count(%s, %s)" % (term_s(t[1], depth + 1), canon(peel(t[2]))[:160])
    if k in ("many0", "many1", "complete", "opt"):
        return "%s(%s)" % (k, term_s(t[1], depth + 1))
    if k == "cond":
        return "cond(%s, %s)" % (canon(peel(t[1]))[:120], term_s(t[2], depth + 1))
    if k == "value":
        return "value(%s)" % canon(peel(t[1]))[:120]
    if k == "closure":
        return "closure<%s>(%s)" % (t[1], term_s(t[2], depth + 1))
    if k == "vec":
        return "vec<%s>" % t[1]
    if k == "fn":
        return "fn<%s>" % t[1].id
    return "%s" % (t,)


def delimiting_node_pred(prog, an):
    """Call-graph node predicate: a `map_res(take(..), ..)` closure instance, or a hand-written crate function of the
    same shape (Layouts.sized_fn) — below either, parsers see only the length-delimited body."""
    lay = Layouts(prog, an)
    sized = set()
    for p, b in prog.bodies.items():
        if b.kind != "Closure" and not b.derived and any(c is not None and c.npath in ("nom::bytes::complete::take", "nom::bytes::streaming::take") for _, _, c in b.calls()):
            if lay.sized_fn(p) is not None:
                sized.add(p)

    def pred(nd):
        if nd["path"] in sized:
            return True
        return nd["path"].startswith("nom::combinator::map_res") and nd["kind"] in ("Item", "ClosureOnceShim") and "{closure#" in nd["path"] and any("nom::bytes::complete::take" in a for a in nd["args"])
    pred.sized = sized
    return pred


PARSER_OF = {
    "v9::FlowSet": "variable_versions::v9::FlowSet::parse_be",
    "ipfix::FlowSet": "variable_versions::ipfix::FlowSet::parse_be",
    "ipfix::IPFix": "variable_versions::ipfix::IPFix::parse_be",
}

SAT_SUB = ("core::num::<impl u16>::saturating_sub", "core::num::<impl usize>::saturating_sub", "core::num::<impl u32>::saturating_sub")
CHECKED_SUB = ("core::num::<impl u16>::checked_sub", "core::num::<impl usize>::checked_sub")


def sat_sub_form(e):
    """Recognise max(x − K, 0): `x.saturating_sub(K)`, `x.checked_sub(K).unwrap_or(0)` / `.unwrap_or_default()`, and the
    guarded form `if x > K { x - K } else { 0 }` (sliced as phi(0, x − K); the guard itself is what discharges the
    subtraction's overflow assert under C01 R1.1).  Returns (x_expr, K) or None."""
    e = peel(e, widen=True)
    if e[0] == "phi" and len(e[1]) == 2:
        ms = [peel(m, widen=True) for m in e[1]]
        zeros = [m for m in ms if const_eval(m) == {0}]
        subs = [m for m in ms if (m[0] == "binop" and m[1] in ("Sub", "SubUnchecked")) or (m[0] == "tfield" and m[2] == 0 and peel(m[1])[0] == "binop" and peel(m[1])[1] == "SubWithOverflow")]
        if len(zeros) == 1 and len(subs) == 1:
            b = subs[0] if subs[0][0] == "binop" else peel(subs[0][1])
            k = const_eval(b[3])
            if k and len(k) == 1:
                return (b[2], next(iter(k)))
    if e[0] == "call" and e[2] is not None:
        if e[2].is_(*SAT_SUB) and len(e[3]) == 2:
            k = peel(e[3][1])
            if k[0] == "const":
                return (e[3][0], k[1])
        if e[2].nsyn in ("std::option::Option::unwrap_or", "core::option::Option::unwrap_or") and len(e[3]) == 2:
            inner = peel(e[3][0])
            d = peel(e[3][1])
            if d == ("const", 0, d[2] if len(d) > 2 else None) and inner[0] == "call" and inner[2] is not None and inner[2].is_(*CHECKED_SUB):
                k = peel(inner[3][1])
                if k[0] == "const":
                    return (inner[3][0], k[1])
        if e[2].nsyn in ("std::option::Option::unwrap_or_default", "core::option::Option::unwrap_or_default") and len(e[3]) == 1:
            inner = peel(e[3][0])
            if inner[0] == "call" and inner[2] is not None and inner[2].is_(*CHECKED_SUB):
                k = peel(inner[3][1])
                if k[0] == "const":
                    return (inner[3][0], k[1])
    return None


def dispatcher_prefix(prog, an, lay, parser_path):
    """Bytes consumed by the dispatcher before it hands the remainder to `parser_path` (the version wrapper)."""
    from .common import dispatcher_paths, role_body
    cands = [role_body(prog, p) for p in sorted(dispatcher_paths(prog))]     # the version match may live in a private piece
    for b in [x for x in cands if x is not None] + list(prog.bodies.values()):
        for blk, t, c in b.calls():
            if c is not None and c.local and c.path == parser_path:
                arg = peel(an.opx(b, t["args"][-1]))       # private splitting helpers inlined
                if arg[0] == "arg":
                    return 0, "whole buffer"
                if arg[0] == "tfield" and arg[2] == 0 and arg[1][0] == "ok":
                    src = peel(arg[1][1])
                    if src[0] == "call" and src[2] is not None and src[2].local:
                        w = lay.struct_width(src[2].path)
                        return w, "remainder of %s (%s bytes)" % (src[2].path, w)
                return None, "unrecognised input %s" % canon(arg)[:200]
    return None, "no call site"


def rule_body_lengths(ctx, prog, an, rule):
    """R2.6 / R4.1 / R5.1: take(n) delimiting a body has n = header.length saturating-minus own header size."""
    lay = Layouts(prog, an)
    n = 0
    for label, path in sorted(PARSER_OF.items()):
        L = lay.parser_layout(path)
        if not ctx.anchor(rule, path, prog.body(path)):
            continue
        if not L["ok"]:
            ctx.ob(rule, path, "layout", False, "cannot recover the parser's cursor chain: %s" % L["why"])
            continue
        def unclo(t):
            while t[0] == "closure":
                t = t[2]
            return t
        takes = [(i, dict(s, term=unclo(s["term"]))) for i, s in enumerate(L["steps"]) if unclo(s["term"])[0] == "mapres" and unclo(s["term"])[1][0] == "take"]
        if len(takes) != 1:
            ctx.ob(rule, path, "single-delimited-body", False, "expected one map_res(take(n), ..) step, found %d: %s" % (len(takes), [term_s(s["term"]) for s in L["steps"]]))
            continue
        i, s = takes[0]
        nexpr = an.expand(s["term"][1][1])
        form = sat_sub_form(nexpr)
        # header = the struct step(s) before
        hdr_steps = L["steps"][:i]
        hw = 0
        hok = True
        hdr_paths = []
        for hs in hdr_steps:
            w = lay.width(hs["term"])
            if w is None:
                hok = False
            else:
                hw += w
            if hs["term"][0] == "struct":
                hdr_paths.append(hs["term"][2])
        extra = 0
        extra_why = ""
        if label == "ipfix::IPFix":
            extra, extra_why = dispatcher_prefix(prog, an, lay, IPFIX_PARSE)
            if extra is None:
                hok = False
        n += 1
        if form is None:
            ctx.ob(rule, path, "body-length-form", False,
                   "take() length is not `length.saturating_sub(K)` (or checked_sub(K).unwrap_or(0)): %s" % canon(peel(nexpr))[:300], site=s["site"])
            continue
        x, K = form
        xs = peel(x, widen=True)
        from_len = xs[0] == "field" and xs[2] == "length" and find(xs, lambda n: n[0] == "call" and n[2] is not None and n[2].local and n[2].path in hdr_paths)
        ctx.ob(rule, path, "body-length-source-is-header.length", bool(from_len), "minuend = %s" % canon(xs)[:200], site=s["site"])
        want = (hw + (extra or 0)) if hok else None
        ctx.ob(rule, path, "body-length-constant", hok and K == want,
               "subtracts %s; wire size of the enclosing header = %s (%s%s)" % (K, want, "+".join(term_s(h["term"]) for h in hdr_steps), (" + dispatcher prefix: " + extra_why) if extra_why else ""),
               site=s["site"])
    ctx.floor(rule, "crate", "length-delimited bodies", n, 3)
    return lay
