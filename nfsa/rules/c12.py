import re
"""C12 — allowed_versions filters by version and nothing else (DESIGN §4.12)."""
from .common import *

LEVEL = "proof"
EXPLANATION = (
    "Structural proof over the MIR of the dispatcher: one membership test on the parser's "
    "allowed_versions set, keyed by the u16 parsed from the first two bytes of the entry slice, "
    "dominates every version-specific parser call and the unknown-version error; its false edge "
    "returns Err(UnallowedVersion(v)) with no other call; the dispatch table maps 5/7/9/10 to the "
    "four parsers and every other value to UnknownVersion carrying the unparsed bytes; "
    "UnallowedVersion is built nowhere else; parse_bytes' arm for it adds no element and parses "
    "nothing further; allowed_versions is never written on any path from the public roots."
)
ASSUMPTIONS = [
    "HashSet::contains is a pure membership test (std contract)",
    "MIR at -Zmir-opt-level=0 is a faithful lowering of the source",
]

CONTAINS = {"std::collections::HashSet::contains", "std::collections::hash_set::HashSet::contains",
            "std::collections::BTreeSet::contains", "alloc::collections::BTreeSet::contains",
            "std::collections::btree_set::BTreeSet::contains"}


def find_dispatchers(prog, bodies):
    """Bodies (reachable from the parse roots) that call a version-specific parser."""
    names = set(VERSION_PARSERS.values())
    out = {}
    for p in sorted(dispatcher_paths(prog)):
        if p not in bodies:
            continue
        b = role_body(prog, p)
        for blk, t, c in b.calls():
            if c is not None and c.npath in names:
                out.setdefault(p, (b, []))[1].append((blk, c))
    return out


def is_allowed_versions(e):
    e = peel(e)
    return e[0] == "field" and e[2] == "allowed_versions"


def version_expr_ok(an, prog, e):
    """e must be: projections of ok(<parse of the entry slice>) ending in a `version` field."""
    e = peel(e)
    chain = []
    cur = e
    while cur[0] in ("field", "tfield", "ok", "ref", "deref"):
        chain.append(cur)
        cur = cur[1]
    if cur[0] != "call" or cur[2] is None:
        return False, "version value does not originate in a parser call: %s" % canon(e)
    c = cur[2]
    arg0 = peel(cur[3][0]) if cur[3] else None
    if arg0 is None or arg0[0] != "arg":
        return False, "version is parsed from something other than the function's input slice: %s" % canon(e)
    last = e
    if not (last[0] == "field" and last[2] == "version") and not c.is_("nom::number::complete::be_u16"):
        # whatever the private header struct calls it: the field filled by the first step of the header parser
        # (the first bytes of the packet are the version word; its width and byte order are R12.5's)
        first = None
        if last[0] == "field" and c.local:
            from .layout import Layouts
            L = Layouts(prog, an).parser_layout(c.path if c.path in prog.bodies else c.npath)
            if L["ok"] and L["steps"]:
                first = L["steps"][0]["fields"]
        if not (first and last[2] in first):
            return False, "gate key is not the parsed `version` field: %s" % canon(e)
    return True, "version = %s" % canon(e)


def reach_under(an, body, vcanon, v):
    """Blocks reachable from entry when every switch on the version expression takes the edge for value v."""
    seen = set()
    st = [0]
    while st:
        b = st.pop()
        if b in seen:
            continue
        seen.add(b)
        t = body.term(b)
        nxt = body.succs(b)
        if t["k"] == "switch":
            e = peel(an.opx(body, t["op"]))
            if canon(e) == vcanon:
                tgt = t["otherwise"]
                for val, tb in t["targets"]:
                    if val == v:
                        tgt = tb
                nxt = [tgt]
            elif e[0] == "binop" and e[1] in ("Eq", "Ne"):
                a, c2 = peel(e[2]), peel(e[3])
                cst = None
                if canon(a) == vcanon and c2[0] == "const":
                    cst = c2[1]
                elif canon(c2) == vcanon and a[0] == "const":
                    cst = a[1]
                if cst is not None:
                    truth = (v == cst) if e[1] == "Eq" else (v != cst)
                    tt, ff = bool_edges(t)
                    nxt = [tt if truth else ff]
        for s in nxt:
            if s not in seen:
                st.append(s)
    return seen


def version_word_rule(ctx, prog, an, rid):
    """The value the dispatcher compares is the whole 16-bit big-endian version word of the packet, reported by its
    header parser unchanged: a plain 2-byte big-endian number primitive with no Map / narrowing in between (a version
    read as `u16 as u8` lets 0x0105 through as version 5)."""
    from .layout import Layouts, term_s
    parse_bodies = reach_bodies(prog, PARSE_ROOTS)
    disp = find_dispatchers(prog, parse_bodies)
    if not ctx.anchor(rid, "dispatcher", disp):
        return
    lay = Layouts(prog, an)
    n = 0
    for path, (body0, sites0) in sorted(disp.items()):
        body = role_body(prog, path)
        gates = [g for g in guards_by_call(an, body, CONTAINS) if g[1][3] and is_allowed_versions(g[1][3][0])]
        keys = [peel(an.expand(g[1][3][1])) for g in gates]
        # ... and the scrutinee of the version switch
        for blk in sorted(body.live_blocks()):
            t = body.term(blk)
            if t["k"] == "switch" and len(t["targets"]) >= 3 and set(v for v, _ in t["targets"]) >= {5, 7, 9, 10}:
                keys.append(peel(an.opx(body, t["op"]), widen=False))
        for key in keys:
            cur = key
            casts = []
            while cur[0] in ("field", "tfield", "ok", "ref", "deref", "cast"):
                if cur[0] == "cast":
                    casts.append((cur[4] if len(cur) > 4 else None, cur[3]))
                    cur = cur[2]
                else:
                    cur = cur[1]
            n += 1
            if cur[0] != "call" or cur[2] is None:
                ctx.ob(rid, path, "version-is-the-16-bit-word", False, "the dispatch value does not originate in a parser call: %s" % canon(key)[:160])
                continue
            c = cur[2]
            narrowed = [x for x in casts if re.match(r"^[ui](8)$", str(x[1]))]
            fnames = [x[2] for x in find(key, lambda n: n[0] == "field" and peel(n[1])[0] == "tfield" and peel(n[1])[1][0] == "ok")]
            vname = fnames[0] if fnames else "version"
            if c.is_("nom::number::complete::be_u16", "nom::number::streaming::be_u16"):
                ok, why = not narrowed, "version read by %s" % c.npath
            elif c.local:
                L = lay.parser_layout(c.path if c.path in prog.bodies else c.npath)
                st = [x for x in (L["steps"] if L["ok"] else []) if vname in x["fields"]]
                if not st:
                    ok, why = False, "header parser %s has no recognisable `version` step (%s)" % (c.path, L.get("why", ""))
                else:
                    tm = st[0]["term"]
                    ok = tm[0] == "prim" and tm[2] == 2 and tm[3] == "be" and not narrowed
                    why = "version step of %s = %s" % (c.path.rsplit("::", 2)[-2] if "::" in c.path else c.path, term_s(tm)[:120])
            else:
                ok, why = False, "version produced by %s" % c.npath
            ctx.ob(rid, path, "version-is-the-16-bit-word", ok, why + ("" if ok else " - not the plain 2-byte big-endian word (a mapped or narrowed version lets other words alias a supported version)"), site=site(body.span))
    ctx.floor(rid, "crate", "dispatch values inspected", n, 1)


def gate_dominates_rule(ctx, prog, an, rid, versions=(9, 10)):
    """Every call of the given version parsers is reachable only through the true edge of the single
    `allowed_versions.contains(&version)` gate of its dispatcher (shared: C12 R12.1, C06 R6.10)."""
    parse_bodies = reach_bodies(prog, PARSE_ROOTS)
    disp = find_dispatchers(prog, parse_bodies)
    if not ctx.anchor(rid, "dispatcher", disp):
        return
    want = set(VERSION_PARSERS[v] for v in versions)
    n = 0
    for path, (body0, sites0) in sorted(disp.items()):
        body = role_body(prog, path)
        sites = [(blk, c) for (blk, t, c) in body.calls() if c is not None and c.npath in want]
        if not sites:
            continue
        gates = [g for g in guards_by_call(an, body, CONTAINS) if g[1][3] and is_allowed_versions(g[1][3][0])]
        if len(gates) != 1:
            ctx.ob(rid, path, "single-gate", False, "expected exactly one `allowed_versions.contains(..)` branch in %s, found %d" % (path, len(gates)), site=site(body.span))
            continue
        cb, cexpr, sw, tt, ff = gates[0]
        for blk, c in sites:
            n += 1
            ctx.ob(rid, path, "behind-the-gate:%s" % c.npath.rsplit("::", 2)[-2], body.edge_dominates((sw, tt), blk),
                   "the call of %s at %s %s" % (c.npath, body.line(blk), "is reachable only through the true edge of the allowed-versions gate at %s" % body.line(cb)
                                               if body.edge_dominates((sw, tt), blk) else "can be reached without passing the allowed-versions gate: a packet of a disallowed version would be decoded and teach the caches"), site=body.line(blk))
    ctx.floor(rid, "crate", "calls of cache-writing version parsers", n, len(versions))


def run(ctx, env):
    prog = env.prog("default")
    an = An(prog)
    ctx.rule("R12.1", "one `allowed_versions.contains(&version)` gate, keyed by the version parsed from the entry slice, dominates (true edge) every version-specific parser call and the UnknownVersion error; the false edge returns Err(UnallowedVersion(version)) and calls nothing")
    ctx.rule("R12.2", "dispatch table: under version v in {5,7,9,10} exactly the matching parser is reachable; under any other value none is and UnknownVersion(bytes of the input) is built")
    ctx.rule("R12.3", "NetflowParseError::UnallowedVersion is constructed only on the gate's false edge (derived impls excepted); parse_bytes' arm for it adds no element and parses nothing further")
    ctx.rule("R12.4", "no write to / mutable borrow of `allowed_versions` (or whole-parser overwrite) in any body reachable from the public roots")
    ctx.rule("R12.5", "the dispatch value is the whole 16-bit big-endian version word, read by a plain 2-byte number primitive and not mapped or narrowed on its way to the gate and the version match")
    if not roots_or_fail(ctx, prog, "R12.1", PARSE_ROOTS[:1]):
        return
    version_word_rule(ctx, prog, an, "R12.5")
    bodies = reach_bodies(prog, ALL_ROOTS)
    parse_bodies = reach_bodies(prog, PARSE_ROOTS)
    ctx.count("reachable_local_bodies", len(bodies))
    disp = find_dispatchers(prog, parse_bodies)
    ctx.anchor("R12.1", "dispatcher", disp)
    n_sites = 0
    false_blocks_all = {}
    false_spans_all = {}
    for path, (body0, sites0) in sorted(disp.items()):
        # private helpers of the dispatcher (version splitting, the allowed-versions test, ..) inlined at CFG level
        body = role_body(prog, path)
        sites = [(blk, c) for (blk, t, c) in body.calls() if c is not None and c.npath in set(VERSION_PARSERS.values())]
        gates = [g for g in guards_by_call(an, body, CONTAINS)
                 if g[1][3] and is_allowed_versions(g[1][3][0])]
        if len(gates) != 1:
            ctx.ob("R12.1", path, "single-gate", False,
                   "expected exactly one `allowed_versions.contains(..)` branch in the dispatcher, found %d" % len(gates),
                   site=site(body.span))
            continue
        cb, cexpr, sw, tt, ff = gates[0]
        ctx.ob("R12.1", path, "single-gate", True, "gate at %s" % body.line(cb), site=body.line(cb))
        recv = peel(cexpr[3][0])
        base = peel(recv[1])
        ctx.ob("R12.1", path, "gate-receiver-is-self", base == ("arg", 1),
               "receiver = %s" % canon(cexpr[3][0]), site=body.line(cb))
        key = peel(an.expand(cexpr[3][1]))
        okv, why = version_expr_ok(an, prog, key)
        ctx.ob("R12.1", path, "gate-key-is-parsed-version", okv, why, site=body.line(cb))
        vcanon = canon(key)
        # dominance of each parser call
        for blk, c in sites:
            n_sites += 1
            ctx.ob("R12.1", path, "dominated:%s" % c.npath, body.edge_dominates((sw, tt), blk),
                   "call at %s must be reachable only through the true edge of the gate at %s" % (body.line(blk), body.line(cb)),
                   site=body.line(blk))
        # UnknownVersion aggregates
        unk = [(b, i, s) for (b, i, s) in block_aggs(body) if s["rv"]["variant"] == "UnknownVersion"]
        for (b, i, s) in unk:
            n_sites += 1
            ctx.ob("R12.1", path, "dominated:UnknownVersion", body.edge_dominates((sw, tt), b),
                   "UnknownVersion built at %s must be under the gate" % body.line(b), site=body.line(b))
        # false edge: only-false blocks contain no calls, build Err(UnallowedVersion(version))
        # everything executable after the gate's false edge (path-sensitive: a `?` on the helper's Err result only
        # continues along its Break edge); error-propagation plumbing is not a "call"
        fblocks = body.reachable_cp(ff)
        false_blocks_all[path] = fblocks
        false_spans_all[path] = set(s2["span"].get("s") for (b2, i2, s2) in block_aggs(body, fblocks))
        PLUMBING = ("std::ops::Try::branch", "std::ops::FromResidual::from_residual", "std::convert::From::from", "std::convert::Into::into")
        calls_in_false = [(b, c) for (b, t, c) in body.calls() if b in fblocks and not (c is not None and c.nsyn in PLUMBING)]
        ctx.ob("R12.1", path, "false-edge-calls-nothing", not calls_in_false,
               "calls on the disallowed-version path: %s" % [c.id if c else "?" for _, c in calls_in_false],
               site=body.line(ff))
        ua = [(b, i, s) for (b, i, s) in block_aggs(body, fblocks) if s["rv"]["variant"] == "UnallowedVersion"]
        okua = False
        why = "no UnallowedVersion built on the false edge"
        for (b, i, s) in ua:
            pe = peel(an.opx(body, s["rv"]["ops"][0]))
            if canon(pe) == vcanon:
                okua = True
                why = "Err(UnallowedVersion(version)) at %s" % site(s["span"])
            else:
                why = "UnallowedVersion carries %s, not the parsed version" % canon(pe)
        ctx.ob("R12.1", path, "false-edge-returns-UnallowedVersion(version)", okua, why, site=body.line(ff))
        # the false edge must end in return without rejoining parser calls
        rej = [blk for blk, c in sites if blk in fblocks]
        ctx.ob("R12.1", path, "false-edge-reaches-no-parser", not rej,
               "parser call blocks reachable after the false edge: %s" % rej, site=body.line(ff))
        # R12.2 dispatch table
        for v in (5, 7, 9, 10, 0, 1, 6, 8, 11, 65535):
            r = reach_under(an, body, vcanon, v)
            reach_calls = set(c.npath for blk, c in sites if blk in r)
            want = {VERSION_PARSERS[v]} if v in VERSION_PARSERS else set()
            ctx.ob("R12.2", path, "version=%d" % v, reach_calls == want,
                   "under version %d reachable parsers = %s, expected %s" % (v, sorted(reach_calls), sorted(want)),
                   site=body.line(sw))
            if v not in VERSION_PARSERS:
                unk_r = [(b, s) for (b, i, s) in unk if b in r]
                okb = False
                why = "UnknownVersion not built for version %d" % v
                for b, s in unk_r:
                    pe = peel(an.opx(body, s["rv"]["ops"][0]))
                    # to_vec(<input remainder>)
                    srcs = find(pe, lambda n: n[0] == "arg")
                    cp = is_copy_of_slice(pe)
                    tv = cp is not None
                    inner = peel(cp) if tv else None
                    okb = bool(tv and inner is not None and find(inner, lambda n: n[0] == "call" and n[2] is not None and n[2].local) and srcs)
                    why = "UnknownVersion(%s)" % canon(pe)
                ctx.ob("R12.2", path, "unknown-carries-unparsed-bytes:version=%d" % v, okb, why, site=body.line(sw))
    ctx.floor("R12.1", "dispatcher", "gated sites (4 parsers + UnknownVersion)", n_sites, 5)
    # R12.6: what the dispatcher can return as an error
    ctx.rule("R12.6", "a packet that is filtered out produces nothing: the only errors the dispatcher returns are UnallowedVersion (gate false edge), the failure to read the version word itself (Incomplete built from the header parser's error), UnknownVersion and the error of a version parser (both behind the gate, R12.1) - no other check in front of the gate (a length or sanity test on the still unfiltered packet) reports an error for a version outside the allowed set")
    n6 = 0
    for path, (body0, sites0) in sorted(disp.items()):
        body = role_body(prog, path)
        errv = peel(an.expand(an.interp._through("err", an.localx(body, 0))))

        def flat(x, out, depth=0):
            x = peel(x)
            if x[0] == "phi" and depth < 6:
                for m in x[1]:
                    flat(m, out, depth + 1)
            else:
                out.append(x)
        mem = []
        flat(errv, mem)
        vp = set(VERSION_PARSERS.values())
        for m in mem:
            n6 += 1
            ok6, what = False, canon(m)[:140]
            if m[0] == "agg" and str(m[1]).endswith("NetflowParseError"):
                if m[2] in ("UnallowedVersion", "UnknownVersion"):
                    ok6 = True
                elif m[2] == "Incomplete":
                    ok6 = bool(find(m, lambda n: n[0] == "err" and peel(n[1])[0] == "call" and not (peel(n[1])[2] is not None and peel(n[1])[2].npath in vp)))
            elif m[0] == "err" and peel(m[1])[0] == "call" and peel(m[1])[2] is not None and peel(m[1])[2].npath in vp:
                ok6 = True
            elif m[0] == "cycle":
                ok6 = True
            ctx.ob("R12.6", path, "error:%s" % (m[2] if m[0] == "agg" else ("version-parser" if m[0] == "err" else m[0])), ok6,
                   ("the dispatcher returns an error of its own making before / besides the gate: %s" % what) if not ok6 else "accounted for: %s" % what[:100], site=site(body.span))
    ctx.floor("R12.6", "dispatcher", "error values the dispatcher can return", n6, 6)

    # R12.3 single origin
    n_ua = 0
    for b in prog.bodies.values():
        if b.derived:
            continue
        for (blk, i, s) in block_aggs(b):
            if s["rv"]["adt"].endswith("NetflowParseError") and s["rv"]["variant"] == "UnallowedVersion":
                n_ua += 1
                ok = any(s["span"].get("s") in sp for sp in false_spans_all.values())
                ctx.ob("R12.3", b.path, "UnallowedVersion-origin", ok,
                       "UnallowedVersion built at %s %s" % (site(s["span"]), "on the gate's false edge" if ok else "outside the gate's false edge"),
                       site=site(s["span"]))
    ctx.floor("R12.3", "crate", "UnallowedVersion construction sites", n_ua, 1)
    from . import c02
    c02.rule_unallowed_arm(ctx, prog, an, "R12.3")

    # R12.4 read-only configuration
    nchk = 0
    for b in bodies.values():
        for blk, i, s in b.stmts():
            if s["k"] != "assign":
                continue
            nchk += 1
            pl = s["place"]
            projs = pl.get("p", [])
            if any(e["k"] == "field" and e.get("name") == "allowed_versions" for e in projs):
                ctx.ob("R12.4", b.path, "assign-allowed_versions", False, "assignment into allowed_versions at %s" % site(s["span"]), site=site(s["span"]))
            if projs and projs[-1]["k"] == "deref" and pl.get("ty", "").endswith("NetflowParser") and len(projs) == 1:
                ctx.ob("R12.4", b.path, "overwrite-parser", False, "whole NetflowParser overwritten at %s" % site(s["span"]), site=site(s["span"]))
            rv = s["rv"]
            if rv["k"] in ("ref", "rawptr") and rv.get("bk", "mut") == "mut":
                rp = rv["place"].get("p", [])
                if any(e["k"] == "field" and e.get("name") == "allowed_versions" for e in rp):
                    ctx.ob("R12.4", b.path, "mut-borrow-allowed_versions", False, "&mut allowed_versions at %s" % site(s["span"]), site=site(s["span"]))
    ctx.ob("R12.4", "reachable-bodies", "no-writes", True, "%d assignments in %d reachable bodies inspected, none touches allowed_versions mutably (violations, if any, are listed separately)" % (nchk, len(bodies)))
