"""C14 — a truncated packet is reported as an error, never as a shorter valid one (DESIGN §4.14)."""
import re

from .common import *
from .layout import Layouts, term_s
from .cache import CacheAccess
from . import c02, c03

LEVEL = "proof"
EXPLANATION = (
    "V5/V7: every wire atom of the header/record layouts is a plain fixed-width nom number primitive and the records "
    "are produced by count(record, header.count), so any cut inside the packet fails the whole parse; "
    "IPFIX/V9: in the instance call graph every path from parse_bytes to a set/flowset-body interpreter "
    "(and hence to every cache write) passes through map_res(take(announced length − header), ..), i.e. "
    "the announced bytes are demanded before anything is interpreted; repetitions apply streaming-mode "
    "parsers only under nom::combinator::complete; a failing version parser is "
    "mapped to Partial carrying the wrapper's original bytes and parse_bytes' Error element is terminal "
    "and carries the dispatcher's input slice (shared with C02 R2.1/R2.2); counted containers are never "
    "filled by lenient repeaters (many0 / many_m_n)."
)
ASSUMPTIONS = ["nom complete-mode parsers and take(n) return Err on short input; map_res runs its parser before its function; count(n) fails if any element fails (nom contracts)"]

COUNTED = [
    ("static_versions::v5::V5", "flowsets"), ("static_versions::v7::V7", "flowsets"),
    ("variable_versions::v9::Template", "fields"), ("variable_versions::v9::OptionsTemplate", "scope_fields"),
    ("variable_versions::v9::OptionsTemplate", "option_fields"), ("variable_versions::ipfix::OptionsTemplate", "fields"),
]


def all_prims(lay, term, out, depth=0):
    k = term[0]
    if depth > 10:
        return
    if k == "prim":
        out.append(term)
    elif k in ("map", "mapres", "complete", "count", "many0", "many1", "opt"):
        all_prims(lay, term[1], out, depth + 1)
    elif k == "cond":
        all_prims(lay, term[2], out, depth + 1)
    elif k == "struct":
        L = lay.parser_layout(term[2])
        for s in L["steps"]:
            all_prims(lay, s["term"], out, depth + 1)
    elif k == "take":
        out.append(("prim", "take", None, "-", term[2] if len(term) > 2 else "complete"))
    elif k == "closure":
        all_prims(lay, term[2], out, depth + 1)


def run(ctx, env):
    prog = env.prog("default")
    an = An(prog)
    lay = Layouts(prog, an)
    ctx.rule("R14.1", "every wire atom of the V5/V7 header+record layouts is parsed by a plain fixed-width nom number primitive (which fails on short input), never by opt/cond/closure parsers; records are count-delimited (R14.5)")
    ctx.rule("R14.2", "call-graph dominator: every path from parse_bytes to {v9,ipfix}::FlowSetBody::parse and ipfix::FlowSet::parse passes through a map_res(take(..), ..) closure instance; all cache-writing functions lie below it")
    ctx.rule("R14.3", "every repetition combinator instance (many0/many1/…) reachable from parse_bytes applies streaming-mode parsers only under nom::combinator::complete")
    ctx.rule("R14.4", "a failing version parser maps to Partial{remaining: original bytes}; parse_bytes' Error is terminal and carries the dispatcher's input (C02 R2.1/R2.2 re-evaluated here)")
    ctx.rule("R14.6", "the V9 flowset repetition finishes with a success value only when the input is empty or the announced count is reached: leftover bytes are never classified as padding by their content or length (a truncated flowset header must fail the packet)")
    ctx.rule("R14.5", "counted containers (V5/V7 flowsets, V9 template fields, options-template fields) are filled by nom count(..), never by many0/many_m_n")
    root = PARSE_ROOTS[0]
    if not roots_or_fail(ctx, prog, "R14.2", [root]):
        return
    # R14.1
    n = 0
    for ver, S in sorted(c03.STRUCTS.items()):
        for part in ("header", "record"):
            path = c03.parse_be_path(S[part])
            L = lay.parser_layout(path)
            if not L["ok"]:
                ctx.ob("R14.1", path, "layout", False, L["why"])
                continue
            for s in L["steps"]:
                t = s["term"]
                if t[0] == "value":
                    continue
                core = t[1] if t[0] == "map" else t
                n += 1
                ok = core[0] == "prim" and core[2] and core[4] in ("complete", "streaming")
                ctx.ob("R14.1", path, "fixed-width-primitive:%s" % (s["fields"][0] if s["fields"] else "?"), bool(ok),
                       "atom parsed by %s — %s" % (term_s(t)[:100], "a fixed-width nom number primitive (Err/Incomplete on short input in either mode)" if ok else "NOT a plain fixed-width primitive (opt/cond/closure parsers can succeed on short input)"), site=s["site"])
    ctx.floor("R14.1", "crate", "V5/V7 wire atoms", n, 55)
    from . import loopexit
    loopexit.flowset_repetition_rule(ctx, prog, an, "R14.6")
    # R14.7 the packet loop itself: nothing but an empty input or an unallowed version ends it without an Error
    ctx.rule("R14.7", "every branch of the packet loop (parse_bytes, private helpers inlined) is decided by an emptiness test of the current input, an enum discriminant or a drop flag - the contents or length of what is left never end the loop silently, so a truncated tail always reaches a version parser and becomes an Error (shared with C02 R2.4)")
    from . import c02 as _c02
    pb = _c02.entry_body(ctx, prog, "R14.7")
    if pb is not None:
        _c02.branch_conditions_rule(ctx, an, pb, "R14.7")
    # R14.5 (includes V5/V7 count)
    for adt, field in COUNTED:
        path = c03.parse_be_path(adt)
        L = lay.parser_layout(path)
        if not ctx.anchor("R14.5", path, prog.body(path)):
            continue
        st = [s for s in L["steps"] if field in s["fields"]]
        ok = bool(st) and st[0]["term"][0] == "count"
        ctx.ob("R14.5", path, "counted:%s" % field, ok, "%s.%s parsed by %s" % (adt, field, term_s(st[0]["term"])[:100] if st else "?"), site=st[0]["site"] if st else "")
    # R14.2
    from .layout import delimiting_node_pred
    is_take_mapres = delimiting_node_pred(prog, an)

    targets = ["variable_versions::v9::FlowSetBody::parse", "variable_versions::ipfix::FlowSetBody::parse", "variable_versions::ipfix::FlowSet::parse_be"]
    for tp in targets:
        present = [nd for nd in prog.nodes if nd["path"] == tp]
        if not ctx.anchor("R14.2", tp, present):
            continue
        bad = prog.node_dominated_by(root, lambda nd: nd["path"] == tp, is_take_mapres)
        pth = prog.path_to(root, lambda nd: nd["path"] == tp, avoid_pred=is_take_mapres) if bad else None
        ctx.ob("R14.2", tp, "below-take", not bad, "reachable without passing map_res(take(..)): %s" % pth if bad else "every call path passes a map_res(take(..)) closure instance")
    ca = CacheAccess(prog, an)
    # writers through the accepted accessors and anything else that holds a cache mutably (retain / clear / entry /
    # an escaping &mut: R6.1 reports those under C06; here they must at least sit below the length check)
    wb = sorted(set(w["body"].path for w in ca.writes) | set(v[0].path for v in ca.violations if "parse_le" not in v[0].path))
    for p in wb:
        bad = prog.node_dominated_by(root, lambda nd: nd["path"] == p, is_take_mapres)
        ctx.ob("R14.2", p, "cache-write-below-take", not bad, "cache-writing function reachable without a preceding take(..)" if bad else "all cache writes happen below a length-delimited body")
    ctx.floor("R14.2", "crate", "cache-writing functions", len(wb), 2)
    # the take lengths themselves (R2.6)
    from .layout import rule_body_lengths
    rule_body_lengths(ctx, prog, an, "R14.2")
    # R14.3: a streaming-mode parser under a repetition must be wrapped in complete(..), otherwise the
    # clean end of input inside a delimited body becomes Incomplete and the behaviour depends on the tail
    ns = prog.reach(root)
    def is_complete(nd):
        return nd["path"].startswith("nom::combinator::complete") and "{closure#" in nd["path"]
    reps = [i for i in ns if re.match(r"^nom::multi::(many0|many1|many_m_n|many_till|fold_many0|fold_many1)", prog.nodes[i]["path"]) and "{closure#" in prog.nodes[i]["path"]]
    for ri in reps:
        seen = set()
        st = list(prog.nodes[ri]["callees"])
        bad = []
        while st:
            x = st.pop()
            if x in seen:
                continue
            seen.add(x)
            nd = prog.nodes[x]
            if is_complete(nd):
                continue
            if re.match(r"^nom::[a-z_]+::streaming::", nd["path"]):
                bad.append(nd["path"])
                continue
            st.extend(nd["callees"])
        ctx.ob("R14.3", re.sub(r"::<.*", "", prog.nodes[ri]["path"]) + ":" + (prog.nodes[ri]["args"][1] if len(prog.nodes[ri]["args"]) > 1 else "")[:80], "streaming-under-complete", not bad,
               "repetition applies streaming-mode parser(s) without complete(..): %s" % sorted(set(bad))[:3] if bad else "every streaming-mode parser below this repetition is wrapped by complete(..)")
    ctx.floor("R14.3", "instance-graph", "repetition combinator instances", len(reps), 3)
    # R14.4
    saved = ctx.obls
    ctx.obls = []
    c02.wrappers_rule(ctx, prog, an)
    body = role_body(prog, "NetflowParser::parse_bytes")
    sub = ctx.obls
    ctx.obls = saved
    for o in sub:
        if o["rule"] == "R2.2":
            ctx.ob("R14.4", o["func"], o["detail"], o["status"] == "discharged", o["reason"], o["site"])
    if body is not None:
        ppaths = c02.parsing_paths(prog)
        errs = c02.error_sites(body, an)
        pcs = c02.parse_calls(body, ppaths)
        for (b, i, s) in errs:
            after = body.reachable_cp(b)
            bad = [blk for blk, t, c in pcs if blk == b or (blk in after and body.reaches(b, blk))]
            ctx.ob("R14.4", body.path, "error-terminal:%s" % c02.error_kind(an, body, s), not bad, "parse calls after the error: %s" % bad, site=site(s["span"]))
    # V9 propagation of a short flowset (R7.4 shape, role-based)
    from .cache import uses_of_local
    ok = None
    for pth, b in reach_bodies(prog, PARSE_ROOTS).items():
        for blk, t, c in b.calls():
            if c is not None and c.local and c.path.startswith("variable_versions::v9::FlowSet::parse") and not b.path.startswith("variable_versions::v9::FlowSet::parse"):
                uses = uses_of_local(b, t["dest"]["l"])
                this = len(uses) == 1 and uses[0][0] == "callarg"
                ok = this if ok is None else (ok and this)
    ctx.ob("R14.4", "variable_versions::v9::FlowSet::parse", "v9-short-flowset-propagates", bool(ok), "every call of v9::FlowSet::parse propagates its error with `?`")
