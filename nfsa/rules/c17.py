import re
"""C17 — the crate builds and keeps its contract with parse_unknown_fields disabled (DESIGN §4.17)."""
import json
import os
import subprocess

from .common import *
from .. import facts as F

LEVEL = "proof"
EXPLANATION = (
    "rustc type-checks the library with --no-default-features (facts for that configuration can only "
    "be extracted from a crate that compiles); the MIR of every function is identical in both feature "
    "configurations except the one cfg-selected helper, so streams that never reach the helper decode, "
    "re-export and convert identically (differential static analysis, no execution); the helper's only "
    "caller is the FieldDataType::Unknown arm of FieldValue::from_field_type, which propagates its "
    "result with `?`; with the feature off the helper builds no Ok value."
)
ASSUMPTIONS = ["identical MIR implies identical behaviour (same compiler, same flags apart from --cfg feature)"]

HELPER = "variable_versions::data_number::parse_unknown_fields"
CALLER = "variable_versions::data_number::FieldValue::from_field_type"


def strip_spans(x):
    if isinstance(x, dict):
        return {k: strip_spans(v) for k, v in x.items() if k not in ("span", "tspan", "fn_span")}
    if isinstance(x, list):
        return [strip_spans(v) for v in x]
    return x


def find_helper(prog, an):
    """The cfg-selected helper, by role: the crate function called from the FieldDataType::Unknown arm of
    FieldValue::from_field_type (its name is private and free to change)."""
    bb = prog.body(CALLER)
    if bb is None:
        return None
    adt = prog.adts.get("variable_versions::data_number::FieldDataType")
    if adt is None:
        return None
    vi = {v["name"]: v["vi"] for v in adt["variants"]}
    for b2 in sorted(bb.live_blocks()):
        t2 = bb.term(b2)
        if t2["k"] == "switch" and peel(an.op(bb, t2["op"]))[0] == "discr" and find(an.op(bb, t2["op"]), lambda n: n == ("arg", 2)):
            tgt = None
            for v, tb in t2["targets"]:
                if v == vi.get("Unknown"):
                    tgt = tb
            if tgt is None:
                tgt = t2["otherwise"]
            for blk, t, c in bb.calls():
                if c is not None and c.local and c.kind == "Item" and bb.edge_dominates((b2, tgt), blk) and "nom_derive::Parse" not in c.path:
                    return c.path
    return None


def run(ctx, env):
    global HELPER
    ctx.rule("R17.1", "the library type-checks with --no-default-features (nightly front end on every run; stable `cargo check` too in the thorough tier)")
    ctx.rule("R17.2", "the set of function bodies and the MIR of each body are identical in both feature configurations, except the cfg-selected helper parse_unknown_fields")
    ctx.rule("R17.3", "the helper's only caller is FieldValue::from_field_type, from the block selected by the FieldDataType::Unknown discriminant only")
    ctx.rule("R17.4", "with the feature off the helper constructs no Ok value (every return is Err) and from_field_type propagates it with `?`")
    prog = env.prog("default")
    try:
        off = env.prog("nofeat")
    except F.FactsError as e:
        tail = "\n".join(l for l in e.log.splitlines() if "error" in l)[:1500]
        ctx.ob("R17.1", "crate", "compiles:--no-default-features", False,
               "cargo check --lib --no-default-features fails: %s" % tail, extra=e.log[-6000:])
        return
    ctx.ob("R17.1", "crate", "compiles:--no-default-features", True,
           "features=%s type-checks (nightly front end)" % off.facts["config"]["features"])
    ctx.ob("R17.1", "crate", "feature-really-off", "parse_unknown_fields" not in off.facts["config"]["features"] and "parse_unknown_fields" in prog.facts["config"]["features"],
           "default features=%s, off features=%s" % (prog.facts["config"]["features"], off.facts["config"]["features"]))
    HELPER = find_helper(prog, An(prog)) or find_helper(off, An(off)) or HELPER
    # R17.2
    a, b = prog.facts["bodies"], off.facts["bodies"]
    only_a = sorted(set(a) - set(b))
    only_b = sorted(set(b) - set(a))
    for p in only_a:
        ctx.ob("R17.2", p, "only-with-feature", p.split("::{closure")[0] == HELPER, "function exists only with the feature on" + (" (part of the cfg-selected helper)" if p.split("::{closure")[0] == HELPER else ""))
    for p in only_b:
        ctx.ob("R17.2", p, "only-without-feature", p.split("::{closure")[0] == HELPER, "function exists only with the feature off" + (" (part of the cfg-selected helper)" if p.split("::{closure")[0] == HELPER else ""))
    ndiff = 0
    nsame = 0
    for p in sorted(set(a) & set(b)):
        sa = json.dumps(strip_spans(a[p]["mir"]), sort_keys=True)
        sb = json.dumps(strip_spans(b[p]["mir"]), sort_keys=True)
        if sa == sb:
            nsame += 1
            continue
        ndiff += 1
        root = p.split("::{closure")[0]
        ctx.ob("R17.2", p, "mir-differs", root == HELPER,
               "MIR differs between configurations" + (" (the cfg-selected helper — expected)" if root == HELPER else " — behaviour of known-field streams may differ"),
               site=site(a[p].get("span")))
    ctx.ob("R17.2", "crate", "bodies-identical", True, "%d bodies byte-identical MIR (spans ignored), %d differ" % (nsame, ndiff))
    ctx.count("bodies_compared", nsame + ndiff)
    pa = json.dumps(strip_spans(prog.facts.get("promoted", {})), sort_keys=True)
    pb = json.dumps(strip_spans(off.facts.get("promoted", {})), sort_keys=True)
    ctx.ob("R17.2", "crate", "promoted-constants-identical", pa == pb, "promoted constant bodies compared")
    adta = json.dumps(strip_spans(prog.facts["adts"]), sort_keys=True)
    adtb = json.dumps(strip_spans(off.facts["adts"]), sort_keys=True)
    ctx.ob("R17.2", "crate", "types-identical", adta == adtb, "ADT definitions compared (%d)" % len(prog.facts["adts"]))
    ctx.floor("R17.2", "crate", "bodies compared", nsame + ndiff, 400)
    # R17.3 (checked in both configurations)
    for cfgname, pr in (("default", prog), ("nofeat", off)):
        an = An(pr)
        callers = []
        for bb in pr.bodies.values():
            for blk, t, c in bb.calls():
                if c is not None and c.local and c.path == HELPER:
                    callers.append((bb, blk, t))
        ctx.ob("R17.3", HELPER, "single-caller:%s" % cfgname, len(callers) == 1 and callers[0][0].path == CALLER,
               "callers: %s" % [(x[0].path, x[0].line(x[1])) for x in callers])
        if len(callers) != 1:
            continue
        bb, blk, t = callers[0]
        adt = pr.adts.get("variable_versions::data_number::FieldDataType")
        if not ctx.anchor("R17.3", "FieldDataType", adt):
            continue
        vi = {v["name"]: v["vi"] for v in adt["variants"]}
        sws = [(b2, t2) for b2 in sorted(bb.live_blocks()) for t2 in [bb.term(b2)] if t2["k"] == "switch"
               and peel(an.op(bb, t2["op"]))[0] == "discr" and find(an.op(bb, t2["op"]), lambda n: n == ("arg", 2))]
        ok = False
        why = "no switch on the field_type discriminant"
        if sws:
            sb, st = sws[0]
            tgt = None
            for v, tb in st["targets"]:
                if v == vi.get("Unknown"):
                    tgt = tb
            if tgt is None:
                tgt = st["otherwise"]
            others = [n for n, i in vi.items() if n != "Unknown" and any(v == i and tb == tgt for v, tb in st["targets"])]
            dom = bb.edge_dominates((sb, tgt), blk)
            ok = dom and not others
            why = "helper call at %s %s the Unknown arm only%s" % (bb.line(blk), "is under" if dom else "is NOT confined to", (", shared with " + str(others)) if others else "")
        ctx.ob("R17.3", CALLER, "only-from-Unknown-arm:%s" % cfgname, ok, why, site=bb.line(blk))
        # propagation with `?`
        from .cache import uses_of_local
        from ..mir import Callee
        uses = uses_of_local(bb, t["dest"]["l"])
        okp = len(uses) == 1 and uses[0][0] == "callarg" and Callee(uses[0][2][0]["func"]["fn"]).nsyn == "std::ops::Try::branch"
        if t["dest"]["l"] == 0 and not t["dest"].get("p"):
            okp = True       # the arm's value IS the function's result: returned unchanged
        ctx.ob("R17.4", CALLER, "propagates-helper-result:%s" % cfgname, okp, "helper result consumed by: %s" % [u[0] for u in uses], site=bb.line(blk))
    # R17.4
    hb = off.body(HELPER)
    if ctx.anchor("R17.4", HELPER + " (feature off)", hb):
        ano = An(off)
        # the values `_0` receives in the blocks that can execute (a `cfg!(feature = ..)` test is a constant
        # condition: the branch it rules out is dead code in this configuration)
        live = hb.reachable_cp(0)
        sl = ano.slicer(hb)
        members = []
        for d in sl.defs.get(0, []):
            if d[1] not in live:
                continue
            if d[0] == "assign":
                members.append(ano.expand(sl.rvalue(d[3], d[1])))
            elif d[0] == "call":
                members.append(ano.expand(sl.call_expr(d[1], d[2])))
        flat = []
        for m in members:
            m = peel(m)
            flat.extend(m[1] if m[0] == "phi" else [m])
        members = flat
        kinds = []
        for m in members:
            m = peel(m)
            if m[0] == "agg" and m[1].endswith("result::Result"):
                kinds.append(m[2])
            elif m[0] == "call" and m[2] is not None and m[2].nsyn == "std::ops::FromResidual::from_residual":
                kinds.append("Err")
            else:
                kinds.append("?" + canon(m)[:80])
        ctx.ob("R17.4", HELPER, "feature-off-never-Ok", bool(kinds) and all(k == "Err" for k in kinds),
               "return value of the feature-off helper (private helpers inlined): %s" % kinds, site=site(hb.span))
    # R17.5: where the helper's failure ends up.  In V9 an undecodable record ends its flowset (the rest is padding) and
    # the flowset still parses; a check that turns "nothing decoded, everything padding" into an error of the data
    # flowset would fail the packet in this build only - and lose the known-only templates that follow in the same
    # packet, so later known-only data decodes in the default build but not here.
    ctx.rule("R17.5", "with the feature off an undecodable V9 record only ends its flowset: the V9 data decoders (Data / OptionsData::parse_be and their closures) build no error of their own - every Err they return is a propagated sub-parser error - so what the record loop leaves as padding never fails the packet")
    n5 = 0
    for dec in ("variable_versions::v9::Data", "variable_versions::v9::OptionsData"):
        for pth, bb in sorted(off.bodies.items()):
            if not (pth == dec + "::parse_be" or pth.startswith(dec + "::parse_be::{closure")):
                continue
            n5 += 1
            errs = [(b0, s0) for (b0, i0, s0) in block_aggs(bb) if s0["rv"]["adt"].endswith("result::Result") and s0["rv"]["variant"] == "Err"]
            errs += [(b0, {"span": bb.blocks[b0]["tspan"]}) for b0, t0, c0 in bb.calls()
                     if c0 is not None and re.search(r"^nom::combinator::(verify|map_res|map_opt|fail|not|all_consuming|eof)(::|$)", c0.npath)]
            ctx.ob("R17.5", pth, "no-error-of-its-own", not errs,
                   ("%s builds an Err itself at %s (a Verify / ErrorIf on what was decoded): with the feature off a flowset whose records cannot be decoded then fails the whole packet" % (pth, [site(s0["span"]) for _, s0 in errs][:2]))
                   if errs else "only propagated errors", site=site(bb.span))
    ctx.floor("R17.5", "v9", "V9 data decoder bodies", n5, 2)
    # R17.7: the refusal reaches the record level untouched
    ctx.rule("R17.7", "with the feature off the refusal of an unknown field cannot be turned back into a decoded value: every caller of FieldValue::from_field_type, and every caller of those per-field decoders, only returns the result or propagates it with `?` - none inspects the error and substitutes a value (a raw-bytes fallback for `any field that did not decode` would report unknown fields as data in this build)")
    FFT17 = "variable_versions::data_number::FieldValue::from_field_type"
    from .cache import uses_of_local as _uses17
    level = {FFT17}
    n7 = 0
    for depth7 in (1, 2):
        nxt = set()
        for pth, bb in sorted(off.bodies.items()):
            if bb.derived or "parse_le" in pth:
                continue
            for blk, t, c in bb.calls():
                if c is None or not c.local or c.path not in level:
                    continue
                n7 += 1
                root7 = re.sub(r"(::\{closure#\d+\})+$", "", pth)
                nxt.add(root7)
                if pth != root7:
                    nxt.add(pth)
                if t["dest"]["l"] == 0 and not t["dest"].get("p"):
                    ctx.ob("R17.7", pth, "refusal-propagated:%s" % c.path.rsplit("::", 1)[1], True, "tail call: the result is returned as it is", site=bb.line(blk))
                    continue
                bad7 = []
                for kind, ub, d in _uses17(bb, t["dest"]["l"]):
                    if kind == "callarg":
                        tt, ai = d
                        fn = tt["func"].get("fn") if tt["func"].get("k") == "const" else None
                        cc = Callee(fn) if fn else None
                        if cc is not None and cc.nsyn == "std::ops::Try::branch":
                            continue
                        bad7.append("passed to %s" % (cc.npath if cc else "?"))
                    elif kind == "assign" and d["place"]["l"] == 0 and not d["place"].get("p") and d["rv"]["k"] == "use":
                        continue
                    else:
                        bad7.append("%s at %s" % (kind, bb.line(ub)))
                ctx.ob("R17.7", pth, "refusal-propagated:%s" % c.path.rsplit("::", 1)[1], not bad7,
                       ("the result of %s is inspected by its caller (%s): its Err - with the feature off, the refusal of an unknown field - can be replaced by a value" % (c.path.rsplit("::", 1)[1], bad7[0])) if bad7
                       else "only `?` / returned unchanged", site=bb.line(blk))
        level = nxt - {FFT17}
    ctx.floor("R17.7", "crate", "call sites of the per-field decoders", n7, 3)
    # R17.8: no side door next to the gate
    ctx.rule("R17.8", "with the feature off a per-field decoder (a direct caller of FieldValue::from_field_type) builds a FieldValue itself only for enterprise-specific fields: every FieldValue it constructs sits on the `enterprise_number` is-Some edge - a branch selected by anything else (the announced length, the data type) hands out raw bytes for field types the library does not know, which this build must refuse")
    an8 = An(off)
    n8 = 0
    for pth, bb in sorted(off.bodies.items()):
        if bb.derived or "parse_le" in pth or pth == FFT17 or pth.startswith("variable_versions::data_number::"):
            continue
        if not any(c is not None and c.local and c.path == FFT17 for _, _, c in bb.calls()):
            continue
        n8 += 1
        ent_edges = []
        for b2 in sorted(bb.live_blocks()):
            t2 = bb.term(b2)
            if t2["k"] != "switch":
                continue
            try:
                ex = an8.op(bb, t2["op"])
            except RecursionError:
                continue
            if not find(ex, lambda n: n[0] == "field" and n[2] == "enterprise_number"):
                continue
            neg = bool(find(ex, lambda n: n[0] == "call" and n[2] is not None and n[2].nsyn == "std::option::Option::is_none"))
            zero = [tb for v, tb in t2["targets"] if v == 0]
            nonzero = [tb for v, tb in t2["targets"] if v != 0] or [t2["otherwise"]]
            for tb in (zero if neg else nonzero):
                if tb is not None:
                    ent_edges.append((b2, tb))
        built = [(blk, s0) for blk, i0, s0 in block_aggs(bb) if s0["rv"]["adt"].endswith("data_number::FieldValue")]
        for blk, s0 in built:
            ok8 = any(bb.edge_dominates(e8, blk) or e8[1] == blk for e8 in ent_edges)
            ctx.ob("R17.8", pth, "own-value-only-for-enterprise:%s" % s0["rv"].get("variant"), ok8,
                   "FieldValue::%s built on the enterprise_number-is-Some edge" % s0["rv"].get("variant") if ok8 else
                   "FieldValue::%s is built by the per-field decoder itself on a path not selected by `enterprise_number` being Some: a field whose type the library does not know can take it and is reported as data although parse_unknown_fields is off" % s0["rv"].get("variant"),
                   site=site(s0["span"]))
        if not built:
            ctx.ob("R17.8", pth, "own-value-only-for-enterprise:none", True, "the decoder builds no FieldValue of its own", site=site(bb.span))
    ctx.floor("R17.8", "crate", "per-field decoders calling from_field_type", n8, 2)
    # R17.6: with the feature off decodes fail part-way far more often (every unknown field), so storage that survives a
    # failed decode is what makes a later known-only packet differ from the default build
    ctx.rule("R17.6", "the records a decoder reports are made by that decode alone: every element added to the reported collection derives from the input slice, and the collection itself is created by the call - not the drained / taken content of storage kept in the parser object (a reusable buffer that a failed decode leaves half-filled would surface in a later packet); evaluated on the feature-off program: with the feature off decodes fail part-way at every unknown field, so such storage is what makes a later known-only packet differ from the default build (shared with C02 R2.10)")
    from . import consume as _consume17
    _consume17.foreign_rule(ctx, off, An(off), "R17.6", lambda b: b.path.startswith("variable_versions::"), floor=0)


def run_thorough(ctx, env):
    """Also type-check with the repository's own (stable) toolchain."""
    import tempfile
    import shutil
    t = tempfile.mkdtemp(prefix="nfsa_c17_")
    try:
        envv = dict(os.environ, CARGO_TARGET_DIR=t, CARGO_NET_OFFLINE="true")
        r = subprocess.run(["cargo", "check", "--offline", "--lib", "--no-default-features"], cwd=F.REPO, env=envv,
                           stdout=subprocess.PIPE, stderr=subprocess.STDOUT, text=True)
        ctx.ob("R17.1", "crate", "compiles:stable:--no-default-features", r.returncode == 0,
               "stable cargo check --no-default-features exit %d: %s" % (r.returncode, r.stdout[-600:] if r.returncode else "ok"))
    finally:
        shutil.rmtree(t, ignore_errors=True)
