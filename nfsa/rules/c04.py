"""C04 — V9 flowsets decode record by record exactly as the governing template says (DESIGN §4.4)."""
import re

from .common import *
from .layout import Layouts, term_s, rule_body_lengths, prim_of
from .cache import uses_of_local

LEVEL = "other"
EXPLANATION = (
    "Structural clauses of V9 decoding, decided from MIR: flowset body = length−4 (saturating); flowset "
    "id 0/1 dispatch to the template / options-template parsers and nothing else does; every parsed "
    "*_count / *_length field delimits a repetition, a take or a decoder (template field_count → "
    "count(..), scope/option lengths → count(len/4) with 4 = wire size of a field specifier); record "
    "count = input.len() div total template size with no additive term, total size = saturating sum over "
    "all fields, the record loop runs 0..record_count, the rest becomes padding; fields are decoded in "
    "template order with a threaded cursor and stored under their enumerate index; the width table of "
    "DataNumber::parse maps (L, signed) to a primitive of wire width L and the like-named variant without "
    "a narrowing cast; from_field_type consumes field_length bytes for variable kinds and the type's own "
    "size for fixed kinds; the number→field lookup tables are self-consistent (arm n ↦ variant with "
    "discriminant n); value-partial enum parsers are not propagated with `?`; every data decoder iterates "
    "records; no arithmetic, clamping or narrowing is applied to a decoded value on its way into the "
    "FieldValue and each time kind takes its unit from the Duration constructor of that unit (R4.11). "
    "Value-level agreement with RFC 3954 over all streams is not decided."
)
ASSUMPTIONS = ["nom primitives consume exactly their width and decode big-endian (nom contract)"]

V9 = "variable_versions::v9::"
DN_PARSE = "variable_versions::data_number::DataNumber::parse"
FFT = "variable_versions::data_number::FieldValue::from_field_type"
EXPECTED_DN = {(1, False): (1, "U8"), (2, False): (2, "U16"), (3, False): (3, "U24"), (4, False): (4, "U32"), (8, False): (8, "U64"), (16, False): (16, "U128"),
               (1, True): (1, "I32"), (2, True): (2, "I32"), (3, True): (3, "I24"), (4, True): (4, "I32"), (8, True): (8, "I32"), (16, True): (16, "I32")}
PAYLOAD_BITS = {"U8": 8, "U16": 16, "U24": 32, "I24": 32, "U32": 32, "U64": 64, "U128": 128, "I32": 32}


def pe_path(adt):
    return "<%s as nom_derive::Parse<&'nom [u8]>>::parse_be" % adt


def dn_arm(an, prog, b, L, signed):
    """Under (field_length=L, signed) -> (primitive width, variant, narrowing?, endian) or None if the arm fails.
    Recognises `Ok(P(i)?).map(|(i, j)| (i, Self::V(j)))`, `P(i).map(closure)`, nom `map(P, Self::V)(i)` and
    `let (i, j) = P(i)?; Ok((i, Self::V(j)))` forms, directly or in a private helper the arm delegates to (the
    assumed argument values are carried into the helper)."""
    assume = {canon(("arg", 2)): L, canon(("arg", 3)): 1 if signed else 0}
    st = {"prims": [], "variant": None, "narrowing": None}
    _dn_scan(an, prog, b, assume, st, 0)
    prims = st["prims"]
    if not prims and st["variant"] is None:
        return None
    return (prims[0][2] if prims else None, st["variant"], st["narrowing"], prims[0][3] if prims else None)


def _dn_scan(an, prog, b, assume, st, depth, tmap=None):
    r = reach_assuming(an, b, assume)
    tmap = tmap or {}

    def from_aggs(cb, blocks=None):
        for (bb, i, s) in block_aggs(cb, blocks):
            if s["rv"]["adt"].endswith("::DataNumber"):
                st["variant"] = s["rv"]["variant"]
                if not s["rv"]["ops"]:
                    st["narrowing"] = False
                    continue
                pe = peel(an.op(cb, s["rv"]["ops"][0]), casts=False)
                if pe[0] == "cast" and pe[1] == "IntToInt":
                    fb = int(re.sub(r"\D", "", pe[4] or "") or 0)
                    tb_ = int(re.sub(r"\D", "", pe[3]) or 0)
                    st["narrowing"] = fb > tb_
                else:
                    st["narrowing"] = False

    from_aggs(b, r)
    for blk, t, c in b.calls():
        if blk not in r or c is None:
            continue
        p = prim_of(c)
        if not p and tmap and c.syn_args and c.syn_args[0] in tmap and c.nsyn.startswith("nom_derive::Parse::"):
            # `T::parse(i)` inside a helper generic over the primitive type, T := the call site's type argument
            from .layout import PRIM_W
            tn = tmap[c.syn_args[0]]
            if tn in PRIM_W:
                p = ("prim", "<%s as Parse>::%s" % (tn, c.nsyn.rsplit("::", 1)[1]), PRIM_W[tn], "le" if c.nsyn.endswith("parse_le") else "be", "complete")
        if p:
            st["prims"].append(p)
            continue
        fn_values = c.nsyn in ("std::result::Result::map",) or c.npath in ("nom::combinator::map",)
        generic_helper = c.local and c.kind == "Item" and depth < 2 and "nom_derive::Parse" not in c.path
        if fn_values or generic_helper:
            # function values handed over: the closure / constructor that wraps the parsed number
            for a in t["args"]:
                e = peel(an.op(b, a), identity=(), casts=False)
                while e[0] == "cast" and str(e[1]).startswith("PointerCoercion"):
                    e = peel(e[2], identity=(), casts=False)        # `u8::from_be_bytes as fn(..)`
                if e[0] == "closure":
                    cb = prog.body(e[1])
                    if cb is not None:
                        from_aggs(cb)
                elif e[0] == "constfn":
                    pp = prim_of(e[1])
                    if pp:
                        st["prims"].append(pp)
                    m = re.match(r"^variable_versions::data_number::DataNumber::(\w+)$", e[1].path)
                    if m:
                        st["variant"] = m.group(1)
                        st["narrowing"] = False
        if generic_helper:
            hb = prog.bodies.get(c.path)
            if hb is None or hb.derived:
                continue
            sub = {}
            for k, a in enumerate(t["args"]):
                e = peel(an.op(b, a))
                cv = assume.get(canon(e))
                if cv is None:
                    ce = const_eval(e)
                    if ce is not None and len(ce) == 1 and not isinstance(next(iter(ce)), tuple):
                        cv = next(iter(ce))
                if cv is not None:
                    sub[canon(("arg", k + 1))] = cv
            gens = hb.j.get("generics") or []
            tm = dict(zip(gens, c.args)) if gens and c.args and len(gens) == len(c.args) else {}
            _dn_scan(an, prog, hb, sub, st, depth + 1, tm)


def sum_of_field(an, e, container, elem):
    """e == Σ x.<elem> over `<..>.<container>.iter()`: `fold(0, |acc, x| acc.saturating_add(x.elem))`,
    `map(|x| x.elem).fold(0, uN::saturating_add)` or `map(|x| x.elem).sum()`."""
    e = peel(e, widen=True)
    if not (e[0] == "call" and e[2] is not None):
        return False, None
    if e[2].local and e[2].kind == "Item" and len(e[3]) == 1:
        # a crate helper (`fn record_size(&self) -> u16`) computing the sum with an explicit loop:
        #   acc = 0; for x in &self.<container> { acc = acc.saturating_add(x.<elem>) }; acc
        hb = an.prog.bodies.get(e[2].path)
        if hb is not None and hb.sccs():
            r = peel(an.local(hb, 0))
            members = r[1] if r[0] == "phi" else [r]
            inits = [m for m in members if const_eval(m) == {0}]
            steps = [peel(m) for m in members if const_eval(m) != {0}]
            ok = len(inits) >= 1 and len(steps) == 1
            if ok:
                st = steps[0]
                ok = st[0] == "call" and st[2] is not None and st[2].npath.endswith("::saturating_add") and peel(st[3][0])[0] == "cycle"
                if ok:
                    el = peel(st[3][1])
                    ok = el[0] == "field" and el[2] == elem
                    src = peel(el[1]) if ok else None
                    ok = bool(ok and src[0] == "some" and peel(src[1])[0] == "call" and peel(src[1])[2] is not None and peel(src[1])[2].nsyn == "std::iter::Iterator::next")
                    if ok:
                        itx = peel(peel(src[1])[3][0], identity=())
                        while itx[0] == "call" and itx[2] is not None and (itx[2].nsyn == "std::iter::IntoIterator::into_iter" or itx[2].npath.endswith("<impl [T]>::iter")):
                            itx = peel(itx[3][0], identity=())
                        ok = itx[0] == "field" and itx[2] == container and peel(itx[1]) == ("arg", 1)
            # no iteration may skip the accumulation: inside the loop every block has one in-loop successor
            for comp in hb.sccs():
                cs = set(comp)
                for blk in comp:
                    if len([x for x in set(hb.succs(blk)) if x in cs]) > 1:
                        ok = False
            return bool(ok), "loop in %s: %s" % (e[2].path, canon(r)[:160])

    def elem_of(x, sym):
        x = peel(x)
        return x[0] == "field" and x[2] == elem and peel(x[1]) == sym

    def source(it):
        """-> (iter-over-container?, projected-already?)"""
        it = peel(it, identity=())
        if it[0] == "call" and it[2] is not None and it[2].npath.endswith("<impl [T]>::iter"):
            r = peel(it[3][0])
            return (r[0] == "field" and r[2] == container), False
        if it[0] == "call" and it[2] is not None and it[2].nsyn == "std::iter::Iterator::map" and len(it[3]) == 2:
            okc, proj = source(it[3][0])
            clo = peel(it[3][1], identity=(), casts=False)
            if okc and not proj and clo[0] == "closure":
                res = an.interp.apply(clo, [("sym", "item")])
                return elem_of(res, ("sym", "item")), True
            return False, False
        return False, False

    if e[2].nsyn == "std::iter::Iterator::fold" and len(e[3]) == 3:
        okc, proj = source(e[3][0])
        init = const_eval(e[3][1])
        f = peel(e[3][2], identity=(), casts=False)
        step_ok = False
        desc = canon(f)[:80]
        if f[0] == "closure":
            res = peel(an.interp.apply(f, [("sym", "acc"), ("sym", "item")]))
            desc = canon(res)[:120]
            if res[0] == "call" and res[2] is not None and res[2].npath.endswith("::saturating_add") and canon(peel(res[3][0])) == canon(("sym", "acc")):
                step_ok = (peel(res[3][1]) == ("sym", "item")) if proj else elem_of(res[3][1], ("sym", "item"))
        elif f[0] == "constfn" and proj:
            step_ok = f[1].npath.endswith("::saturating_add")
        return bool(okc and init == {0} and step_ok), "fold(%s, %s, %s)" % (canon(peel(e[3][0]))[:60], init, desc)
    if e[2].nsyn == "std::iter::Iterator::sum" and e[3]:
        okc, proj = source(e[3][0])
        return bool(okc and proj), "sum(%s)" % canon(peel(e[3][0]))[:100]
    return False, None


def datanumber_table(an, prog):
    b = prog.body(DN_PARSE)
    out = {}
    if b is None:
        return out
    for L in (1, 2, 3, 4, 8, 16):
        for sg in (False, True):
            r = dn_arm(an, prog, b, L, sg)
            if r:
                out[(L, sg)] = r[1]
    return out


def lookup_table_rule(ctx, an, prog, rule, enum_path, from_path, catch):
    adt = prog.adts.get(enum_path)
    fb = prog.body(from_path)
    if not (ctx.anchor(rule, enum_path, adt) and ctx.anchor(rule, from_path, fb)):
        return 0
    discr = {v["name"]: int(v["discr"]) for v in adt["variants"]}
    st = switch_table(an, fb, lambda e: e == ("arg", 1))
    simple = st is not None and st[2] is not None and all(a is not None for a in st[1].values())
    if not simple:
        return lookup_table_by_evaluation(ctx, an, rule, fb, from_path, discr, catch)
    blk, table, oth, _ = st
    n = 0
    for v, arm in sorted(table.items()):
        n += 1
        nm = arm[2] if arm and arm[0] == "variant" else None
        ok = nm is not None and (discr.get(nm) == v or nm in catch)
        ctx.ob(rule, from_path, "arm:%d" % v, ok, "%d -> %s (declared discriminant %s)" % (v, nm, discr.get(nm)), site=fb.line(arm[-1]) if arm else "")
    on = oth[2] if oth and oth[0] == "variant" else None
    ctx.ob(rule, from_path, "otherwise", on in catch, "unlisted numbers -> %s" % on)
    # every named variant is reachable from its own number
    for nm, d in sorted(discr.items(), key=lambda x: x[1]):
        if nm in catch:
            continue
        arm = table.get(d)
        ok = arm is not None and arm[0] == "variant" and arm[2] == nm
        if not ok:
            ctx.ob(rule, from_path, "variant-reachable:%s" % nm, False, "variant %s (=%d) is never produced for its own number" % (nm, d))
    return n


def lookup_table_by_evaluation(ctx, an, rule, fb, from_path, discr, catch):
    """The match is not one plain switch (ranges, or-patterns, guards on constants compile to comparisons): evaluate
    the function path-sensitively at every value where its behaviour can change - the constants it compares with
    (and their neighbours), every declared discriminant, 0 and the maximum - which is exact for a function whose
    branches only compare the argument with constants.  Same obligations (and keys) as the switch-table form."""
    pts = set([0, 65535]) | set(discr.values())
    for blk in sorted(fb.live_blocks()):
        t = fb.term(blk)
        if t["k"] == "switch":
            pts |= set(int(v) for v, _ in t["targets"] if isinstance(v, int))
        for st in fb.blocks[blk]["stmts"]:
            if st["k"] == "assign" and st["rv"]["k"] == "binop":
                for o in (st["rv"]["a"], st["rv"]["b"]):
                    if o.get("k") == "const" and isinstance(o.get("val"), int):
                        pts.add(o["val"])
    pts = sorted(set(x for p in pts for x in (p - 1, p, p + 1) if 0 <= x <= 65535))
    byd = {d: nm for nm, d in discr.items()}
    n = 0
    listed = set()
    unlisted_bad = []
    for v in pts:
        r = result_for_value(an, fb, v)
        nm = r[2] if r and r[0] == "variant" else None
        if v in byd and byd[v] not in catch:
            n += 1
            ok = nm is not None and (nm == byd[v] or nm in catch)
            if nm == byd[v]:
                listed.add(nm)
            if nm is not None and nm not in catch:
                ctx.ob(rule, from_path, "arm:%d" % v, discr.get(nm) == v, "%d -> %s (declared discriminant %s)" % (v, nm, discr.get(nm)))
            elif nm is None:
                ctx.ob(rule, from_path, "arm:%d" % v, False, "%d -> result not determined by comparisons with constants (unrecognised shape)" % v)
        else:
            if nm is None or (nm not in catch and discr.get(nm) != v):
                unlisted_bad.append((v, nm))
            elif nm not in catch:
                n += 1
                ctx.ob(rule, from_path, "arm:%d" % v, discr.get(nm) == v, "%d -> %s (declared discriminant %s)" % (v, nm, discr.get(nm)))
    ctx.ob(rule, from_path, "otherwise", not unlisted_bad, "unlisted numbers -> %s" % (("a catch-all %s at every probed value" % sorted(catch)) if not unlisted_bad else unlisted_bad[:5]))
    for nm, d in sorted(discr.items(), key=lambda x: x[1]):
        if nm in catch or nm in listed:
            continue
        ctx.ob(rule, from_path, "variant-reachable:%s" % nm, False, "variant %s (=%d) is never produced for its own number" % (nm, d))
    return n


def datatype_scrutinee_rule(ctx, an, prog, rule, path, enum_path):
    """From<Field> for FieldDataType switches on `d as u16` (the discriminant), so its arm numbers are wire numbers."""
    b = prog.impl_fn("variable_versions::data_number::FieldDataType", "From<%s>" % enum_path, "from")
    if not ctx.anchor(rule, path, b):
        return
    ok = False
    why = "no switch"
    for blk in sorted(b.live_blocks()):
        t = b.term(blk)
        if t["k"] == "switch":
            e = an.op(b, t["op"])
            core = peel(e, casts=False)
            # `match d as u16 { 1 => .. }` or `match d { Field::A => .. }`: either way MIR switches on the declared
            # discriminant value of the argument, i.e. on the wire number
            if core[0] == "binop" and core[1] in ("Le", "Lt", "Ge", "Gt", "Eq", "Ne"):
                # range / or-patterns (`1..=47 => ..`) compare the same scrutinee against constants
                sides = [peel(x, casts=False) for x in (core[2], core[3])]
                nonconst = [x for x in sides if peel(x)[0] != "const"]
                if len(nonconst) == 1:
                    core = nonconst[0]
            ok = (core[0] == "cast" and peel(core[2])[0] == "discr" and find(core, lambda n: n == ("arg", 1))) or \
                (core[0] == "discr" and peel(core[1]) == ("arg", 1))
            why = "scrutinee = %s" % canon(core)[:120]
            break
    ctx.ob(rule, path, "scrutinee-is-discriminant", bool(ok), why)


FN_CALL_NAMES = ("std::ops::FnMut::call_mut", "core::ops::FnMut::call_mut", "std::ops::FnOnce::call_once", "core::ops::FnOnce::call_once",
                 "std::ops::Fn::call", "core::ops::Fn::call")


def _term_consumers(an, prog, lay, term, cn, depth):
    """Wire consumers of a parser term (layout.py): primitives and takes below map / map_res / complete wrappers;
    a crate parser function contributes what its own body consumes."""
    k = term[0]
    if k == "prim":
        return [("prim", term[2], term[3], term[1])]
    if k == "take":
        return [("take", cn(term[1]), "nom::bytes::%s::take" % term[2])]
    if k in ("map", "mapres", "complete", "opt"):
        return _term_consumers(an, prog, lay, term[1], cn, depth)
    if k == "closure":
        return _term_consumers(an, prog, lay, term[2], cn, depth)
    if k == "struct" and depth < 3:
        hb = prog.bodies.get(term[2])
        if hb is not None and "nom_derive::Parse" in term[2]:
            return [("enum-parser", term[2], -1, -1)]
        if hb is not None and not hb.derived:
            return [x for x in _consumers(an, prog, hb, lambda x: True, None, depth + 1)]
    return [("unknown-term", str(k))]


def _consumers(an, prog, body, blocks_pred, argmap, depth=0):
    """Wire-consuming calls made in the selected blocks of `body` (recursing into private helpers, with the
    helper's parameters rewritten to the caller's argument expressions)."""
    cons = []

    def cn(e):
        e = peel(e, widen=True)
        if argmap:
            e = peel(an.simp(an.interp.subst(e, argmap)), widen=True)
        return canon(e)

    # combinator values applied to the cursor (`map(be_u32, ..)(i)`, `map(P::parse_field, ..)(i)`): their wire
    # consumers come from the parser term; the blocks that merely construct the combinator are not counted again
    applied = {}
    built_in = set()
    for cb, tt, c in body.calls():
        if c is None or not blocks_pred(cb) or c.nsyn not in FN_CALL_NAMES or not tt["args"]:
            continue
        from .layout import Layouts
        lay = Layouts(prog, an)
        cexpr = peel(an.simp(an.slicer(body).call_expr(cb, tt)))
        stp = lay.step_of_call(cexpr)
        if stp is None or stp[0][0] in ("take", "prim", "unknown", "fn"):
            continue
        applied[cb] = _term_consumers(an, prog, lay, stp[0], cn, depth)
        for n in find(cexpr[3][0], lambda n: n[0] == "call"):
            built_in.add(n[1])
    for cb, tt, c in body.calls():
        if c is None or not blocks_pred(cb):
            continue
        if cb in applied:
            cons.extend(applied[cb])
            continue
        if cb in built_in:
            continue
        p = prim_of(c)
        if p:
            cons.append(("prim", p[2], p[3], c.npath))
        elif c.npath in ("nom::bytes::complete::take", "nom::bytes::streaming::take"):
            cons.append(("take", cn(an.op(body, tt["args"][0])), c.npath))
        elif re.search(r"<impl \[T\]>::(split_first_chunk|split_at|split_at_checked)$", c.npath):
            # the input is cut by hand: `i.split_first_chunk::<6>()`, `i.split_at(n)`
            if c.npath.endswith("split_first_chunk") and len(c.args or []) >= 2 and str(c.args[1]).isdigit():
                cons.append(("take", "%s_usize" % c.args[1], c.npath))
            elif len(tt["args"]) == 2:
                cons.append(("take", cn(an.op(body, tt["args"][1])), c.npath))
        elif c.local and c.path == DN_PARSE:
            sg = an.op(body, tt["args"][2])
            if argmap:
                sg = an.simp(an.interp.subst(sg, argmap))
            cons.append(("datanumber", cn(an.op(body, tt["args"][1])), const_eval(sg), sg))
        elif c.local and "nom_derive::Parse" in c.path:
            cons.append(("enum-parser", c.path, tt["dest"]["l"], cb))
        elif c.local and c.path in prog.bodies and depth < 3 and not prog.bodies[c.path].derived and c.kind == "Item" and not c.path.startswith("<"):
            hb = prog.bodies[c.path]
            sub_map = {i + 1: (an.simp(an.interp.subst(an.op(body, a), argmap)) if argmap else an.op(body, a)) for i, a in enumerate(tt["args"])}
            sub = _consumers(an, prog, hb, lambda x: True, sub_map, depth + 1)
            cons.append(("helper", c.path, sub, cn(an.op(body, tt["args"][-1]))))
    return cons


def _resolve_signed(an, prog, c, arm_variant, adt):
    """`signed` computed from the field type inside a shared arm (`A | B => parse(.., field_type == B)`): under the
    arm's own variant the comparison is a constant."""
    if c[0] == "helper":
        return (c[0], c[1], [_resolve_signed(an, prog, x, arm_variant, adt) for x in c[2]]) + tuple(c[3:])
    if c[0] != "datanumber" or c[2] is not None or len(c) < 4:
        return c
    e = peel(c[3])
    if e[0] == "call" and e[2] is not None and e[2].nsyn in ("std::cmp::PartialEq::eq", "std::cmp::PartialEq::ne") and len(e[3]) == 2:
        a, b2 = peel(e[3][0]), peel(e[3][1])
        if b2 == ("arg", 2):
            a, b2 = b2, a
        if a == ("arg", 2) and b2[0] == "agg" and b2[1].endswith("::FieldDataType") and not b2[3]:
            hb = prog.bodies.get(e[2].path)
            if hb is not None and hb.derived:
                eq = (b2[2] == arm_variant)
                return (c[0], c[1], {1 if (eq == e[2].nsyn.endswith("::eq")) else 0}, c[3])
    return c


def fft_arms(an, prog):
    """FieldDataType variant -> wire consumers of from_field_type's arm (helpers flattened; the Unknown arm's
    helper is kept as ("unknown-helper", length expr, helper path))."""
    b = prog.body(FFT)
    out = {}
    if b is None:
        return out, None
    adt = prog.adts["variable_versions::data_number::FieldDataType"]
    for blk in sorted(b.live_blocks()):
        t = b.term(blk)
        if t["k"] == "switch" and peel(an.op(b, t["op"]))[0] == "discr" and find(an.op(b, t["op"]), lambda n: n == ("arg", 2)):
            for v, tb in t["targets"]:
                name = [x["name"] for x in adt["variants"] if x["vi"] == v]
                if not name:
                    continue
                raw = _consumers(an, prog, b, lambda x, blk=blk, tb=tb: b.edge_dominates((blk, tb), x), None)
                cons = []
                raw = [_resolve_signed(an, prog, c, name[0], adt) for c in raw]
                for c in raw:
                    if c[0] == "helper":
                        if name[0] == "Unknown":
                            cons.append(("unknown-helper", c[3], c[1]))
                        else:
                            cons.extend(x for x in c[2] if x[0] != "helper")
                    else:
                        cons.append(c)
                out[name[0]] = cons
            return out, b
    return out, b


def dn_payload_types(prog):
    """DataNumber variant -> payload type, read from the enum definition."""
    adt = prog.adts.get("variable_versions::data_number::DataNumber") or {}
    return {v["name"]: (v["fields"][0]["ty"] if v.get("fields") else "") for v in adt.get("variants", [])}


def dn_width_table_rule(ctx, prog, an, rid):
    """DataNumber::parse: (width, signedness) -> big-endian primitive of that width and the like-named variant,
    without a narrowing cast; other widths rejected (shared: C04 R4.6, C05 R5.9)."""
    dnb = prog.body(DN_PARSE)
    if ctx.anchor(rid, DN_PARSE, dnb):
        n = 0
        for (L, sg), (w, var) in sorted(EXPECTED_DN.items()):
            r = dn_arm(an, prog, dnb, L, sg)
            n += 1
            if r is None:
                ctx.ob(rid, DN_PARSE, "arm:(%d,%s)" % (L, sg), False, "no primitive/variant reached for (%d,%s)" % (L, sg))
                continue
            pw, pv, narrowing, endian = r
            # the variant is judged by its payload type (taken from the enum's definition), not by its name: wide
            # enough for the bytes read (narrowing casts are the next obligation) and of the arm's signedness
            pty = dn_payload_types(prog).get(pv, "")
            bits = int(re.sub(r"\D", "", pty) or 0)
            if pv in ("U24", "I24"):
                bits = 24 if bits >= 24 else bits
            okv = pv == var or (bool(pty) and pty.startswith("i" if sg else "u") and bits >= 8 * L)
            ok = pw == L and endian == "be" and pv is not None and (PAYLOAD_BITS.get(pv, bits) >= 8 * L or sg) and okv
            ctx.ob(rid, DN_PARSE, "arm:(%d,%s)" % (L, sg), ok, "(%d,%s) reads a %s-byte %s-endian primitive and builds DataNumber::%s(%s) (expected width %d, a %s payload of at least %d bits)" % (L, sg, pw, endian, pv, pty, w, "signed" if sg else "unsigned", 8 * L))
            ctx.ob(rid, DN_PARSE, "no-narrowing:(%d,%s)" % (L, sg), not narrowing,
                   "payload is %s" % ("narrowed by an `as` cast: the decoded value is not the big-endian interpretation of the %d bytes" % L if narrowing else "stored without narrowing"))
        for L in (0, 5, 6, 7, 9, 15, 17, 65535):
            for sg in (False, True):
                r = dn_arm(an, prog, dnb, L, sg)
                ok = r is None
                if r is not None and L in (5, 6, 7):
                    # a reduced-size encoding (RFC 7011 6.2) may be supported, provided it is decoded like the others
                    pw, pv, narrowing, endian = r
                    ok = pw == L and endian == "be" and pv is not None and PAYLOAD_BITS.get(pv, 0) >= 8 * L and not narrowing
                ctx.ob(rid, DN_PARSE, "unsupported:(%d,%s)" % (L, sg), ok, "length %d %s" % (L, "is rejected" if r is None else "decodes with %s" % (r,)))
        ctx.floor(rid, DN_PARSE, "width-table arms", n, 12)


def run(ctx, env):
    prog = env.prog("default")
    an = An(prog)
    ctx.rule("R4.10", "V9 templates: every parsed template reaches the cache by an overwriting write on every path, and the template reported in the result is the parsed one (shared with C06 R6.8)")
    from . import c06 as _c06
    _c06.rule_template_reaches_cache(ctx, prog, an, "R4.10", only_adt="variable_versions::v9::V9Parser")
    lay = Layouts(prog, an)
    ctx.rule("R4.1", "V9 flowset body = header.length saturating-minus 4 (wire size of FlowSetHeader)")
    ctx.rule("R4.2", "flowset id 0 reaches Templates::parse only, id 1 reaches OptionsTemplates::parse only, ids >= 256 reach neither")
    ctx.rule("R4.3", "every parsed *_count / *_length field delimits a repetition / take / decoder; the /4 divisor equals the wire size of a field specifier")
    ctx.rule("R4.4", "record_count = input.len() div usize::from(get_total_size()) with no additive term; get_total_size folds saturating_add over field_length of all fields; loop is 0..record_count; Data.padding = rest")
    ctx.rule("R4.5", "parse_data_field iterates template.fields.iter().enumerate(), threads the cursor and inserts (index -> (field_type, value))")
    ctx.rule("R4.6", "DataNumber::parse: arm (L, signed) consumes a big-endian primitive of width L and builds the variant of that width without a narrowing cast; from_field_type consumes field_length for variable kinds and the fixed size for fixed kinds")
    ctx.rule("R4.7", "From<u16> for V9Field / ScopeFieldType: arm n -> variant with discriminant n (or catch-all); From<V9Field> for FieldDataType switches on the discriminant")
    ctx.rule("R4.8", "value-partial enum parsers used while decoding field values are not propagated with `?` (a conformant value must not drop the record)")
    ctx.rule("R4.9", "every data-flowset decoder contains a record repetition (sibling cross-check v9::Data, v9::OptionsData, ipfix::Data, ipfix::OptionsData)")
    # R4.1
    saved = ctx.obls
    ctx.obls = []
    rule_body_lengths(ctx, prog, an, "R4.1")
    sub = ctx.obls
    ctx.obls = saved
    for o in sub:
        if "v9::FlowSet" in o["func"] or o["detail"].startswith("floor"):
            ctx.ob("R4.1", o["func"], o["detail"], o["status"] == "discharged", o["reason"], o["site"])
    # R4.2
    fb = prog.body(V9 + "FlowSetBody::parse")
    if ctx.anchor("R4.2", V9 + "FlowSetBody::parse", fb):
        tpl = {"Templates": "<%sTemplates as nom_derive::Parse" % V9, "OptionsTemplates": "<%sOptionsTemplates as nom_derive::Parse" % V9}
        for idv, want in ((0, {"Templates"}), (1, {"OptionsTemplates"}), (2, set()), (255, set()), (256, set()), (65535, set())):
            r = reach_assuming(an, fb, {canon(("arg", 3)): idv})
            def tname(nd):
                for k, pre in tpl.items():
                    if nd["path"].startswith(pre):
                        return k
                return None
            got = local_callees_reaching(prog, fb, r, tname)
            ctx.ob("R4.2", fb.path, "id=%d" % idv, got == want, "flowset id %d reaches template parsers %s, expected %s" % (idv, sorted(got), sorted(want)))
    # R4.3
    n43 = 0
    structs = [V9 + x for x in ("Header", "FlowSetHeader", "Template", "OptionsTemplate", "TemplateField", "OptionsTemplateScopeField")]
    for adt in structs:
        n43 += count_length_rule(ctx, prog, an, lay, "R4.3", adt)
    ctx.floor("R4.3", "v9", "count/length fields", n43, 6)
    # R4.4
    from . import records as _rec
    fpath = _rec.records_parser_of(lay, V9 + "Data::parse_be")
    fp = prog.body(fpath) if fpath else None
    for _ in range(2):
        # a thin private wrapper in front of the records parser (`parse_with_cached(i, &templates, id)` looking the
        # template up and handing the same input on): follow the one call that receives the input and returns for it
        if fp is None or any(st["rv"]["adt"].endswith("ops::Range") for (_, _, st) in block_aggs(fp)):
            break
        nxt = [prog.body(c.path) for blk, t, c in fp.calls() if c is not None and c.local and t["dest"]["l"] == 0 and not t["dest"].get("p")
               and t["args"] and peel(an.op(fp, t["args"][0])) == ("arg", 1) and prog.body(c.path) is not None
               and not prog.body(c.path).j.get("pub") and not prog.body(c.path).derived]
        if len(nxt) != 1:
            break
        fp = nxt[0]
    if ctx.anchor("R4.4", V9 + "Data::parse_be → records parser", fp):
        # the record loop: Range<usize> whose end is record_count (for-loop or iterator-chain form)
        ok = False
        why = "no `0..record_count` range found"
        rc = None
        for (blk, i, st) in block_aggs(fp):
            if st["rv"]["adt"].endswith("ops::Range") and "usize" in "".join(st["rv"].get("targs", [])):
                sl_ = an.slicer(fp)
                e = an.simp(sl_.rvalue(st["rv"], blk))
                lo, hi = peel(e[3][0]), peel(e[3][1])
                rc = hi
                ok = const_eval(lo) == {0}
                why = "range %s .. %s" % (canon(lo)[:40], canon(hi)[:160])
        ctx.ob("R4.4", fp.path, "loop-is-0..record_count", ok, why)
        if rc is not None:
            x = an.expand(rc)
            DIVS = ("checked_div", "saturating_div", "wrapping_div", "div_euclid", "strict_div")
            divs = find(x, lambda n: (n[0] == "call" and n[2] is not None and n[2].npath.rsplit("::", 1)[-1] in DIVS) or (n[0] == "binop" and n[1] == "Div"))
            # distinct division nodes (the same node can be shared)
            seen = {}
            for d in divs:
                seen[canon(d)] = d
            divs = list(seen.values())
            if len(divs) != 1:
                ctx.ob("R4.4", fp.path, "record-count-form", False, "record_count is not a single division len / total_size (found %d division nodes): %s" % (len(divs), canon(peel(x))[:240]))
            else:
                d = divs[0]
                num, den = (peel(d[3][0]), peel(d[3][1], widen=True)) if d[0] == "call" else (peel(d[2]), peel(d[3], widen=True))
                okn = num[0] == "call" and num[2].npath.endswith("<impl [T]>::len") and peel(num[3][0]) == ("arg", 1)
                # nothing additive outside the division
                def additive(n):
                    if n[0] == "binop" and n[1].replace("WithOverflow", "") in ("Add", "Sub", "Mul", "Shl", "Shr"):
                        return True
                    if n[0] == "call" and n[2] is not None and re.search(r"::(saturating_add|saturating_sub|wrapping_add|wrapping_sub|checked_add|checked_sub|saturating_mul|max|min|pow)$", n[2].npath):
                        return True
                    return False
                outer = find(x, additive)
                inner = find(den, additive) + find(num, additive)
                inner_c = set(canon(i) for i in inner)
                extra = [o for o in outer if canon(o) not in inner_c and canon(o) not in canon(den)]
                ctx.ob("R4.4", fp.path, "record-count=len/total_size", bool(okn) and not extra,
                       "numerator %s; additive terms outside the division: %s" % (canon(num)[:80], [canon(e)[:60] for e in extra]))
                # denominator = Σ field_length (fold of saturating_add over all fields), possibly through a private helper
                ok = False
                why = canon(den)[:240]
                ok, why2 = sum_of_field(an, den, "fields", "field_length")
                why = why2 or why
                ctx.ob("R4.4", fp.path, "total=Σ field_length over all fields", ok, why)
        Ld = lay.parser_layout(V9 + "Data::parse_be")
        okp = Ld["ok"] and len(Ld["steps"]) == 2 and Ld["steps"][1]["fields"] == ["padding"] and Ld["steps"][1]["term"][0] == "vec" and Ld["steps"][1]["term"][1] == "u8"
        ctx.ob("R4.4", V9 + "Data::parse_be", "padding-is-rest", bool(okp), "steps: %s" % [(s["fields"], term_s(s["term"])[:60]) for s in Ld["steps"]])
    # R4.5 (form-independent: the per-field decode site is located by role, see records.py)
    from . import records
    R = records.decode_order_rule(ctx, prog, an, "R4.5", V9 + "Data::parse_be", "v9")
    tf = prog.body(V9 + "TemplateField::parse_as_field_value")
    if ctx.anchor("R4.5", V9 + "TemplateField::parse_as_field_value", tf):
        ret = peel(an.local(tf, 0))
        ok = ret[0] == "call" and ret[2].path == FFT and peel(ret[3][0]) == ("arg", 2) and peel(ret[3][2])[0] == "field" and peel(ret[3][2])[2] == "field_length" \
            and bool(find(ret[3][1], lambda n: n[0] == "field" and n[2] == "field_type"))
        ctx.ob("R4.5", tf.path, "decodes-with-own-type-and-length", ok, canon(ret)[:240])
    # R4.6
    dn_width_table_rule(ctx, prog, an, "R4.6")
    arms, fftb = fft_arms(an, prog)
    if ctx.anchor("R4.6", FFT, fftb):
        flen = canon(("arg", 3))
        want = {"String": ("take", flen), "Vec": ("take", flen), "Unknown": ("unknown-helper", flen), "Ip4Addr": ("prim", 4), "Ip6Addr": ("prim", 16),
                "MacAddr": ("take", "6_usize"), "Float64": ("prim", 8), "UnsignedDataNumber": ("datanumber", flen, {0}), "SignedDataNumber": ("datanumber", flen, {1}),
                "DurationSeconds": ("datanumber", flen, {0}), "DurationMillis": ("datanumber", flen, {0}), "DurationMicros": ("datanumber", flen, {0}),
                "DurationNanos": ("datanumber", flen, {0}), "ProtocolType": ("take", "1_usize")}
        for name, w in sorted(want.items()):
            cons = arms.get(name)
            if cons is None:
                ctx.ob("R4.6", FFT, "kind:%s" % name, False, "no arm for FieldDataType::%s" % name)
                continue
            wire = [c for c in cons if c[0] in ("prim", "take", "datanumber", "unknown-helper")]
            ok = False
            if len(wire) == 1:
                c = wire[0]
                if w[0] == "prim":
                    ok = c[0] == "prim" and c[1] == w[1] and c[2] == "be"
                elif w[0] == "take":
                    ok = c[0] == "take" and c[1] == w[1]
                    if not ok and w[1] == "1_usize":
                        ok = c[0] == "prim" and c[1] == 1      # one byte read by a u8 primitive instead of take(1)
                elif w[0] == "datanumber":
                    ok = c[0] == "datanumber" and c[1] == w[1] and c[2] == w[2]
                elif w[0] == "unknown-helper":
                    ok = c[0] == "unknown-helper" and c[1] == w[1]
            ctx.ob("R4.6", FFT, "kind:%s" % name, ok, "FieldDataType::%s consumes %s (expected %s)" % (name, [x[:3] for x in wire], w[:2]))
        # R4.8
        for name, cons in sorted(arms.items()):
            for c in cons:
                if c[0] != "enum-parser":
                    continue
                uses = uses_of_local(fftb, c[2])
                prop = any(u[0] == "callarg" and u[2][0]["func"].get("k") == "const" and Callee(u[2][0]["func"]["fn"]).nsyn == "std::ops::Try::branch" for u in uses)
                ctx.ob("R4.8", FFT, "partial-enum-parser:%s" % name, not prop,
                       "%s is %s" % (c[1], "propagated with `?`: a wire value without a variant fails the record and all later records of the flowset" if prop else "handled (no `?`)"),
                       site=fftb.line(c[3]))
    # R4.7
    n7 = lookup_table_rule(ctx, an, prog, "R4.7", "variable_versions::v9_lookup::V9Field", "<variable_versions::v9_lookup::V9Field as std::convert::From<u16>>::from", {"Unknown", "Vendor"})
    n7 += lookup_table_rule(ctx, an, prog, "R4.7", "variable_versions::v9_lookup::ScopeFieldType", "<variable_versions::v9_lookup::ScopeFieldType as std::convert::From<u16>>::from", {"Unknown"})
    datatype_scrutinee_rule(ctx, an, prog, "R4.7", "<variable_versions::data_number::FieldDataType as std::convert::From<variable_versions::v9_lookup::V9Field>>::from", "variable_versions::v9_lookup::V9Field")
    ctx.floor("R4.7", "v9", "lookup arms", n7, 100)
    ctx.rule("R4.12", "records are all-or-nothing: a decode step whose failure is tolerated (taken as the start of padding) has not appended anything to the reported collection by the time it fails - helpers that fill an out-parameter either have their failure propagated or insert only after their last fallible step")
    from . import consume as _cons
    _cons.partial_output_rule(ctx, prog, an, "R4.12", lambda b: b.path.startswith(("variable_versions::v9::", "variable_versions::data_number::")))
    ctx.rule("R4.14", "a data flowset is decoded with the template in force at that point of the stream: every function that writes a template cache is reached from parse_bytes only through the per-flowset / per-set decode call of its protocol (FlowSet::parse), one flowset at a time and in order - no pre-pass over the packet learns templates ahead of the data that precedes them (shared with C06 R6.9)")
    from .cache import CacheAccess as _CA14
    _c06.rule_learned_in_stream_order(ctx, prog, _CA14(prog, an), "R4.14", only="V9Parser")
    ctx.rule("R4.13", "the records a decoder reports are made by that decode alone: every element added to the reported collection derives from the input slice, and the collection itself is created by the call - not the drained / taken content of storage kept in the parser object (a reusable buffer that a failed decode leaves half-filled would surface in a later packet) (shared with C02 R2.10)")
    _cons.foreign_rule(ctx, prog, an, "R4.13", lambda b: b.path.startswith(("variable_versions::v9::", "variable_versions::data_number::")), floor=0)
    # R4.11
    ctx.rule("R4.11", "a field value is reported as sent: in every arm of FieldValue::from_field_type (private helpers inlined) no arithmetic, clamping or narrowing cast is applied to a value read from the input bytes, and each time kind gets its unit from the Duration constructor of that unit")
    from . import valuepath
    valuepath.rule(ctx, prog, an, "R4.11")
    # R4.9
    records.record_repetition_rule(ctx, prog, an, "R4.9", V9 + "Data::parse_be", R)
    decoder_iterates_records(ctx, prog, an, "R4.9", only="::v9::OptionsData")
    # sibling cross-check: the IPFIX decoders are the reference shape (evaluated under C05)


def count_length_rule(ctx, prog, an, lay, rule, adt):
    """Each parsed field named *count / *length flows into a later step of the same parser or is read by a parse-reachable body."""
    path = pe_path(adt)
    L = lay.parser_layout(path)
    if not ctx.anchor(rule, path, prog.body(path)):
        return 0
    if not L["ok"]:
        ctx.ob(rule, path, "layout", False, L["why"])
        return 0
    n = 0
    parse_bodies = reach_bodies(prog, PARSE_ROOTS)
    for i, s in enumerate(L["steps"]):
        for f in s["fields"]:
            if not re.search(r"(count|length)$", f):
                continue
            n += 1
            blk = s["block"]
            used = False
            how = ""
            for s2 in L["steps"][i + 1:]:
                hit = term_uses_block(s2["term"], blk)
                if hit:
                    used = True
                    how = "delimits %s (%s)" % (s2["fields"], term_s(s2["term"])[:80])
                    # divisor check for `/ K`
                    k = term_divisor(an, s2["term"], blk)
                    if k is not None and s2["term"][0] == "count":
                        w = lay.width(s2["term"][1])
                        ctx.ob(rule, path, "divisor:%s" % f, w == k, "%s / %s, wire size of one element = %s" % (f, k, w), site=s2["site"])
                    break
            if not used:
                # read elsewhere on the parse path (decoders)?
                readers = []
                for b in parse_bodies.values():
                    if b.path == path or b.derived:
                        continue
                    for bb, ii, st in b.stmts():
                        if st["k"] != "assign":
                            continue
                        pls = [st["rv"].get("place")] + [o.get("place") for o in __import__("nfsa.rules.cache", fromlist=["rv_operands"]).rv_operands(st["rv"]) if o]
                        for pl in pls:
                            if pl and any(e["k"] == "field" and e.get("name") == f and e.get("adt") == adt for e in pl.get("p", [])):
                                readers.append(b.path)
                readers = sorted(set(readers))
                used = bool(readers)
                how = "read by %s" % readers[:3] if used else "parsed and never used on the parse path (only re-exported / serialized): nothing delimits what it announces"
            ctx.ob(rule, path, "delimits:%s" % f, used, "%s.%s %s" % (adt.rsplit("::", 1)[1], f, how), site=s["site"])
    return n


def term_uses_block(term, blk, depth=0):
    """Does any expression inside the term refer to the parser call made in block blk?"""
    if depth > 8:
        return False
    for x in term[1:]:
        if isinstance(x, tuple):
            if x and isinstance(x[0], str) and x[0] in ("prim", "struct", "map", "mapres", "take", "count", "many0", "many1", "complete", "cond", "value", "closure", "vec", "fn", "unknown"):
                if term_uses_block(x, blk, depth + 1):
                    return True
            else:
                if find(x, lambda n: n[0] == "ok" and peel(n[1])[0] == "call" and peel(n[1])[1] == blk):
                    return True
        elif isinstance(x, list):
            for y in x:
                if isinstance(y, tuple) and find(y, lambda n: n[0] == "ok" and peel(n[1])[0] == "call" and peel(n[1])[1] == blk):
                    return True
    return False


def term_divisor(an, term, blk):
    if term[0] != "count":
        return None
    n = peel(an.simp(term[2]), widen=True)
    if n[0] == "binop" and n[1] == "Div":
        d = const_eval(n[3])
        if d and len(d) == 1:
            return next(iter(d))
    return None


def decoder_iterates_records(ctx, prog, an, rule, only=None):
    decs = {"variable_versions::v9::Data": None, "variable_versions::v9::OptionsData": None, "variable_versions::ipfix::Data": None, "variable_versions::ipfix::OptionsData": None}
    for d in decs:
        if only and only not in d:
            continue
        root = d + "::parse_be"
        b = prog.body(root)
        if not ctx.anchor(rule, root, b):
            continue
        # reach (call graph) from this decoder: does it contain a record repetition = a loop / fold whose body
        # is itself a pass over the template's fields (nested repetition)?
        starts = [i for i, n in enumerate(prog.nodes) if n["path"] == root]
        seen = set()
        st = list(starts)
        while st:
            x = st.pop()
            if x in seen:
                continue
            seen.add(x)
            st.extend(prog.nodes[x]["callees"])
        local = [prog.bodies[prog.nodes[i]["path"]] for i in seen if prog.nodes[i]["local"] and prog.nodes[i]["path"] in prog.bodies]
        nested = False
        why = "no repetition over records found below the decoder: fields are walked once, further records land in padding"
        for lb in local:
            loops = lb.sccs()
            # a loop/closure level that (transitively) contains another field-level repetition
            for comp in loops:
                cs = set(comp)
                inner_calls = [c for blk, t, c in lb.calls() if blk in cs and c is not None]
                for c in inner_calls:
                    if c.local and repetition_below(prog, c.path, set()):
                        nested = True
                        why = "record loop in %s, each iteration runs the field repetition of %s" % (lb.path, c.path)
                    if c.nsyn in ("std::iter::Iterator::try_fold", "std::iter::Iterator::fold"):
                        nested = True
                        why = "record loop in %s around a fold over the template's fields" % lb.path
        ctx.ob(rule, d, "iterates-records", nested, why, site=site(b.span))


def repetition_below(prog, path, seen):
    if path in seen:
        return False
    seen.add(path)
    b = prog.body(path)
    if b is None:
        return False
    if b.sccs():
        return True
    for blk, t, c in b.calls():
        if c is None:
            continue
        if c.nsyn in ("std::iter::Iterator::try_fold", "std::iter::Iterator::fold"):
            return True
    return False
