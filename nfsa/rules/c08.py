"""C08 — V5/V7 re-export round trip (DESIGN §4.8)."""
from .common import *
from .layout import Layouts, term_s
from .export import Exporter
from .c03 import STRUCTS, parse_be_path

LEVEL = "proof"
EXPLANATION = (
    "Reader/writer table agreement: the byte layout emitted by V5::to_be_bytes / V7::to_be_bytes "
    "(ordered list of source field, width, encoder, loop context — recovered from the exporter's MIR) "
    "equals [version] ++ header wire layout ++ Star(record wire layout) recovered from the nom-derive "
    "parsers, atom for atom; header atoms are emitted once, record atoms inside one loop over "
    "self.flowsets; every (decode primitive, encode primitive) pair is an inverse pair "
    "(be_uN / uN::to_be_bytes, Ipv4Addr::from(be_u32) / octets). Together with C03 (layout = Cisco, "
    "count-delimited records) this gives parse∘export = id and, when count = number of records, "
    "export∘parse = id."
)
ASSUMPTIONS = ["uN::to_be_bytes / nom be_uN and Ipv4Addr::from(u32) / Ipv4Addr::octets are mutually inverse (std / nom contracts)"]


def norm(p):
    return p.replace("[*]", "")


def expected_layout(lay, an, S):
    """[(loop, path, width, decoder)] from the parser side."""
    out = [((), "self.header.version", 2, "dispatcher:be_u16")]
    Lh = lay.parser_layout(parse_be_path(S["header"]))
    Lr = lay.parser_layout(parse_be_path(S["record"]))
    if not (Lh["ok"] and Lr["ok"]):
        return None
    for s in Lh["steps"]:
        if s["term"][0] == "value":
            continue
        out.append(((), "self.header." + (s["fields"][0] if s["fields"] else "?"), lay.width(s["term"]), dec_name(s["term"])))
    for s in Lr["steps"]:
        if s["term"][0] == "value":
            continue
        out.append((("self.flowsets",), "self.flowsets." + (s["fields"][0] if s["fields"] else "?"), lay.width(s["term"]), dec_name(s["term"])))
    return out


def dec_name(t):
    if t[0] == "prim":
        return "be" if t[3] == "be" else t[3]
    if t[0] == "map":
        f = peel(t[2])
        return "%s∘%s" % (f[1].npath if f[0] == "constfn" else "?", dec_name(t[1]))
    return t[0]


INVERSE = {
    ("be", "to_be_bytes"),
    ("dispatcher:be_u16", "to_be_bytes"),
    ("<std::net::Ipv4Addr as std::convert::From<u32>>::from∘be", "octets"),
}


def run(ctx, env):
    prog = env.prog("default")
    an = An(prog)
    lay = Layouts(prog, an)
    ctx.rule("R8.1", "exporter byte layout = [version] ++ parser header layout ++ Star(parser record layout): same source field, same width, same order; header atoms outside, record atoms inside one loop over self.flowsets; nothing else emitted")
    ctx.rule("R8.2", "each (decode primitive, encode primitive) pair is in the inverse-pair table")
    ctx.rule("R8.4", "the two version bytes an exporter writes (the constant 5 / 7 the decoder injects) are the two bytes the packet began with: the dispatch value is the whole 16-bit big-endian word, not a mapped or narrowed one (shared with C12 R12.5)")
    from . import c12 as _c12
    _c12.version_word_rule(ctx, prog, an, "R8.4")
    ctx.rule("R8.3", "what parse_bytes reports is what the parser read: the V5/V7 wrappers do not modify the decoded packet, and the records are read by nom count(record, header.count) — exactly header.count records or an error — so the emitted count always equals the number of emitted records")
    from . import c02 as _c02
    for ver, S in sorted(STRUCTS.items()):
        wp = VERSION_PARSERS[ver]
        muts = _c02.packet_mutations(prog, wp, S["top"])
        ctx.ob("R8.3", wp, "decoded-packet-not-modified", not muts,
               "the decoded packet is modified after decoding at %s" % [site(st["span"]) for _, st in muts] if muts else "no assignment into the decoded packet in the wrapper or its closures")
        Lt = lay.parser_layout(parse_be_path(S["top"]))
        rs = [s2 for s2 in Lt["steps"] if "flowsets" in s2["fields"]] if Lt["ok"] else []
        okc = bool(rs) and rs[0]["term"][0] == "count" and find(peel(an.simp(rs[0]["term"][2])), lambda n: n[0] == "field" and n[2] == "count")
        ctx.ob("R8.3", parse_be_path(S["top"]), "records-by-header-count", bool(okc),
               "records parsed by %s" % (term_s(rs[0]["term"])[:140] if rs else "?"))
    total = 0
    for ver, S in sorted(STRUCTS.items()):
        path = S["top"] + "::to_be_bytes"
        b = prog.body(path)
        if not ctx.anchor("R8.1", path, b):
            continue
        ex = Exporter(prog, an, b)
        from .export import expand_enc
        got = expand_enc(prog, an, ex.flat())
        exp = expected_layout(lay, an, S)
        if got is None or exp is None:
            ctx.ob("R8.1", path, "layout", False, "exporter result buffer or parser layout not recoverable")
            continue
        n = max(len(got), len(exp))
        for i in range(n):
            if i >= len(got):
                ctx.ob("R8.1", path, "atom:%s" % exp[i][1], False, "parsed field %s (%s bytes) is never emitted" % (exp[i][1], exp[i][2]))
                continue
            lp, cd, c = got[i]
            if i >= len(exp):
                ctx.ob("R8.1", path, "extra:%d" % i, False, "exporter emits an extra item %s" % (c,))
                continue
            el, ep, ew, ed = exp[i]
            total += 1
            if c[0] != "atom":
                ctx.ob("R8.1", path, "atom:%s" % ep, False, "position %d: exporter emits %s where %s (%s bytes) is expected" % (i, c, ep, ew))
                continue
            ok = norm(c[1]) == ep and c[2] == ew and tuple(norm(x) for x in lp) == el and not cd
            ctx.ob("R8.1", path, "atom:%s" % ep, ok,
                   "position %d: emits %s (%s bytes, %s, loop %s%s); parser reads %s (%s bytes, loop %s)" % (i, norm(c[1]), c[2], c[3], tuple(norm(x) for x in lp), (", under condition %s" % (cd,)) if cd else "", ep, ew, el))
            ctx.ob("R8.2", path, "codec:%s" % ep, (ed, c[3]) in INVERSE or (c[3] == "push" and ew == 1 and ed in ("be", "u8")), "decoder %s / encoder %s" % (ed, c[3]))
    ctx.floor("R8.1", "crate", "atoms compared", total, 57)
