"""C16 — every parse result serializes to JSON, deterministically and faithfully (DESIGN §4.16)."""
import re

from .common import *

LEVEL = "other"
EXPLANATION = (
    "Type-graph and derive-coverage clauses: the closure of types serialized from NetflowPacket "
    "(through the fields the derived serialize bodies actually read) contains no hash-ordered container "
    "and only JSON-legal map key types, and per-record containers are BTreeMap<usize,_> (field-index "
    "order by type); every Serialize impl in the graph is #[automatically_derived]; each derived struct "
    "serializer emits every field except `padding` under the field's own name with the field's own "
    "value; enum serializers cover every variant; DataNumber is untagged over integer payloads; no "
    "crate body reachable from the public roots iterates a HashMap/HashSet (results cannot depend on a "
    "per-instance hash seed). serde_json's own formatting (u128, NaN→null, key stringification) is "
    "outside the crate and trusted."
)
ASSUMPTIONS = ["serde_json serializes integers (incl. u128), strings, sequences, BTreeMap<usize,_> and unit/newtype variants infallibly and deterministically",
               "f64 NaN/±inf are written as null by serde_json (documented)"]

JSON_KEY_OK = {"u8", "u16", "u32", "u64", "u128", "usize", "i8", "i16", "i32", "i64", "i128", "isize", "std::string::String", "char", "bool", "&str", "str"}
HASH_RE = re.compile(r"std::collections::(hash_map::|hash_set::)?(HashMap|HashSet)<|RandomState|hashbrown|IndexMap")
HASH_ITER = re.compile(r"^(std::collections::(HashMap|HashSet)::(iter|iter_mut|keys|values|values_mut|into_keys|into_values|drain|retain|extract_if)|<&(mut )?std::collections::(HashMap|HashSet)<.*> as std::iter::IntoIterator>::into_iter|<std::collections::(HashMap|HashSet)<.*> as std::iter::IntoIterator>::into_iter)$")


def split_top(s, sep=","):
    out, depth, cur = [], 0, ""
    for ch in s:
        if ch in "<([":
            depth += 1
        elif ch in ">)]":
            depth -= 1
        if ch == sep and depth == 0:
            out.append(cur.strip())
            cur = ""
        else:
            cur += ch
    if cur.strip():
        out.append(cur.strip())
    return out


def parse_ty(s):
    """'std::vec::Vec<(A, B)>' -> ('std::vec::Vec', [('tuple', [A, B])])"""
    s = s.strip()
    while s.startswith("&"):
        s = s[1:].strip()
        if s.startswith("mut "):
            s = s[4:]
        if s.startswith("'"):
            s = s.split(" ", 1)[1] if " " in s else s
    if s.startswith("(") and s.endswith(")"):
        return ("tuple", [parse_ty(x) for x in split_top(s[1:-1])])
    if s.startswith("[") and s.endswith("]"):
        inner = s[1:-1]
        if ";" in inner:
            inner = inner.rsplit(";", 1)[0]
        return ("slice", [parse_ty(inner)])
    if "<" in s and s.endswith(">"):
        i = s.index("<")
        return (s[:i], [parse_ty(x) for x in split_top(s[i + 1:-1]) if not x.startswith("'")])
    return (s, [])


def walk_ty(t, fn):
    fn(t)
    for a in t[1]:
        walk_ty(a, fn)


def fields_read_by_serialize(body):
    """Field names of `self` read by a derived serialize body; and (key string, field) pairs for serialize_field."""
    read = set()
    pairs = []
    variants = set()
    for blk, i, s in body.stmts():
        if s["k"] != "assign":
            continue
        pls = []
        rv = s["rv"]
        if rv["k"] in ("ref", "copyforderef", "discriminant"):
            pls.append(rv["place"])
        if rv["k"] == "use" and rv["op"].get("k") in ("copy", "move"):
            pls.append(rv["op"]["place"])
        for pl in pls:
            if pl["l"] != 1:
                continue
            for e in pl.get("p", []):
                if e["k"] == "field" and "name" in e:
                    read.add(e["name"])
                    break
                if e["k"] == "downcast":
                    variants.add(e.get("variant"))
    return read, variants


def neutral_field(prog, an, tname, fname):
    """(number of constructions of ADT `tname` in bodies reachable from the parse roots, [(body, value)] of those that
    give field `fname` anything but a constant, `None` or `Default::default()`)."""
    sites, loaded = 0, []
    for b in reach_bodies(prog, PARSE_ROOTS).values():
        if b.derived and "nom_derive::Parse" not in b.path and not ((b.parent_impl or {}).get("trait", "").endswith("Parse")):
            continue          # derived Clone / Default copy or default the field; only decoders can load it
        for (blk, i, st) in block_aggs(b):
            rv = st["rv"]
            if rv["adt"] != tname or fname not in (rv.get("fields") or []):
                continue
            sites += 1
            e = peel(an.op(b, rv["ops"][rv["fields"].index(fname)]))
            if e[0] == "tfield" and e[2] == 1 and e[1][0] == "ok" and peel(e[1][1])[0] == "call" and peel(e[1][1])[2] is not None and peel(e[1][1])[2].local:
                # the value component of a crate closure / function (`#[nom(Ignore)]` expands to `|i| Ok((i, None))`)
                cb = prog.bodies.get(peel(e[1][1])[2].path)
                if cb is not None:
                    okv = peel(an.interp._through("ok", an.local(cb, 0)))
                    if okv[0] == "tuple" and len(okv[1]) == 2:
                        e = peel(okv[1][1])
            neutral = e[0] in ("const", "constother", "uconst") or (e[0] == "agg" and e[2] == "None" and not e[3]) or \
                (e[0] == "call" and e[2] is not None and e[2].nsyn in ("std::default::Default::default",) and not e[3])
            if not neutral:
                loaded.append((b.path, canon(e)[:100]))
    return sites, loaded


def run(ctx, env):
    prog = env.prog("default")
    an = An(prog)
    ctx.rule("R16.1", "serialized type graph from NetflowPacket: no HashMap/HashSet/RandomState container; map key types are JSON-legal; per-record containers are BTreeMap<usize,_>")
    ctx.rule("R16.2", "every Serialize impl in the graph is derived; struct serializers emit every field except `padding`, each under its own name with its own value; enum serializers handle every variant")
    ctx.rule("R16.3", "no iteration over a HashMap/HashSet in any crate body reachable from the public roots")
    ctx.rule("R16.4", "DataNumber serializes untagged from integer payloads only; Float64 is the only float kind; FieldValue::String is built by from_utf8_lossy (valid UTF-8)")
    if not roots_or_fail(ctx, prog, "R16.2", SERIALIZE_ROOTS):
        return
    # serialize impls by self type
    ser = {}
    for p, b in prog.bodies.items():
        pi = b.parent_impl
        if pi and pi.get("trait", "").endswith("Serialize") and p.endswith("::serialize"):
            ser[pi["self_ty"]] = b
    impl_derived = {i["self_ty"]: i["derived"] for i in prog.facts["impls"] if i.get("trait", "").endswith("Serialize")}
    # BFS over types
    root_ty = "NetflowPacket"
    seen = []
    queue = [root_ty]
    n_fields = 0
    while queue:
        tname = queue.pop(0)
        if tname in seen:
            continue
        seen.append(tname)
        adt = prog.adts.get(tname)
        if adt is None:
            continue
        b = ser.get(tname)
        if b is None:
            ctx.ob("R16.2", tname, "has-serialize-impl", False, "type is in the serialized graph but has no Serialize impl body")
            continue
        ctx.ob("R16.2", tname, "serialize-derived", bool(impl_derived.get(tname)) and b.derived, "Serialize for %s is %s" % (tname, "#[automatically_derived]" if b.derived else "HAND-WRITTEN"))
        read, variants = fields_read_by_serialize(b)
        is_enum = adt["kind"] == "Enum"
        if is_enum:
            allv = [v["name"] for v in adt["variants"]]
            fieldless = all(not v["fields"] for v in adt["variants"])
            if not fieldless:
                miss = [v for v in allv if v not in variants and any(x["name"] == v and x["fields"] for x in adt["variants"])]
                ctx.ob("R16.2", tname, "all-variants-serialized", not miss, "variants without an arm reading their payload: %s" % miss)
            else:
                # fieldless enum: switch must have one target per variant
                sw = [t for blk in b.live_blocks() for t in [b.term(blk)] if t["k"] == "switch"]
                ok = bool(sw) and len(sw[0]["targets"]) >= len(allv) - 1
                ctx.ob("R16.2", tname, "all-variants-serialized", ok, "%d variants, %d switch targets" % (len(allv), len(sw[0]["targets"]) if sw else 0))
        for v in adt["variants"]:
            for f in v["fields"]:
                n_fields += 1
                fname = f["name"]
                emitted = (fname in read) if not is_enum else True
                if not is_enum:
                    ok = emitted or fname == "padding"
                    why = "field %s is %s by the derived serializer" % (fname, "read" if emitted else "skipped")
                    if not ok:
                        # a skipped field that decoding never fills carries nothing the JSON could be unfaithful to:
                        # every construction of the type on the parse path gives it a constant / None / Default
                        sites, loaded = neutral_field(prog, an, tname, fname)
                        if sites and not loaded:
                            ok = True
                            why += "; it carries no decoded information: all %d construction(s) of %s on the parse path set it to a constant / None / Default::default()" % (sites, tname.rsplit("::", 1)[-1])
                        elif loaded:
                            why += "; and %s fills it with %s" % (loaded[0][0], loaded[0][1])
                    ctx.ob("R16.2", tname, "field-emitted:%s" % fname, ok, why)
                    if not emitted:
                        continue
                ty = parse_ty(f["ty"])
                if HASH_RE.search(f["ty"]):
                    ctx.ob("R16.1", tname, "no-hash-container:%s" % fname, False, "serialized field %s: %s is hash-ordered (iteration order depends on a per-instance seed)" % (fname, f["ty"]))
                else:
                    ctx.ob("R16.1", tname, "no-hash-container:%s" % fname, True, f["ty"][:120])

                def visit(t, tname=tname, fname=fname):
                    if t[0].endswith("BTreeMap") and t[1]:
                        k = t[1][0]
                        kn = k[0]
                        okk = kn in JSON_KEY_OK or (kn in prog.adts and prog.adts[kn]["kind"] == "Enum" and all(not v["fields"] for v in prog.adts[kn]["variants"]))
                        ctx.ob("R16.1", tname, "map-key-json-legal:%s" % fname, okk, "BTreeMap key type %s" % kn)
                    if t[0] in prog.adts and t[0] not in seen and t[0] not in queue:
                        queue.append(t[0])
                walk_ty(ty, visit)
    ctx.count("serialized_types", len(seen))
    ctx.floor("R16.1", "type-graph", "types reached from NetflowPacket", len([s for s in seen if s in prog.adts]), 30)
    ctx.floor("R16.2", "type-graph", "fields inspected", n_fields, 100)
    # per-record containers
    for adt, fld in (("variable_versions::v9::Data", "fields"), ("variable_versions::ipfix::Data", "fields"), ("variable_versions::ipfix::OptionsData", "fields")):
        a = prog.adts.get(adt)
        if not ctx.anchor("R16.1", adt, a):
            continue
        ty = [f["ty"] for f in a["variants"][0]["fields"] if f["name"] == fld]
        ok = bool(ty) and ty[0].startswith("std::vec::Vec<std::collections::BTreeMap<usize, ")
        ctx.ob("R16.1", adt, "records-ordered-by-field-index", ok, "%s.%s : %s" % (adt, fld, ty))
    # key/value faithfulness of serialize_field calls
    nsf = 0
    for tname in seen:
        b = ser.get(tname)
        if b is None:
            continue
        for blk, t, c in b.calls():
            if c is None or not c.npath.endswith("SerializeStruct::serialize_field"):
                continue
            nsf += 1
            key = t["args"][1]
            kname = None
            if key.get("k") == "const":
                m = re.match(r'^(?:const )?"(.*)"$', key.get("repr", ""))
                kname = m.group(1) if m else key.get("repr")
            val = peel(an.op(b, t["args"][2]))
            vname = val[2] if val[0] == "field" else None
            ok = kname is not None and kname == vname and peel(val[1]) == ("arg", 1)
            ctx.ob("R16.2", tname, "key=value-field:%s" % vname, ok, 'serialize_field("%s", &self.%s)' % (kname, vname), site=b.line(blk))
            # conditional emission: the only accepted guard is `Option::is_none(&self.<same field>)` == false
            for sb in sorted(b.live_blocks()):
                st = b.term(sb)
                if st["k"] != "switch" or sb == blk:
                    continue
                ge, neg = strip_not(an.op(b, st["op"]))
                if ge[0] == "discr":
                    continue
                be = bool_edges(st, neg)
                if not be:
                    continue
                tt, ff = be
                on_true = b.edge_dominates((sb, tt), blk)
                on_false = b.edge_dominates((sb, ff), blk)
                if not (on_true or on_false) or (on_true and on_false):
                    continue
                okg = False
                if ge[0] == "call" and ge[2] is not None and (ge[2].npath in ("std::option::Option::is_none",) or re.search(r"^(std|alloc)::(vec::Vec|collections::(BTreeMap|VecDeque|btree_map::BTreeMap))(<.*>)?::is_empty$", ge[2].npath)) and on_false:
                    # skip-if-None and skip-if-empty of the very field: what is left out is a value that holds nothing
                    garg = peel(ge[3][0])
                    okg = garg[0] == "field" and garg[2] == vname and peel(garg[1]) == ("arg", 1)
                ctx.ob("R16.2", tname, "emitted-unless-None:%s" % vname, okg,
                       "field %s is emitted only when %s is %s — %s" % (vname, canon(ge)[:120], "false" if on_false else "true",
                                                                  "the standard skip-if-None" if okg else "a decoded value can be silently absent from the JSON (JSON no longer equals the decoded structure)"),
                       site=b.line(sb))
    ctx.floor("R16.2", "type-graph", "serialize_field call sites", nsf, 100)
    # R16.3
    bodies = reach_bodies(prog, ALL_ROOTS)
    nh = 0
    for b in bodies.values():
        for blk, t, c in b.calls():
            if c is None:
                continue
            nh += 1
            if HASH_ITER.match(c.npath) or HASH_ITER.match(c.id.split("::<")[0]) or (c.nsyn == "std::iter::IntoIterator::into_iter" and t["argtys"] and HASH_RE.search(t["argtys"][0])):
                ctx.ob("R16.3", b.path, "hash-iteration:%s" % c.npath, False, "iterates a hash container (%s): output order/content may depend on the per-instance hash seed" % t["argtys"][0][:100], site=b.line(blk))
    ctx.ob("R16.3", "reachable-bodies", "no-hash-iteration", True, "%d call sites in %d reachable bodies inspected" % (nh, len(bodies)))
    # R16.4
    dn = prog.adts.get("variable_versions::data_number::DataNumber")
    if ctx.anchor("R16.4", "DataNumber", dn):
        ints = all(len(v["fields"]) == 1 and v["fields"][0]["ty"] in JSON_KEY_OK for v in dn["variants"])
        ctx.ob("R16.4", "variable_versions::data_number::DataNumber", "integer-payloads", ints, "payload types: %s" % [v["fields"][0]["ty"] for v in dn["variants"]])
        b = ser.get("variable_versions::data_number::DataNumber")
        if b is not None:
            tagged = [c.npath for blk, t, c in b.calls() if c is not None and ("serialize_newtype_variant" in c.npath or "serialize_struct" in c.npath)]
            direct = [c.npath for blk, t, c in b.calls() if c is not None and re.search(r"Serialize for [ui]\d+>::serialize$", c.npath)]
            ctx.ob("R16.4", "variable_versions::data_number::DataNumber", "untagged", not tagged and len(direct) == len(dn["variants"]),
                   "%d payload-direct serialize calls, %d tagged calls" % (len(direct), len(tagged)))
    fv = prog.adts.get("variable_versions::data_number::FieldValue")
    if ctx.anchor("R16.4", "FieldValue", fv):
        floats = [v["name"] for v in fv["variants"] if any(f["ty"] in ("f32", "f64") for f in v["fields"])]
        ctx.ob("R16.4", "variable_versions::data_number::FieldValue", "float-kinds", floats == ["Float64"], "float-carrying variants: %s" % floats)
    # strings
    ns = 0
    for b in prog.bodies.values():
        if b.derived:
            continue
        for (blk, i, s) in block_aggs(b):
            rv = s["rv"]
            if rv["adt"].endswith("FieldValue") and rv["variant"] in ("String", "MacAddr"):
                ns += 1
                e = peel(an.op(b, rv["ops"][0]))
                okc = bool(find(e, lambda n: n[0] == "call" and n[2] is not None and (n[2].npath in ("std::string::String::from_utf8_lossy",) or n[2].nsyn == "std::string::ToString::to_string")))
                ctx.ob("R16.4", b.path, "string-valid-utf8:%s" % rv["variant"], okc, "built from %s" % canon(e)[:160], site=site(s["span"]))
    ctx.floor("R16.4", "crate", "string value construction sites", ns, 2)
