"""C09 — re-exporting a decoded V9 packet reproduces its bytes (DESIGN §4.9)."""
from .common import *
from . import reexport, c04

LEVEL = "other"
EXPLANATION = (
    "Reader/writer table agreement, not byte equality: (R9.1) every wire-bearing field of every struct "
    "the V9 parser fills (layouts recovered from the nom-derive parsers) is emitted by V9::to_be_bytes "
    "under the matching FlowSetBody variant, in wire order, with the parser's width, and derived fields "
    "are not; (R9.2) for every FieldDataType the decoder's consumed width / transform chain and the "
    "encoder arm of the FieldValue (and DataNumber) variant it produces form an inverse pair — the "
    "lossy pairs on the current tree (Duration x4, MacAddr, String, signed 1/2/8/16, ProtocolType) are "
    "pinned by a unit test and listed as known findings; (R9.3) header count/length fields are "
    "re-emitted from the stored field without recomputation."
)
ASSUMPTIONS = ["uN::to_be_bytes / nom be_uN, Ipv4Addr/Ipv6Addr::from / octets, to_vec / clone are mutually inverse (std / nom contracts)"]

V9 = "variable_versions::v9::"
STRUCTS = [(V9 + n, c04.pe_path(V9 + n)) for n in ("Header", "FlowSetHeader", "Templates", "Template", "TemplateField", "OptionsTemplates", "OptionsTemplate", "OptionsTemplateScopeField")] + \
          [(V9 + n, V9 + n + "::parse_be") for n in ("Data", "OptionsData", "OptionDataField")]
VARIANT_OF = {
    V9 + "Templates": {"Template"}, V9 + "Template": {"Template"}, V9 + "TemplateField": {"Template", "OptionsTemplate"},
    V9 + "OptionsTemplates": {"OptionsTemplate"}, V9 + "OptionsTemplate": {"OptionsTemplate"}, V9 + "OptionsTemplateScopeField": {"OptionsTemplate"},
    V9 + "Data": {"Data"}, V9 + "OptionsData": {"OptionsData"}, V9 + "OptionDataField": {"OptionsData"},
}


def run(ctx, env):
    prog = env.prog("default")
    an = An(prog)
    ctx.rule("R9.7", "a decoded value that was altered cannot be re-exported as received: no arithmetic, clamping, narrowing, trimming, truncation or sub-slicing between the wire bytes and the stored FieldValue (value path of from_field_type, shared with C04 R4.11; the known lossy codecs of R9.2 / R10.3 are conversions, not alterations, and are listed there)")
    from . import valuepath as _vp
    _vp.rule(ctx, prog, an, "R9.7", time_units=False)
    ctx.rule("R9.6", "no silent consumption in the V9 and value decoders: every parser step on a returned remainder chain contributes its decoded value to the result (bytes that are consumed but not stored cannot be re-exported); shared with C02 R2.8")
    from . import consume as _consume
    _consume.rule(ctx, prog, an, "R9.6", lambda b: b.path.startswith(("variable_versions::v9::", "variable_versions::data_number::")), floor=12, strict_len=True)
    ctx.rule("R9.8", "the records a decoder reports are made by that decode alone: every element added to the reported collection derives from the input slice, and the collection itself is created by the call - not the drained / taken content of storage kept in the parser object (a reusable buffer that a failed decode leaves half-filled would surface in a later packet): re-export would emit bytes the packet never carried (shared with C02 R2.10)")
    _consume.foreign_rule(ctx, prog, an, "R9.8", lambda b: b.path.startswith(("variable_versions::v9::", "variable_versions::data_number::")), floor=0)
    ctx.rule("R9.5", "V9 templates: every parsed template reaches the cache by an overwriting write on every path, and the template reported in the result is the parsed one; no test of anything but the stored records can keep them out of the cache once they parsed (shared with C06 R6.8)")
    ctx.rule("R9.4", "if a field-decode failure can be swallowed (decoder still returns Ok), the swallowed unit is a whole record: the failure is handled at record level and the returned remainder (it becomes padding) only advances there")
    from . import records as _records
    _records.cursor_rule(ctx, prog, an, "R9.4", "variable_versions::v9::Data::parse_be")
    from . import c06 as _c06
    _c06.rule_template_reaches_cache(ctx, prog, an, "R9.5", only_adt="variable_versions::v9::V9Parser")
    ctx.rule("R9.1", "every wire-bearing field the V9 parser fills is emitted by V9::to_be_bytes under the matching flowset kind, in wire order, with the parsed width; derived fields are not emitted; nothing unclassifiable is emitted")
    ctx.rule("R9.2", "value codec table: for each FieldDataType, decoder (consumed width, transform chain, constructed variant) and the encoder arm of that variant are an inverse pair")
    ctx.rule("R9.3", "the data-record values are emitted by iterating records then fields in stored (index) order, followed by the stored padding")
    ex, flat = reexport.coverage_rule(ctx, prog, an, "R9.1", V9 + "V9::to_be_bytes", STRUCTS, VARIANT_OF, "v9")
    ctx.floor("R9.1", "v9", "wire fields compared", ctx.analysed.get("wire_fields_compared_v9", 0), 29)
    if flat is not None:
        # scope data variants: every variant of ScopeDataField is emitted
        adt = prog.adts.get(V9 + "ScopeDataField")
        if adt:
            em = set(x.split(".")[0] for (lp, cd, c) in flat if c[0] == "bytes" and c[-1][0] == V9 + "ScopeDataField" for x in c[-1][1].split("|"))
            for v in adt["variants"]:
                ctx.ob("R9.1", V9 + "ScopeDataField", "variant-emitted:%s" % v["name"], v["name"] in em, "scope data variant %s payload %s" % (v["name"], "emitted" if v["name"] in em else "never written"))
        # R9.3: data values
        encs = [(i, lp, cd, c) for i, (lp, cd, c) in enumerate(flat) if c[0] == "enc"]
        owners = [ex._loop_owner.get(x, (None, None)) for x in (encs[0][1] if encs else ())]
        ok = len(encs) == 1 and "::data_number::FieldValue::" in encs[0][3][2] and (V9 + "Data", "fields") in owners and any(v == "Data" for (p, v) in encs[0][2])
        ctx.ob("R9.3", V9 + "V9::to_be_bytes", "values-by-record-then-field", ok, "value emissions: %s" % [(e[1], e[3][1]) for e in encs])
        pads = [i for i, (lp, cd, c) in enumerate(flat) if c[0] == "bytes" and c[-1] == (V9 + "Data", "padding")]
        ctx.ob("R9.3", V9 + "V9::to_be_bytes", "padding-after-values", bool(pads) and bool(encs) and pads[0] > encs[0][0], "Data.padding emitted at position %s, values at %s" % (pads, [e[0] for e in encs]))
    reexport.codec_rule(ctx, prog, an, "R9.2")
