"""A7 — byte-layout analysis of the hand-written exporters (`to_be_bytes`).

An exporter builds `Vec<u8>` values by a sequence of mutation calls
(extend_from_slice / append / push / Extend::extend) in CFG order.  For each Vec
local we collect its *emission events*; each event carries
  - its position (reverse post-order index of the block),
  - the loop context (which collections are being iterated, outer -> inner),
  - the condition context (discriminant tests that dominate it),
  - the content: Atom(path, width, encoder) | Bytes(path) | Enc(path, encoder) | Nested(events) | Unknown.
No path enumeration, no solver: one pass over the CFG plus the def-use slicer.
"""
import re

from .common import *
from ..mir import Callee

EXTEND_FROM_SLICE = ("std::vec::Vec::extend_from_slice", "alloc::vec::Vec::extend_from_slice")
APPEND = ("std::vec::Vec::append",)
PUSH = ("std::vec::Vec::push",)
NEXT = "std::iter::Iterator::next"
TO_BE = re.compile(r"^core::(num|f32|f64)::<impl ([uif]\d+|usize)>::to_be_bytes$")
TO_LE = re.compile(r"^core::(num|f32|f64)::<impl ([uif]\d+|usize)>::to_(le|ne)_bytes$")
W = {"u8": 1, "i8": 1, "u16": 2, "i16": 2, "u32": 4, "i32": 4, "f32": 4, "u64": 8, "i64": 8, "f64": 8, "u128": 16, "i128": 16}


def rpo(body):
    order = []
    seen = set()
    st = [(0, iter(body.succs(0)))]
    seen.add(0)
    while st:
        v, it = st[-1]
        adv = False
        for w in it:
            if w not in seen:
                seen.add(w)
                st.append((w, iter(body.succs(w))))
                adv = True
                break
        if not adv:
            order.append(v)
            st.pop()
    order.reverse()
    return {b: i for i, b in enumerate(order)}


class Exporter:
    def __init__(self, prog, an, body, argpaths=None, depth=0, argowners=None):
        self.argpaths = argpaths or {}
        self.argowners = argowners or {}
        self.argcontent = {}
        self.argfo = {}
        self.tmap = {}
        self.depth = depth
        self.prog = prog
        self.an = an
        self.b = body
        self.sl = an.slicer(body)
        self.order = rpo(body)
        self.loops = body.sccs()
        self._loop_of = {}
        self._nest = {}
        self._analyse_loops()
        self.problems = []

    # ---- loops -------------------------------------------------------------
    def _analyse_loops(self):
        """For each block: tuple of loop source paths (outer -> inner)."""
        b = self.b
        info = []  # (blocks set, source path)

        def rec(blocks, depth):
            from .c01 import sub_sccs
            for comp in sub_sccs(b, blocks):
                cs = set(comp)
                src = None
                hdr = None
                for blk in comp:
                    t = b.term(blk)
                    if t["k"] == "call" and t["func"].get("k") == "const" and "fn" in t["func"]:
                        c = Callee(t["func"]["fn"])
                        if c.nsyn == NEXT:
                            # header candidate: removing it breaks this level's cycles (inner loops remain)
                            it = self.an.op(b, t["args"][0])
                            cand = self.path_of(it, iterating=True)
                            self._loop_owner = getattr(self, "_loop_owner", {})
                            self._loop_owner[cand] = self.loop_source_owner(it)
                            inner = sub_sccs(b, cs - {blk})
                            if all(len(set(ic)) < len(cs) for ic in inner):
                                if hdr is None or self.order.get(blk, 0) < self.order.get(hdr, 0):
                                    hdr, src = blk, cand
                info.append((cs, src or "?loop", depth, hdr))
                if hdr is not None:
                    rec(cs - {hdr}, depth + 1)

        rec(set(b.live_blocks()), 0)
        self.loopinfo = info
        for blk in b.live_blocks():
            ctx = [(d, s) for (cs, s, d, h) in info if blk in cs]
            ctx.sort()
            self._nest[blk] = tuple(s for d, s in ctx)

    def loop_source_owner(self, it):
        """Owner (adt, field) of the collection a loop iterates."""
        x = peel(it)
        seen = 0
        while seen < 12:
            seen += 1
            if x[0] == "arg" and x[1] in self.argowners:
                return self.argowners[x[1]]
            if x[0] == "field":
                return (x[3], x[2])
            if x[0] == "phi":
                for m in x[1]:
                    r = self.loop_source_owner(m)
                    if r[0]:
                        return r
                return (None, None)
            if x[0] == "call" and x[3]:
                x = peel(x[3][0])
                continue
            if x[0] in ("some", "tfield", "downcast"):
                x = peel(x[1])
                continue
            break
        return (None, None)

    def loopctx(self, blk):
        return self._nest.get(blk, ())

    # ---- paths ---------------------------------------------------------------
    def path_of(self, e, iterating=False):
        """Render the source of a value as a field path rooted at `self`."""
        e = peel(e)
        k = e[0]
        if k == "arg":
            ap = self.argpaths.get(e[1])
            if ap is not None and not isinstance(ap, list):
                return ap
            return "self" if e[1] == 1 else "arg%d" % e[1]
        if k == "field":
            return "%s.%s" % (self.path_of(e[1]), e[2])
        if k == "tfield":
            base = peel(e[1])
            if base[0] == "arg" and isinstance(self.argpaths.get(base[1]), list):
                env = self.argpaths[base[1]]
                if e[2] < len(env):
                    return env[e[2]]
            return "%s.%d" % (self.path_of(e[1]), e[2])
        if k == "downcast":
            return "%s as %s" % (self.path_of(e[1]), e[2])
        if k == "some":
            inner = peel(e[1])
            if inner[0] == "call" and inner[2] is not None and inner[2].nsyn == NEXT:
                return self.path_of(inner[3][0], iterating=True)
            return "%s?" % self.path_of(inner)
        if k == "cycle":
            return self.path_of(self.sl.local(e[1])) if False else "cycle%d" % e[1]
        if k == "phi":
            ps = sorted(set(self.path_of(x, iterating) for x in e[1]))
            return ps[0] if len(ps) == 1 else "phi(%s)" % "|".join(ps)
        if k == "call" and e[2] is not None:
            n = e[2].nsyn
            np_ = e[2].npath
            if n == "std::iter::IntoIterator::into_iter" or np_ in ("core::slice::<impl [T]>::iter", "std::slice::<impl [T]>::iter",
                                                                    "std::collections::BTreeMap::iter", "std::collections::BTreeMap::values"):
                suffix = "[*]"
                if np_ == "std::collections::BTreeMap::values":
                    suffix = "[*v]"
                return self.path_of(e[3][0]) + suffix
            if n == NEXT:
                return self.path_of(e[3][0], iterating=True)
            if n in ("std::iter::Iterator::flat_map", "std::iter::Iterator::map", "std::iter::Iterator::enumerate", "std::iter::Iterator::cloned", "std::iter::Iterator::copied") and e[3]:
                return self.path_of(e[3][0], iterating=True) + ("[*]" if n.endswith("flat_map") else "")
            return "call:%s(%s)" % (e[2].npath, ",".join(self.path_of(a) for a in e[3][:1]))
        if k == "const":
            return "const:%s" % e[1]
        if k == "binop" and e[1] == "BitOr":
            # `field | CONST` writes the field with bits added (the IPFIX enterprise bit put back on export): every
            # bit the decoded field holds is emitted - OR cannot drop one
            sides = [peel(e[2]), peel(e[3])]
            nonconst = [x for x in sides if x[0] != "const"]
            if len(nonconst) == 1:
                return self.path_of(nonconst[0], iterating)
        return "?%s" % k

    def owner_of(self, e):
        """(adt path, field name) of the innermost ADT field an expression reads, or the enum variant payload."""
        e = peel(e)
        if e[0] == "arg" and e[1] in self.argfo:
            return self.argfo[e[1]]
        if e[0] == "field":
            if e[1][0] == "downcast" or peel(e[1])[0] == "downcast":
                d = e[1] if e[1][0] == "downcast" else peel(e[1])
                return (e[3], "%s.%s" % (d[2], e[2]))
            return (e[3], e[2])
        if e[0] == "some":
            return self.owner_of(e[1])
        if e[0] == "phi":
            os_ = set(self.owner_of(x) for x in e[1])
            if len(os_) == 1:
                return os_.pop()
        if e[0] == "binop" and e[1] == "BitOr":
            nonconst = [x for x in (peel(e[2]), peel(e[3])) if x[0] != "const"]
            if len(nonconst) == 1:
                return self.owner_of(nonconst[0])
        if e[0] == "tfield":
            return self.owner_of(e[1])
        return (None, None)

    # ---- conditions -----------------------------------------------------------
    def condctx(self, blk):
        """Discriminant tests whose chosen edge dominates blk: ((path, variant), ..)."""
        b = self.b
        out = []
        for sb in sorted(b.live_blocks()):
            t = b.term(sb)
            if t["k"] != "switch" or sb == blk:
                continue
            e = peel(self.an.op(b, t["op"]))
            if e[0] != "discr":
                continue
            # skip the loop-driving `next()` Option switch
            inner = peel(e[1])
            if inner[0] == "call" and inner[2] is not None and inner[2].nsyn in (NEXT, "std::ops::Try::branch"):
                continue
            for v, tb in t["targets"]:
                if tb != t["otherwise"] and b.edge_dominates((sb, tb), blk) and self._same_iteration(sb, blk):
                    out.append((self.path_of(e[1]), self.variant_name(e[1], v, sb)))
        return tuple(out)

    def _same_iteration(self, sb, blk):
        return self.loopctx(sb) == self.loopctx(blk)[:len(self.loopctx(sb))]

    def variant_name(self, e, v, sb):
        # find the place type from the discriminant statement
        b = self.b
        t = b.term(sb)
        l = t["op"]["place"]["l"] if t["op"]["k"] in ("copy", "move") else None
        for d in self.sl.defs.get(l, []):
            if d[0] == "assign" and d[3]["k"] == "discriminant":
                pl = d[3]["place"]
                ty = pl.get("ty") or b.local_ty(pl["l"])
                ty = ty.lstrip("&").strip()
                adt = self.prog.adts.get(ty)
                if adt:
                    for var in adt["variants"]:
                        if var["vi"] == v or (var.get("discr") is not None and str(var.get("discr")) == str(v)):
                            return var["name"]
                if ty.startswith("std::option::Option<"):
                    return {0: "None", 1: "Some"}.get(v, str(v))
                if ty.startswith("std::result::Result<"):
                    return {0: "Ok", 1: "Err"}.get(v, str(v))
        return str(v)

    # ---- content ----------------------------------------------------------------
    def content(self, e, depth=0):
        if self.tmap and depth == 0:
            # inside a generic helper: instantiate its type parameters, resolve trait-method calls on them
            from ..slicer import subst_types
            e = self.an.expand(subst_types(e, self.tmap, None, self.prog))
        e0 = e
        e = peel(e)
        k = e[0]
        if depth > 8:
            return ("unknown", "depth")
        if k == "arg" and e[1] in self.argcontent:
            return self.argcontent[e[1]]
        # locate a Vec local (nested buffer)
        ml = find(e0, lambda n: n[0] == "mutlocal")
        if ml and peel(e0, mutlocal=False)[0] == "mutlocal":
            return ("nested", peel(e0, mutlocal=False)[1])
        if k == "call" and e[2] is not None:
            n = e[2].npath
            m = TO_BE.match(n)
            if m:
                inner = peel(e[3][0])
                # `addr.to_bits().to_be_bytes()` (or `u32::from(addr).to_be_bytes()`) are the octets of the address
                if inner[0] == "call" and inner[2] is not None and inner[3] and (
                        inner[2].npath in ("std::net::Ipv4Addr::to_bits", "std::net::Ipv6Addr::to_bits")
                        or inner[2].npath in ("<u32 as std::convert::From<std::net::Ipv4Addr>>::from", "<u128 as std::convert::From<std::net::Ipv6Addr>>::from")):
                    return ("atom", self.path_of(inner[3][0]), W.get(m.group(2)), "octets", self.owner_of(inner[3][0]))
                return ("atom", self.path_of(e[3][0]), W.get(m.group(2)), "to_be_bytes", self.owner_of(e[3][0]))
            if TO_LE.match(n):
                return ("atom", self.path_of(e[3][0]), None, "LITTLE-ENDIAN:" + n)
            if n in ("std::net::Ipv4Addr::octets",):
                return ("atom", self.path_of(e[3][0]), 4, "octets", self.owner_of(e[3][0]))
            if n in ("std::net::Ipv6Addr::octets",):
                return ("atom", self.path_of(e[3][0]), 16, "octets", self.owner_of(e[3][0]))
            if n in ("std::slice::<impl [T]>::to_vec",):
                return self.content(e[3][0], depth + 1)
            if e[2].nsyn == "std::iter::Iterator::collect":
                items = self.collect_items(e)
                if items is not None:
                    return ("inline", items)
            if e[2].nsyn == "std::ops::Index::index" and any("RangeFull" in str(a) for a in (e[2].syn_args or [])):
                return self.content(e[3][0], depth + 1)        # `bytes[..]`
            if n.endswith("<impl [V]>::concat") or n.endswith("<impl [T]>::concat"):
                return self.content(e[3][0], depth + 1)        # `[a, b, c].concat()`
            if e[2].nsyn.startswith("std::iter::Iterator::") or n in ("std::iter::once",):
                items = self.iter_items(e)
                if items is not None:
                    return ("inline", items)
            if e[2].local:
                hb = self.prog.bodies.get(e[2].path)
                if hb is not None and hb.local_ty(0).startswith("&") and depth < 6:
                    # a private accessor handing out (a view of) stored bytes: `fn as_bytes(&self) -> &[u8]`
                    x = self.an.expand(e)
                    if not (peel(x)[0] == "call" and peel(x)[2] is not None and peel(x)[2].path == e[2].path):
                        return self.content(x, depth + 1)
                return ("enc", self.path_of(e[3][0]) if e[3] else "?", e[2].path)
            return ("unknown", "call %s" % n)
        if k == "ok":
            inner = peel(e[1])
            if inner[0] == "call" and inner[2] is not None and inner[2].local:
                return ("enc", self.path_of(inner[3][0]) if inner[3] else "?", inner[2].path)
            return ("unknown", canon(e)[:120])
        if k in ("field", "tfield", "downcast", "some"):
            return ("bytes", self.path_of(e), self.owner_of(e))
        if k == "phi":
            subs = [self.content(x, depth + 1) for x in e[1]]
            if subs and all(c[0] == "bytes" for c in subs):
                adts = set(c[2][0] for c in subs)
                if len(adts) == 1:
                    return ("bytes", "{%s}" % "|".join(sorted(set(c[1] for c in subs))), (list(adts)[0], "|".join(sorted(set(c[2][1] for c in subs)))))
            uniq = {repr(c): c for c in subs}
            if len(uniq) == 1:
                return subs[0]
            # `let tail = match body { A(a) => &a.padding, B(b) => &b.padding, .. }; out.extend(tail)`: one emission
            # whose source is selected by the variant — the same as emitting each member inside its own arm
            if subs and all(c[0] == "bytes" and " as " in c[1] for c in subs):
                alts = []
                for c in subs:
                    scrut, rest = c[1].split(" as ", 1)
                    variant = re.split(r"[.\[ ]", rest, 1)[0]
                    alts.append(((scrut, variant), c))
                if len(set(a[0][0] for a in alts)) == 1 and len(set(a[0][1] for a in alts)) == len(alts):
                    return ("alt", alts)
            return ("unknown", "value depends on the path taken: %s" % [c[:2] for c in subs][:4])
        if k == "array":
            out = []
            for x in e[1]:
                c = self.content(x, depth + 1)
                x0 = x
                while x0[0] == "cast":
                    x0 = x0[2]
                if c[0] == "bytes" and x0[0] != "ref":
                    c = ("atom", c[1], 1, "push", c[2])       # a by-value element of a `[u8; N]` literal is one byte
                out.append(c)
            return ("seq", out)
        if k == "const":
            return ("constbyte", e[1])
        return ("unknown", canon(e)[:120])

    def wrapper_field(self, ty):
        """A crate struct that wraps the byte buffer (`struct BeWriter { buf: Vec<u8> }`): name of its Vec<u8> field."""
        ty = ty.replace("&mut ", "").replace("&", "").strip()
        adt = self.prog.adts.get(ty)
        if not adt or adt.get("kind") not in (None, "struct", "Struct") and len(adt["variants"]) != 1:
            return None
        vf = [f["name"] for f in adt["variants"][0]["fields"] if f["ty"] == "std::vec::Vec<u8>"] if adt["variants"] else []
        return vf[0] if len(vf) == 1 else None

    def returns_receiver(self, path, depth=0):
        """A crate method `fn m(&mut self, ..) -> &mut Self` on a buffer (wrapper) whose result is its receiver,
        directly or through another such method (`self.put(..)`)."""
        hb = self.prog.bodies.get(path)
        if hb is None or depth > 4 or hb.arg_count < 1 or not self._is_buf_ty(hb.local_ty(1)) or not hb.local_ty(0).startswith("&mut"):
            return False
        r = peel(self.an.local(hb, 0))
        while r[0] in ("ref", "deref"):
            r = r[1]
        if r == ("arg", 1):
            return True
        if r[0] == "call" and r[2] is not None and r[2].local and r[3]:
            a0 = peel(r[3][0])
            while a0[0] in ("ref", "deref"):
                a0 = a0[1]
            return a0 == ("arg", 1) and self.returns_receiver(r[2].path, depth + 1)
        return False

    def _is_buf_ty(self, ty):
        return "Vec<u8>" in ty or self.wrapper_field(ty) is not None

    def vec_local_of(self, e, depth=0):
        """The byte buffer a `&mut v` argument refers to: a Vec local of this body (int) or a `&mut Vec<u8>`
        parameter (("arg", k)). A crate struct wrapping one Vec<u8> counts as the buffer itself, and a crate method
        returning its `&mut self` receiver (builder chaining) refers to the receiver's buffer."""
        x = e
        while x[0] in ("ref", "deref"):
            x = x[1]
        if depth > 80:
            return None
        if x[0] == "field" and len(x) > 3 and self.wrapper_field(x[3] or "") == x[2]:
            return self.vec_local_of(x[1], depth + 1)
        if x[0] == "call" and x[2] is not None and x[2].local and x[3]:
            hb = self.prog.bodies.get(x[2].path)
            if self.returns_receiver(x[2].path):
                return self.vec_local_of(x[3][0], depth + 1)
            return None
        if x[0] == "tfield" and getattr(self, "bufcaps", None) and x[2] in self.bufcaps:
            base = x[1]
            while base[0] in ("ref", "deref"):
                base = base[1]
            if base == ("arg", 1):
                return ("cap", x[2])        # the buffer captured by this closure (`iter.for_each(|x| x.write(out))`)
        if x[0] == "mutlocal":
            inner = x[2]
            while inner[0] in ("ref", "deref"):
                inner = inner[1]
            if inner[0] == "tfield" and getattr(self, "bufcaps", None) and inner[2] in self.bufcaps:
                return ("cap", inner[2])
            if inner[0] == "arg" and self._is_buf_ty(self.b.local_ty(inner[1])):
                return ("arg", inner[1])
            if inner[0] == "call" and inner[2] is not None and inner[2].local:
                via = self.vec_local_of(inner, depth + 1)
                if via is not None:
                    return via
            return x[1]
        if x[0] == "arg" and self.b.local_ty(x[1]).startswith("&mut") and self._is_buf_ty(self.b.local_ty(x[1])):
            return ("arg", x[1])
        return None

    def _sub_exporter(self, callee_path, argexprs, callee=None):
        """Exporter for a crate helper / closure body with its parameters mapped to this body's paths."""
        cb = self.prog.body(callee_path)
        if cb is None or self.depth > 4:
            return None
        ap = {}
        ao = {}
        if self.tmap:
            from ..slicer import subst_types
            argexprs = [a if (a is None or isinstance(a, list)) else self.an.expand(subst_types(a, self.tmap, None, self.prog)) for a in argexprs]
        for i, a in enumerate(argexprs):
            if isinstance(a, list):
                ap[i + 1] = a
            elif a is not None:
                ap[i + 1] = self.path_of(a)
                ow = self.loop_source_owner(a)
                if ow[0]:
                    ao[i + 1] = ow
        # an argument that is a literal array of values (`&[t.template_id, t.field_count]`): a loop over it in the
        # helper is unrolled over the listed elements
        arrtokens = {}
        for i, a in enumerate(argexprs):
            if a is None or isinstance(a, list):
                continue
            pa = peel(a)
            if pa[0] == "array" and pa[1]:
                tok = "\u27e6arr%d\u27e7" % (i + 1)
                ap[i + 1] = tok
                arrtokens[tok] = [(self.path_of(x), self.owner_of(x)) for x in pa[1]]
        sub = Exporter(self.prog, self.an, cb, ap, self.depth + 1, ao)
        sub.arrtokens = arrtokens
        gens = cb.j.get("generics") or []
        if callee is not None and gens and callee.args and len(gens) == len(callee.args):
            sub.tmap = {g: self.tmap.get(a, a) for g, a in zip(gens, callee.args)}
        elif cb.kind == "Closure":
            sub.tmap = dict(self.tmap)
        for i, a in enumerate(argexprs):
            if a is None or isinstance(a, list):
                continue
            # by-value arguments: what the caller hands over (`w.put(x.to_be_bytes())`, `w.u16(self.count)`)
            if self.vec_local_of(a) is None:
                cont = self.content(a)
                if cont[0] in ("atom", "seq", "bytes", "constbyte", "enc", "inline"):
                    sub.argcontent[i + 1] = cont
                fo = self.owner_of(a)
                if fo[0]:
                    sub.argfo[i + 1] = fo
        return sub

    def collect_items(self, call):
        """collect(<iterator chain>) -> the chain's items."""
        return self.iter_items(call[3][0]) if call[3] else None

    def _content_items(self, c):
        if c[0] == "unknown":
            return None
        return self.flat([{"loop": (), "cond": (), "content": c}])

    def iter_items(self, it, depth=0):
        """Items emitted, in order, by an iterator expression that yields bytes / byte buffers: flat_map / map over a
        collection (closure or named crate function per element), once(x), chain(a, b), flatten(a), into_iter(buffer)."""
        chain = peel(it, identity=())
        if depth > 8 or not (chain[0] == "call" and chain[2] is not None):
            return None
        n = chain[2].nsyn
        a = chain[3]
        if n == "std::iter::Iterator::chain" and len(a) == 2:
            x, y = self.iter_items(a[0], depth + 1), self.iter_items(a[1], depth + 1)
            return None if x is None or y is None else x + y
        if n in ("std::iter::Iterator::flatten", "std::iter::Iterator::copied", "std::iter::Iterator::cloned") and a:
            return self.iter_items(a[0], depth + 1)
        if chain[2].npath == "std::iter::once" and a:
            return self._content_items(self.content(a[0]))
        if n == "std::iter::IntoIterator::into_iter" and a:
            inner = peel(a[0], identity=())
            if inner[0] == "call" and inner[2] is not None and (inner[2].nsyn.startswith("std::iter::Iterator::") or inner[2].npath == "std::iter::once"):
                return self.iter_items(inner, depth + 1)
            return self._content_items(self.content(a[0]))
        if not (n in ("std::iter::Iterator::flat_map", "std::iter::Iterator::map") and len(a) == 2):
            return None
        srcpath = self.path_of(chain[3][0], iterating=True)
        clo = peel(chain[3][1], identity=(), casts=False)
        if clo[0] == "closure":
            env = [self.path_of(u) for u in clo[2]]
            sub = self._sub_exporter(clo[1], [env, None])
            if sub is None:
                return None
            sub.argpaths[2] = srcpath
        elif clo[0] == "constfn" and clo[1].local:
            sub = self._sub_exporter(clo[1].path, [None])
            if sub is None:
                return None
            sub.argpaths[1] = srcpath
        else:
            return None
        ow = self.loop_source_owner(chain[3][0])
        items = sub.flat()
        if items is None:
            return None
        self._loop_owner = getattr(self, "_loop_owner", {})
        self._loop_owner.update(getattr(sub, "_loop_owner", {}))
        self._loop_owner[srcpath] = ow
        return [((srcpath,) + tuple(lp), cd, cc) for (lp, cd, cc) in items]

    def _inline_items(self, sub, buf):
        evs = sub.events(buf)
        items = sub.flat(evs)
        for tok, elems in (getattr(sub, "arrtokens", None) or {}).items():
            out = []
            for (lp, cd, cc) in items:
                hit = [x for x in lp if isinstance(x, str) and x.startswith(tok)]
                if not hit:
                    out.append((lp, cd, cc))
                    continue
                lp2 = tuple(x for x in lp if x not in hit)
                if cc[0] == "atom" and isinstance(cc[1], str) and cc[1].startswith(tok):
                    for (pth, own) in elems:
                        out.append((lp2, cd, (cc[0], pth) + tuple(cc[2:4]) + (own,)))
                else:
                    out.append((lp, cd, ("unknown", "loop over a literal array with a body that is not a single per-element emission")))
            # the per-element emissions must stay grouped per element: only valid when the loop emits one item
            n_in_loop = len([1 for (lp, cd, cc) in items if any(isinstance(x, str) and x.startswith(tok) for x in lp)])
            if n_in_loop > 1:
                out = [(lp, cd, ("unknown", "loop over a literal array emits several items per element")) if any(isinstance(x, str) and x.startswith(tok) for x in lp) else (lp, cd, cc) for (lp, cd, cc) in items]
            items = out
        self._loop_owner = getattr(self, "_loop_owner", {})
        self._loop_owner.update(getattr(sub, "_loop_owner", {}))
        return items

    def events(self, vlocal, depth=0, seen=None):
        """Emission events for Vec local `vlocal`, in RPO order."""
        if seen is None:
            seen = set()
        if vlocal in seen or depth > 6:
            return [{"pos": 0, "loop": (), "cond": (), "content": ("unknown", "recursive buffer")}]
        seen = seen | {vlocal}
        b = self.b
        evs = []
        # initial content
        for d in (self.sl.defs.get(vlocal, []) if isinstance(vlocal, int) else []):
            if d[0] == "call":
                t = d[2]
                c = Callee(t["func"]["fn"]) if t["func"].get("k") == "const" and "fn" in t["func"] else None
                if c is None:
                    continue
                if c.npath in ("std::vec::Vec::new", "std::vec::Vec::with_capacity") or c.nsyn in ("std::default::Default::default",):
                    continue
                if c.local and self._fresh_ctor(c):
                    continue
                if c.local and c.path in self.prog.bodies and self.prog.bodies[c.path].local_ty(0) == "std::vec::Vec<u8>":
                    # `let mut bytes = self.header.be_bytes();` — the helper's output is the buffer's first content
                    cont = self.content(self.an.simp(self.sl.call_expr(d[1], t)))
                    evs.append({"pos": self.order.get(d[1], 0), "block": d[1], "loop": self.loopctx(d[1]), "cond": self.condctx(d[1]), "content": cont})
                    continue
                if c.npath in ("std::slice::<impl [T]>::to_vec",):
                    cont = self.content(self.an.op(b, t["args"][0]))
                    evs.append({"pos": self.order.get(d[1], 0), "block": d[1], "loop": self.loopctx(d[1]), "cond": self.condctx(d[1]), "content": cont})
                    continue
                if c.npath in ("std::slice::<impl [T]>::into_vec", "alloc::slice::<impl [T]>::into_vec"):
                    cont = self.content(self.an.op(b, t["args"][0]))
                    if cont[0] not in ("unknown",) or True:
                        evs.append({"pos": self.order.get(d[1], 0), "block": d[1], "loop": self.loopctx(d[1]), "cond": self.condctx(d[1]), "content": cont})
                    continue
                evs.append({"pos": self.order.get(d[1], 0), "block": d[1], "loop": self.loopctx(d[1]), "cond": self.condctx(d[1]),
                            "content": ("unknown", "buffer initialised by %s" % c.npath)})
        # initial content produced by an iterator chain: collect(flat_map / map(iter(X), closure))
        for d in self.sl.defs.get(vlocal, []) if isinstance(vlocal, int) else []:
            if d[0] == "call":
                t = d[2]
                c = Callee(t["func"]["fn"]) if t["func"].get("k") == "const" and "fn" in t["func"] else None
                if c is not None and c.nsyn == "std::iter::Iterator::collect":
                    items = self.collect_items(self.an.simp(self.sl.call_expr(d[1], t)))
                    if items is not None:
                        evs = [e for e in evs if not (e["content"][0] == "unknown" and "collect" in e["content"][1])]
                        evs.append({"pos": self.order.get(d[1], 0), "block": d[1], "loop": self.loopctx(d[1]), "cond": self.condctx(d[1]), "content": ("inline", items)})
        for blk, t, c in b.calls():
            if c is None or not t["args"]:
                continue
            # a crate helper that receives the buffer: its emissions are inlined at the call site
            if c.local and c.path in self.prog.bodies and c.path != b.path:
                bufarg = [i for i, a in enumerate(t["args"]) if self.vec_local_of(self.an.op(b, a)) == vlocal]
                if bufarg:
                    sub = self._sub_exporter(c.path, [self.an.op(b, a) for a in t["args"]], c)
                    if sub is not None:
                        items = self._inline_items(sub, ("arg", bufarg[0] + 1))
                        evs.append({"pos": self.order.get(blk, 0), "block": blk, "loop": self.loopctx(blk), "cond": self.condctx(blk), "content": ("inline", items)})
                    else:
                        evs.append({"pos": self.order.get(blk, 0), "block": blk, "loop": self.loopctx(blk), "cond": self.condctx(blk), "content": ("unknown", "buffer handed to %s" % c.path)})
                    continue
            # `iter.for_each(|x| ..out..)`: a closure that captured the buffer runs once per element, in order
            if c.nsyn == "std::iter::Iterator::for_each" and len(t["args"]) == 2:
                clo = peel(self.an.op(b, t["args"][1]), identity=(), casts=False)
                if clo[0] == "closure":
                    ks = [k for k, u in enumerate(clo[2]) if self.vec_local_of(u) == vlocal]
                    if ks:
                        srcpath = self.path_of(self.an.op(b, t["args"][0]), iterating=True)
                        env = [self.path_of(u) for u in clo[2]]
                        sub = self._sub_exporter(clo[1], [env, None])
                        if sub is not None:
                            sub.argpaths[2] = srcpath
                            sub.bufcaps = set(ks)
                            items = self._inline_items(sub, ("cap", ks[0]))
                            self._loop_owner = getattr(self, "_loop_owner", {})
                            self._loop_owner[srcpath] = self.loop_source_owner(self.an.op(b, t["args"][0]))
                            items = [((srcpath,) + tuple(lp), cd, cc) for (lp, cd, cc) in items]
                            evs.append({"pos": self.order.get(blk, 0), "block": blk, "loop": self.loopctx(blk), "cond": self.condctx(blk), "content": ("inline", items)})
                        else:
                            evs.append({"pos": self.order.get(blk, 0), "block": blk, "loop": self.loopctx(blk), "cond": self.condctx(blk), "content": ("unknown", "buffer captured by an unanalysable for_each closure")})
                        continue
            recv = self.an.op(b, t["args"][0])
            if self.vec_local_of(recv) != vlocal:
                continue
            # `<Vec<u8> as io::Write>::write_all(buf, bytes)` appends all bytes and never fails (std contract)
            io_write = c.nsyn == "std::io::Write::write_all" and (c.syn_args or [""])[0] == "std::vec::Vec<u8>"
            if c.npath in EXTEND_FROM_SLICE or c.npath in APPEND or c.nsyn == "std::iter::Extend::extend" or io_write:
                src = self.an.op(b, t["args"][1])
                nl = self.vec_local_of(src) if c.npath in APPEND else None
                cont = self.content(src)
                if cont[0] == "nested":
                    nl = cont[1]
                if nl is not None:
                    sub = self.events(nl, depth + 1, seen)
                    # the nested buffer must be complete before it is emitted
                    late = [s for s in sub if s["pos"] > self.order.get(blk, 0) and not (set(s["loop"]) & set(self.loopctx(blk)))]
                    cont = ("nested", nl, sub, bool(late))
                evs.append({"pos": self.order.get(blk, 0), "block": blk, "loop": self.loopctx(blk), "cond": self.condctx(blk), "content": cont})
            elif c.npath in PUSH:
                evs.append({"pos": self.order.get(blk, 0), "block": blk, "loop": self.loopctx(blk), "cond": self.condctx(blk),
                            "content": ("atom", self.path_of(self.an.op(b, t["args"][1])), 1, "push")})
            elif c.npath in ("std::vec::Vec::clear", "std::vec::Vec::truncate", "std::vec::Vec::insert", "std::vec::Vec::remove", "std::vec::Vec::pop",
                             "std::vec::Vec::drain", "std::vec::Vec::reverse", "std::vec::Vec::swap_remove", "std::vec::Vec::retain", "std::vec::Vec::dedup",
                             "std::vec::Vec::splice", "std::vec::Vec::split_off", "std::vec::Vec::resize", "std::vec::Vec::extend_from_within"):
                evs.append({"pos": self.order.get(blk, 0), "block": blk, "loop": self.loopctx(blk), "cond": self.condctx(blk),
                            "content": ("unknown", "buffer edited by %s" % c.npath)})
            elif str((t.get("argtys") or [""])[0]).startswith("&mut") and not re.search(r"::(reserve|reserve_exact|shrink_to_fit|shrink_to|try_reserve|try_reserve_exact|capacity|len|is_empty)$", c.npath):
                # anything else that takes the output buffer mutably can overwrite what was emitted
                # (`out[a..b].copy_from_slice(..)`, `out.as_mut_slice()`, `out.iter_mut()`, `out.sort()` ..)
                evs.append({"pos": self.order.get(blk, 0), "block": blk, "loop": self.loopctx(blk), "cond": self.condctx(blk),
                            "content": ("unknown", "emitted bytes may be overwritten: buffer borrowed mutably by %s" % c.npath)})
        evs.sort(key=lambda x: x["pos"])
        return evs

    def array_events(self, vlocal):
        """Emission events of a fixed-size byte array `[u8; N]` that is filled by positioned stores
        (`out[a..b].copy_from_slice(&x.to_be_bytes())`, `out[i] = x`) and then handed out: the stores, ordered by
        offset, provided they tile [0, N) exactly, each happens once (not in a loop, not under a condition)."""
        b = self.b
        m = re.match(r"^\[u8; (\d+)\]$", b.local_ty(vlocal))
        if not m:
            return None
        n = int(m.group(1))
        stores = []

        def bad(why, blk=0):
            return [{"pos": 0, "block": blk, "loop": (), "cond": (), "content": ("unknown", why)}]
        for blk, t, c in b.calls():
            if c is None or not c.npath.endswith("<impl [T]>::copy_from_slice") or len(t["args"]) != 2:
                continue
            dst = peel(self.an.op(b, t["args"][0]), mutlocal=False)
            while dst[0] in ("ref", "deref"):
                dst = peel(dst[1], mutlocal=False)
            if not (dst[0] == "call" and dst[2] is not None and dst[2].npath.endswith("::index_mut") and len(dst[3]) == 2):
                continue
            base = peel(dst[3][0], mutlocal=False)
            while base[0] in ("ref", "deref"):
                base = peel(base[1], mutlocal=False)
            if not (base[0] == "mutlocal" and base[1] == vlocal):
                continue
            rng = peel(dst[3][1])
            if not (rng[0] == "agg" and str(rng[1]).endswith("ops::Range") and len(rng[3]) == 2):
                return bad("array written through a non-constant range", blk)
            lo, hi = const_eval(peel(rng[3][0], widen=True)), const_eval(peel(rng[3][1], widen=True))
            if not (lo and hi and len(lo) == 1 and len(hi) == 1):
                return bad("array written through a non-constant range", blk)
            lo, hi = next(iter(lo)), next(iter(hi))
            if self.loopctx(blk) or self.condctx(blk):
                return bad("array store inside a loop / condition", blk)
            stores.append((lo, hi - lo, blk, self.content(self.an.op(b, t["args"][1]))))
        for blk, i, st in b.stmts():
            if st["k"] == "assign" and st["place"]["l"] == vlocal and st["place"].get("p"):
                pr = st["place"]["p"]
                if len(pr) != 1 or pr[0]["k"] not in ("index", "constant_index"):
                    return bad("array written through %s" % [x["k"] for x in pr], blk)
                if pr[0]["k"] == "index":
                    iv = const_eval(peel(self.an.local(b, pr[0]["l"]), widen=True))
                else:
                    iv = {pr[0].get("offset")}
                if not iv or len(iv) != 1 or None in iv:
                    return bad("array element store at a non-constant index", blk)
                if self.loopctx(blk) or self.condctx(blk):
                    return bad("array store inside a loop / condition", blk)
                op = st["rv"].get("op") if st["rv"]["k"] == "use" else None
                cont = ("atom", self.path_of(self.an.op(b, op)), 1, "push") if op is not None else ("unknown", "array element computed by %s" % st["rv"]["k"])
                stores.append((next(iter(iv)), 1, blk, cont))
        stores.sort(key=lambda x: x[0])
        pos = 0
        evs = []
        for off, w, blk, cont in stores:
            if off != pos:
                return bad("array stores do not tile the array: offset %d follows %d" % (off, pos), blk)
            if cont[0] == "atom" and cont[2] is not None and cont[2] != w:
                return bad("a %d-byte value is stored into a %d-byte range at offset %d" % (cont[2], w, off), blk)
            pos = off + w
            evs.append({"pos": len(evs), "block": blk, "loop": (), "cond": (), "content": cont})
        if pos != n:
            return bad("array stores cover %d of %d bytes" % (pos, n))
        return evs

    def _fresh_ctor(self, c):
        """A crate constructor of a buffer wrapper whose Vec<u8> starts empty (`BeWriter::new()`)."""
        hb = self.prog.bodies.get(c.path)
        if hb is None or hb.arg_count > 1:
            return False
        wf = self.wrapper_field(hb.local_ty(0))
        if wf is None:
            return False
        aggs = [s for (_, _, s) in block_aggs(hb) if wf in s["rv"].get("fields", [])]
        if len(aggs) != 1:
            return False
        v = peel(self.an.op(hb, aggs[0]["rv"]["ops"][aggs[0]["rv"]["fields"].index(wf)]), mutlocal=True)
        return v[0] == "call" and v[2] is not None and (v[2].npath in ("std::vec::Vec::new", "std::vec::Vec::with_capacity") or v[2].nsyn == "std::default::Default::default")

    def _unwrap_finish(self, x):
        """`w.finish()` / `w.into_inner()`: a crate method that returns the wrapper's Vec<u8> field by value."""
        if x[0] == "call" and x[2] is not None and x[2].local and len(x[3]) == 1:
            hb = self.prog.bodies.get(x[2].path)
            if hb is not None and hb.arg_count == 1:
                wf = self.wrapper_field(hb.local_ty(1))
                r = peel(self.an.local(hb, 0), mutlocal=False)
                if wf and r[0] == "field" and r[2] == wf and peel(r[1]) == ("arg", 1):
                    return peel(x[3][0], mutlocal=False)
        return x

    def result_local(self):
        """The Vec local that is returned (possibly wrapped in Ok, handed out by a wrapper's `finish()` / `.0`)."""
        def norm(x):
            x = peel(x, mutlocal=False)
            if x[0] == "agg" and x[2] == "Ok" and x[3]:
                x = peel(x[3][0], mutlocal=False)
            x = self._unwrap_finish(x)
            if x[0] == "field" and len(x) > 3 and self.wrapper_field(x[3] or "") == x[2]:
                x = peel(x[1], mutlocal=False)          # `Ok(out.0)` / `out.buf`: the wrapper's own Vec<u8>
            return x
        x = norm(self.sl.local(0))
        if x[0] == "phi":
            for m in x[1]:
                mm = norm(m)
                if mm[0] == "mutlocal":
                    return mm[1]
        if x[0] == "mutlocal":
            return x[1]
        return None

    def flat(self, evs=None, loop_prefix=(), cond_prefix=()):
        """Flatten nested buffers -> [(loopctx, condctx, content)] with atoms only."""
        if evs is None:
            rl = self.result_local()
            if rl is None:
                # the result is an expression (`[..].concat()`, `iter.collect()`), not a buffer that is filled
                ret = self.sl.local(0)
                x = peel(ret, mutlocal=False)
                if x[0] == "agg" and x[2] == "Ok":
                    ret = x[3][0]
                c = self.content(self.an.simp(ret))
                if c[0] == "unknown":
                    return None
                evs = [{"loop": (), "cond": (), "content": c}]
            else:
                evs = self.array_events(rl) if isinstance(rl, int) and self.b.local_ty(rl).startswith("[u8; ") else None
                if evs is None:
                    evs = self.events(rl)
        out = []
        for ev in evs:
            c = ev["content"]
            lp = ev["loop"]
            cd = ev["cond"]
            if c[0] == "nested":
                sub = c[2] if len(c) > 2 else []
                if len(c) > 3 and c[3]:
                    out.append((lp, cd, ("unknown", "nested buffer is written after it was emitted")))
                for (l2, c2, cc) in self.flat(sub):
                    out.append((l2 if len(l2) >= len(lp) else lp + l2, tuple(dict.fromkeys(cd + c2)), cc))
            elif c[0] == "inline":
                for (l2, c2, cc) in c[1]:
                    out.append((lp + tuple(l2), tuple(dict.fromkeys(cd + tuple(c2))), cc))
            elif c[0] == "alt":
                for (cond, sub) in c[1]:
                    out.append((lp, tuple(dict.fromkeys(tuple(cd) + (cond,))), sub))
            elif c[0] == "seq":
                out += self.flat([{"loop": lp, "cond": cd, "content": x} for x in c[1]])
            else:
                out.append((lp, cd, c))
        return out


def expand_enc(prog, an, items, depth=0):
    """Replace ("enc", path, fn) items — the output of a crate helper that encodes the value at `path` — by the
    helper's own emissions, rooted at that path (private `fn be_bytes(&self) -> Vec<u8>` helpers of an exporter)."""
    if items is None or depth > 3:
        return items
    out = []
    for (lp, cd, c) in items:
        if c[0] == "enc" and c[2] in prog.bodies:
            sub = Exporter(prog, an, prog.bodies[c[2]], {1: c[1]}, depth + 1)
            si = expand_enc(prog, an, sub.flat(), depth + 1)
            if si is not None:
                for (l2, c2, cc) in si:
                    out.append((tuple(lp) + tuple(l2), tuple(dict.fromkeys(tuple(cd) + tuple(c2))), cc))
                continue
        out.append((lp, cd, c))
    return out
