"""C10 — re-exporting a decoded IPFIX message reproduces its bytes (DESIGN §4.10)."""
from .common import *
from .layout import Layouts, term_s
from . import reexport, c04

LEVEL = "other"
EXPLANATION = (
    "Reader/writer table agreement for IPFIX plus three information-loss rules, each a necessary "
    "condition for decode∘export = id: (R10.0) every wire-bearing field of every struct the IPFIX "
    "parser fills is emitted by IPFix::to_be_bytes under the matching set kind, in wire order, with the "
    "parsed width; (R10.1) every stored wire-bearing field is the identity image of what was parsed "
    "(no post-processing that discards bits); (R10.2) every parser application that consumes data "
    "bytes stores them in some field (no orphan bytes); (R10.3) value codec table as C09 R9.2; (R10.4) "
    "no repetition inside a length-delimited body silently discards the undecodable rest while the "
    "length field is re-emitted verbatim. R10.1, R10.2, R10.4 and the lossy codecs fail on the current "
    "tree and are listed as known findings (public data model / snapshots)."
)
ASSUMPTIONS = ["uN::to_be_bytes / nom be_uN, Ipv4Addr/Ipv6Addr::from / octets, to_vec / clone are mutually inverse (std / nom contracts)"]

IP = "variable_versions::ipfix::"
STRUCTS = [(IP + n, c04.pe_path(IP + n)) for n in ("Header", "FlowSetHeader", "Template", "OptionsTemplate", "TemplateField")] + \
          [(IP + n, IP + n + "::parse_be") for n in ("Data", "OptionsData")]
VARIANT_OF = {IP + "Template": {"Template"}, IP + "OptionsTemplate": {"OptionsTemplate"}, IP + "TemplateField": {"Template", "OptionsTemplate"},
              IP + "Data": {"Data"}, IP + "OptionsData": {"OptionsData"}}


def run(ctx, env):
    prog = env.prog("default")
    an = An(prog)
    ctx.rule("R10.8", "a decoded value that was altered cannot be re-exported as received: no arithmetic, clamping, narrowing, trimming, truncation or sub-slicing between the wire bytes and the stored FieldValue (value path of from_field_type, shared with C04 R4.11; the known lossy codecs of R9.2 / R10.3 are conversions, not alterations, and are listed there)")
    from . import valuepath as _vp
    _vp.rule(ctx, prog, an, "R10.8", time_units=False)
    ctx.rule("R10.9", "a data set is decoded as data: set ids 255 and above never reach a template parser (whose decode strips the enterprise bit and re-frames the bytes), so its bytes are re-exported as received (shared with C05 R5.2)")
    from . import c05 as _c05
    _c05.set_id_dispatch_rule(ctx, prog, an, "R10.9", only_data=True)
    ctx.rule("R10.10", "the records a decoder reports are made by that decode alone: every element added to the reported collection derives from the input slice, and the collection itself is created by the call - not the drained / taken content of storage kept in the parser object (a reusable buffer that a failed decode leaves half-filled would surface in a later packet): re-export would emit bytes the message never carried (shared with C02 R2.10)")
    from . import consume as _consume10
    _consume10.foreign_rule(ctx, prog, an, "R10.10", lambda b: b.path.startswith(("variable_versions::ipfix::", "variable_versions::data_number::")), floor=0)
    ctx.rule("R10.7", "no silent consumption in the IPFIX and value decoders: every parser step on a returned remainder chain contributes its decoded value to the result (bytes that are consumed but not stored cannot be re-exported); shared with C02 R2.8")
    from . import consume as _consume
    _consume.rule(ctx, prog, an, "R10.7", lambda b: b.path.startswith(("variable_versions::ipfix::", "variable_versions::data_number::")), floor=12)
    ctx.rule("R10.5", "IPFIX templates: every parsed template reaches the cache by an overwriting write on every path, and the template reported in the result is the parsed one (shared with C06 R6.8)")
    ctx.rule("R10.6", "if a field-decode failure can be swallowed (decoder still returns Ok), the swallowed unit is a whole record: the failure is handled at record level and the returned remainder (it becomes padding) only advances there")
    from . import records as _records
    _records.cursor_rule(ctx, prog, an, "R10.6", "variable_versions::ipfix::Data::parse_be")
    from . import c06 as _c06
    _c06.rule_template_reaches_cache(ctx, prog, an, "R10.5", only_adt="variable_versions::ipfix::IPFixParser")
    lay = Layouts(prog, an)
    ctx.rule("R10.0", "every wire-bearing field the IPFIX parser fills is emitted by IPFix::to_be_bytes under the matching set kind, in wire order, with the parsed width; derived fields are not emitted")
    ctx.rule("R10.1", "stored field = wire value: every wire-bearing struct field is the identity image of a parser result (no arithmetic / replacement after parsing)")
    ctx.rule("R10.2", "no orphan bytes: every data-consuming parser application inside a value decoder stores what it consumed")
    ctx.rule("R10.3", "value codec table (as C09 R9.2)")
    ctx.rule("R10.4", "no swallowed failure under a claimed length: a many0(complete(..)) inside a take(n) body must not drop its unconsumed rest while n's source field is re-emitted verbatim")
    ex, flat = reexport.coverage_rule(ctx, prog, an, "R10.0", IP + "IPFix::to_be_bytes", STRUCTS, VARIANT_OF, "ipfix")
    ctx.floor("R10.0", "ipfix", "wire fields compared", ctx.analysed.get("wire_fields_compared_ipfix", 0), 18)
    if flat is not None:
        encs = [(i, lp, cd, c) for i, (lp, cd, c) in enumerate(flat) if c[0] == "enc"]
        kinds = sorted(set(v for e in encs for (p, v) in e[2] if p.endswith("body")))
        okl = all(any(ex._loop_owner.get(x, (None, None)) in ((IP + "Data", "fields"), (IP + "OptionsData", "fields")) for x in e[1]) for e in encs)
        ctx.ob("R10.0", IP + "IPFix::to_be_bytes", "values-by-record-then-field", kinds == ["Data", "OptionsData"] and okl, "value emissions under %s, each inside an iteration over the decoder's `fields`: %s" % (kinds, okl))
    # R10.1
    n = 0
    for adt, ppath in STRUCTS:
        L = lay.parser_layout(ppath)
        if not L["ok"]:
            continue
        cls = reexport.field_class(L)
        for f, fi in sorted((L.get("fields") or {}).items()):
            if cls.get(f, ("derived",))[0] == "derived":
                continue
            n += 1
            ctx.ob("R10.1", adt, "identity:%s" % f, fi["identity"],
                   "%s.%s = %s" % (adt.rsplit("::", 1)[1], f, "the parsed value" if fi["identity"] else "post-processed: " + canon(peel(fi["expr"]))[:200]))
    ctx.floor("R10.1", "ipfix", "stored wire fields", n, 18)
    # R10.2: inside the per-field decoder, every primitive read must reach the produced value or a stored field
    pav = prog.body(IP + "TemplateField::parse_as_field_value")
    pfl = prog.body(IP + "TemplateField::parse_field_length")
    if ctx.anchor("R10.2", IP + "TemplateField::parse_field_length", pfl):
        from .layout import prim_of
        reads = [(blk, prim_of(c)) for blk, t, c in pfl.calls() if c is not None and prim_of(c)]
        # its result (the length) is only used as a take()/decoder length in the caller, never stored
        stored = False
        if pav is not None:
            for (bb, i, s) in block_aggs(pav):
                for o in s["rv"]["ops"]:
                    e = an.op(pav, o)
                    if find(e, lambda n: n[0] == "call" and n[2] is not None and n[2].local and n[2].path.endswith("parse_field_length")) and not find(e, lambda n: n[0] == "call" and n[2] is not None and n[2].npath.endswith("::take")):
                        stored = True
        ctx.ob("R10.2", IP + "TemplateField::parse_field_length", "prefix-bytes-stored", not reads or stored,
               "the %d-/%d-byte variable-length prefix read by %s is used as a length only and stored nowhere: a re-export cannot re-emit it" % (1, 3, [r[1][1].rsplit("::", 1)[1] for r in reads]))
    # R10.3
    reexport.codec_rule(ctx, prog, an, "R10.3")
    # R10.4
    ib = prog.body(IP + "IPFix::parse_be")
    if ctx.anchor("R10.4", IP + "IPFix::parse_be", ib):
        L = lay.parser_layout(IP + "IPFix::parse_be")
        dropped = None
        for p, b in prog.bodies.items():
            if not p.startswith(ib.path + "::"):
                continue
            ret = an.local(b, 0)
            for n_ in find(ret, lambda n: n[0] == "call" and n[2] is not None and n[2].nsyn == "std::result::Result::map"):
                recv = peel(n_[3][0])
                many = find(recv, lambda m: m[0] == "call" and m[2] is not None and m[2].npath == "nom::multi::many0")
                if many:
                    clo = peel(n_[3][1], identity=(), casts=False)
                    if clo[0] == "closure":
                        res = peel(an.interp.apply(clo, [("sym", "pair")]))
                        # |(_, sets)| sets  -> remainder .0 unused
                        uses_rest = bool(find(res, lambda m: m[0] == "tfield" and m[2] == 0 and peel(m[1]) == ("sym", "pair")))
                        dropped = not uses_rest
        emits_len = False
        if flat is not None:
            emits_len = any(c[0] == "atom" and c[-1] == (IP + "Header", "length") for (lp, cd, c) in flat)
        ctx.ob("R10.4", IP + "IPFix::parse_be", "rest-of-body-kept", not (dropped and emits_len),
               "many0(complete(set)) stops at the first undecodable set and its unconsumed rest is %s; header.length is %s" % ("discarded" if dropped else "kept", "re-emitted verbatim" if emits_len else "recomputed"))
