"""C06 — template cache discipline (DESIGN §4.6)."""
from .common import *
from .cache import *

LEVEL = "proof"
EXPLANATION = (
    "Who-may-write / how / when analysis of the four template maps over every non-derived body of the "
    "crate: the only mutating accessors reached by a `&mut` to a cache map are insert / extend "
    "(overwrite semantics) — and remove of the same id on the sibling map when paired with such a write; "
    "no whole-parser overwrite, no &mut parser handed to external code (swap/replace/take), no closure "
    "capture or escape of a map reference; every stored value is the Ok payload of a complete "
    "template-record parse of the function's own input and its key is that value's template_id; IPFIX "
    "writes are additionally dominated by is_valid()==true; lookups use the wire id on the parser "
    "argument's own map; V5/V7 parsers cannot name parser state and reach no write; no static state, "
    "no parser constructed or defaulted on any parse path; the template-id namespace is kept single "
    "(a write of id k to one map removes k from the sibling map); no other parser field is written on the parse path."
)
ASSUMPTIONS = [
    "HashMap/BTreeMap::insert and Extend::extend overwrite an existing key (std contract)",
]

TPL_PARSERS = {
    "variable_versions::v9::V9Parser": {"templates": "variable_versions::v9::Templates", "options_templates": "variable_versions::v9::OptionsTemplates"},
    "variable_versions::ipfix::IPFixParser": {"templates": "variable_versions::ipfix::Template", "options_templates": "variable_versions::ipfix::OptionsTemplate"},
}


def stored_value_origin(an, prog, w):
    """For a write record: (value_expr, key_expr) as simplified expressions."""
    b, t = w["body"], w["term"]
    if w["kind"] == "insert":
        key = an.op(b, t["args"][1])
        val = an.op(b, t["args"][2])
        return val, key, None
    # extend(map, iter.map(closure)): apply the closure to a symbolic element
    it = an.op(b, t["args"][1])
    core = peel(it)
    if core[0] == "call" and core[2] is not None and core[2].nsyn == "std::iter::Iterator::map":
        src = core[3][0]
        clo = peel(core[3][1], identity=(), casts=False)
        ELEM = ("sym", "elem")
        res = peel(an.interp.apply(clo, [ELEM]))
        if res[0] == "tuple" and len(res[1]) == 2:
            return res[1][1], res[1][0], src
    return ("opaque", "unrecognised extend source"), ("opaque", ""), None


def write_sites(prog, an, ca):
    """Cache writes as seen from the function that reports the parsed template: a write performed inside a
    private helper (e.g. `fn register_templates(&mut self, t: &[Template])`) is lifted to each call site of the
    helper, with the helper's parameters replaced by the caller's arguments.
    -> list of dict(body, block, kind, adt, field, val, key, src, via)"""
    out = []
    for w in ca.writes:
        if w["kind"] not in ("insert", "extend"):
            continue
        b = w["body"]
        val, key, src = stored_value_origin(an, prog, w)
        reports = any(s["rv"]["adt"].endswith("::FlowSetBody") for (_, _, s) in block_aggs(b))
        depends_on_args = bool(find(val, lambda n: n[0] == "arg") or (src is not None and find(src, lambda n: n[0] == "arg" and n[1] > 1)))
        callers = []
        if not reports and b.kind != "Closure":
            for cb in prog.bodies.values():
                if cb.derived:
                    continue
                for blk, t, c in cb.calls():
                    if c is not None and c.local and c.path == b.path and len(t["args"]) == b.arg_count:
                        callers.append((cb, blk, t))
        if callers and not reports:
            for cb, blk, t in callers:
                mapping = {i + 1: an.op(cb, a) for i, a in enumerate(t["args"])}
                lv = an.simp(an.interp.subst(val, mapping))
                lk = an.simp(an.interp.subst(key, mapping))
                ls = an.simp(an.interp.subst(src, mapping)) if src is not None else None
                out.append({"body": cb, "block": blk, "kind": w["kind"], "adt": w["adt"], "field": w["field"], "val": lv, "key": lk, "src": ls, "via": b.path, "w": w})
        else:
            out.append({"body": b, "block": w["block"], "kind": w["kind"], "adt": w["adt"], "field": w["field"], "val": val, "key": key, "src": src, "via": None, "w": w})
    return [lift_for_each(prog, an, x) for x in out]


def lift_for_each(prog, an, site, depth=0):
    """A write made by the closure of `iter.for_each(|elem| ..)` is a write per element of `iter`, seen from the
    function that owns the iteration (the same shape as `map.extend(iter.map(|elem| (key, value)))`)."""
    b = site["body"]
    if depth > 3 or b.kind != "Closure" or site["src"] is not None:
        return site
    if any(s["rv"]["adt"].endswith("::FlowSetBody") for (_, _, s) in block_aggs(b)):
        return site
    parent, clo = an.parent_of_closure(b)
    if parent is None or clo is None:
        return site
    ELEM = ("sym", "elem")
    for blk, t, c in parent.calls():
        if c is None or c.nsyn != "std::iter::Iterator::for_each" or len(t["args"]) != 2:
            continue
        a1 = peel(an.op(parent, t["args"][1]), identity=(), casts=False)
        if a1[0] == "closure" and a1[1] == b.path:
            mapping = {1: clo, 2: ELEM}
            chain = list(site.get("chain", []))
            if site["via"]:
                chain.append((site["w"]["body"], site["w"]["block"]))
            chain.append((b, site["block"]))
            new = dict(site, body=parent, block=blk, kind="extend",
                       val=an.simp(an.interp.subst(site["val"], mapping)), key=an.simp(an.interp.subst(site["key"], mapping)),
                       src=an.op(parent, t["args"][0]), via=site["via"] or b.path, chain=chain)
            return lift_for_each(prog, an, new, depth + 1)
    return site


def is_template_parse_payload(an, prog, e, body, adt, field):
    """e (peeled of clones) = ok(<TemplateType as Parse>::parse(arg input)).1 [.templates elements]"""
    want = TPL_PARSERS.get(adt, {}).get(field)
    calls = find(e, lambda n: n[0] == "ok" and peel(n[1])[0] == "call" and peel(n[1])[2] is not None and peel(n[1])[2].local)
    for n in calls:
        c = peel(n[1])
        if want and want in c[2].id and c[3] and peel(c[3][0])[0] == "arg":
            return True, c
    return False, None


def validity_predicates(prog, an, ca=None):
    """{cache field: Callee} - the bool-returning crate call on the stored value whose true edge dominates each IPFIX
    cache write (found by role, as in rule_valid_before_insert; the name is free)."""
    ca = ca or CacheAccess(prog, an)
    out = {}
    for w in write_sites(prog, an, ca):
        if w["adt"] != "variable_versions::ipfix::IPFixParser" or w["kind"] not in ("insert", "extend"):
            continue
        b = w["body"]
        vcore = canon(peel(w["val"]))
        for blk in sorted(b.live_blocks()):
            t = b.term(blk)
            if t["k"] != "switch" or t.get("opty") != "bool":
                continue
            e, neg = strip_not(an.op(b, t["op"]))
            if not (e[0] == "call" and e[2] is not None and e[2].local and e[3]):
                continue
            be = bool_edges(t, neg)
            if be and canon(peel(e[3][0])) == vcore and b.edge_dominates((blk, be[0]), w["block"]):
                out[w["field"]] = e[2]
    return out


def rule_valid_before_insert(ctx, prog, an, rule, ca=None):
    """IPFIX cache writes are dominated by <validity predicate>(stored template)==true, and that predicate reads
    TemplateField.field_length. The predicate is found by role: the crate function / trait method returning bool
    that is called on the very value being stored and whose true edge dominates the write (its name is free)."""
    ca = ca or CacheAccess(prog, an)
    n = 0
    preds = set()
    # (writes made inside a private helper are seen from the helper's call sites, see write_sites)
    for w in write_sites(prog, an, ca):
        if w["adt"] != "variable_versions::ipfix::IPFixParser" or w["kind"] not in ("insert", "extend"):
            continue
        n += 1
        b = w["body"]
        val, key, src = w["val"], w["key"], w["src"]
        vcore = canon(peel(val))
        ok = False
        why = "no validity guard found: no bool-returning crate call on the stored value dominates the write"
        for blk in sorted(b.live_blocks()):
            t = b.term(blk)
            if t["k"] != "switch":
                continue
            e, neg = strip_not(an.op(b, t["op"]))
            if not (e[0] == "call" and e[2] is not None and e[2].local and e[3]):
                continue
            if t.get("opty") != "bool":
                continue
            be = bool_edges(t, neg)
            if not be:
                continue
            recv = canon(peel(e[3][0]))
            if recv != vcore:
                if not ok:
                    why = "%s is called on %s, the stored value is %s" % (e[2].nsyn, recv[:120], vcore[:120])
                continue
            if b.edge_dominates((blk, be[0]), w["block"]):
                ok = True
                preds.add(e[2].nsyn)
                why = "insert at %s dominated by %s()==true (%s) on the inserted value" % (b.line(w["block"]), e[2].nsyn.rsplit("::", 1)[-1], b.line(e[1]))
            elif not ok:
                why = "insert at %s is reachable without passing %s()==true" % (b.line(w["block"]), e[2].nsyn.rsplit("::", 1)[-1])
        ctx.ob(rule, b.path, "valid-before-write:%s" % w["field"], ok, why, site=b.line(w["block"]))
    ctx.floor(rule, "ipfix", "IPFIX cache write sites", n, 2)
    # the predicate must look at field_length (in its own body, its impls, or their closures)
    for pth in sorted(preds) or ["<ipfix validity predicate>"]:
        iv = [bb for p, bb in prog.bodies.items() if p == pth or p.startswith(pth + "::") or (p.endswith("::" + pth.rsplit("::", 1)[-1]) and bb.parent_impl and pth.rsplit("::", 1)[0] in (bb.parent_impl.get("trait") or ""))]
        reads = False
        for bb in iv:
            for blk, i, s2 in bb.stmts():
                if s2["k"] == "assign":
                    for pl in [s2["rv"].get("place")] + [o.get("place") for o in rv_operands(s2["rv"]) if o]:
                        if pl and any(e.get("name") == "field_length" for e in pl.get("p", [])):
                            reads = True
        ctx.ob(rule, "ipfix-validity-predicate", "reads-field_length", reads,
               "%s (with its closures) %s TemplateField.field_length" % (pth, "reads" if reads else "never reads"))


def rule_template_reaches_cache(ctx, prog, an, rule, ca=None, only_adt=None):
    """(a) every template that parses (and is valid) is written to the cache on every path to the Ok result
    (straight-line form: the write block cuts all paths from the parse to the Ok aggregate; loop form: every
    iteration of the per-template loop passes the write); (b) the template reported in the result is the parsed
    one; (c) all write accessors are overwriting ones."""
    ca = ca or CacheAccess(prog, an)
    variants = {"templates": "Template", "options_templates": "OptionsTemplate"}
    for adt in PARSER_ADTS:
        if only_adt and adt != only_adt:
            continue
        short = adt.rsplit("::", 1)[1]
        ws = [w for w in ca.writes if w["adt"] == adt]
        bad = [v for v in ca.violations if any(adt in str(x) for x in v[2:]) or (v[0].path.startswith(adt.rsplit("::", 1)[0] + "::"))]
        for (b, st, detail, why) in bad:
            ctx.ob(rule, b.path, "cache-discipline:%s" % detail, False, why, site=st)
        bodies = {}
        for w in ws:
            bodies.setdefault(w["body"].path, (w["body"], []))[1].append(w)
        sites = [x for x in write_sites(prog, an, ca) if x["adt"] == adt]
        for field, variant in sorted(variants.items()):
            fw = [x for x in sites if x["field"] == field]
            if not fw:
                ctx.ob(rule, adt, "write-site:%s" % field, False, "no overwriting write (insert/extend) into %s.%s" % (short, field))
                continue
            for w in fw:
                b = w["body"]
                # Ok aggregates reporting this kind of template
                oks = [(blk, i, s) for (blk, i, s) in block_aggs(b) if s["rv"]["adt"].endswith("::FlowSetBody") and s["rv"]["variant"] == variant]
                if not oks:
                    ctx.ob(rule, adt, "reports:%s" % variant, False, "write into %s.%s at %s but no FlowSetBody::%s is reported from that function (nor from a caller of it)" % (short, field, b.path, variant))
                    continue
                loops = b.sccs()
                in_loop = [c for c in loops if w["block"] in c]
                for (ob, i, s) in oks:
                    if in_loop:
                        comp = set(min(in_loop, key=len))
                        from .c01 import has_cycle
                        bypass = has_cycle(b, comp - {w["block"]})
                        ctx.ob(rule, adt, "written-on-every-iteration:%s" % field, not bypass,
                               "the per-template loop in %s has a path that skips the cache write (conditional insert): a parsed template may be reported but not cached" % b.path if bypass
                               else "every iteration of the per-template loop writes the cache", site=b.line(w["block"]))
                    else:
                        reach = b.reachable(0, without_blocks=(w["block"],))
                        ctx.ob(rule, adt, "written-before-reported:%s" % field, ob not in reach,
                               "FlowSetBody::%s can be reported from %s without passing the cache write at %s" % (variant, b.path, b.line(w["block"])) if ob in reach
                               else "every path to the reported FlowSetBody::%s passes the cache write%s" % (variant, (" (via helper %s)" % w["via"]) if w["via"] else ""), site=b.line(ob))
                    # the helper itself must write unconditionally
                    if w["via"]:
                        byp = False
                        for hb, hblk in (w.get("chain") or [(w["w"]["body"], w["w"]["block"])]):
                            hloops = [c for c in hb.sccs() if hblk in c]
                            if hloops:
                                from .c01 import has_cycle
                                byp = byp or has_cycle(hb, set(min(hloops, key=len)) - {hblk})
                            else:
                                rets = [x for x in hb.reachable(0, without_blocks=(hblk,)) if hb.term(x)["k"] == "return"]
                                byp = byp or bool(rets)
                        ctx.ob(rule, adt, "helper-writes-unconditionally:%s" % field, not byp, "helper %s %s" % (w["via"], "can return without writing" if byp else "always performs the write"))
                    rep = peel(an.op(b, s["rv"]["ops"][0]))
                    okp, _ = is_template_parse_payload(an, prog, rep, b, adt, field)
                    direct = rep[0] == "tfield" and rep[2] == 1 and rep[1][0] == "ok"
                    if okp and direct and peel(rep[1][1])[0] == "call":
                        no_rejection_between(ctx, an, rule, adt, field, b, w, peel(rep[1][1]))
                    ctx.ob(rule, adt, "reported-is-parsed:%s" % variant, bool(okp and direct),
                           "reported FlowSetBody::%s payload = %s" % (variant, canon(rep)[:200]), site=site(s["span"]))


def no_rejection_between(ctx, an, rule, adt, field, b, w, pcall):
    """Once the template records have parsed, nothing but the records themselves decides whether they are cached:
    every branch after the parse from which the function can return without passing the cache write tests the
    stored records only (IPFIX `is_valid(&template)`, an empty record list) - not the flowset's padding, the
    remaining input, the id or the cache's current content."""
    from ..slicer import walk
    pk = pcall[1]

    def is_payload(x):
        x = peel(x)
        while x[0] in ("ref", "deref"):
            x = peel(x[1])
        return x[0] == "tfield" and x[2] == 1 and x[1][0] == "ok" and peel(x[1][1])[0] == "call" and peel(x[1][1])[1] == pk and peel(x[1][1])[2] is pcall[2]

    names, whole = set(), [False]

    def fs(n):
        if n[0] == "field" and is_payload(n[1]):
            names.add(n[2])
            return False
        if is_payload(n):
            whole[0] = True
            return False
        return True
    for x in (w.get("val"), w.get("src"), w.get("key")):
        if x is not None:
            walk(x, fs)
    # arguments of the helper call that performs the write
    if w.get("via"):
        t = b.term(w["block"])
        for a in t.get("args", []):
            walk(an.op(b, a), fs)
    wb = w["block"]
    start = b.term(pk).get("t")
    if start is None:
        return
    region = b.reachable(start, without_blocks=(wb,))
    rets = set(x for x in region if b.term(x)["k"] == "return")
    if not rets:
        ctx.ob(rule, adt, "no-rejection-between-parse-and-write:%s" % field, True, "no return is reachable after the template parse without passing the cache write", site=b.line(wb))
        return
    bad = []
    nsw = 0
    for x in sorted(region):
        t = b.term(x)
        if t["k"] != "switch":
            continue
        succ = [tb for _, tb in t["targets"]] + [t["otherwise"]]
        def skips(tb):
            r = b.reachable(tb, without_blocks=(wb,))
            return any(y in rets for y in r) and not b.reaches(tb, wb) if False else any(y in rets for y in r)
        to_w = [tb for tb in succ if tb == wb or b.reaches(tb, wb)]
        only_skip = [tb for tb in succ if tb != wb and not b.reaches(tb, wb) and skips(tb)]
        if not to_w or not only_skip:
            continue
        cond = peel(an.op(b, t["op"]))
        core = cond
        while core[0] in ("discr", "ok", "err", "some") or (core[0] == "call" and core[2] is not None and core[2].nsyn == "std::ops::Try::branch"):
            core = peel(core[1] if core[0] != "call" else core[3][0])
        if core[0] == "call" and core[1] == pk and core[2] is pcall[2]:
            continue          # the `?` on the template parse itself
        nsw += 1
        leaves = []

        def fl(n):
            if n[0] == "field" and is_payload(n[1]):
                if not (n[2] in names or whole[0]):
                    leaves.append("the parsed flowset's `%s`" % n[2])
                return False
            if is_payload(n):
                if not whole[0]:
                    leaves.append("the whole parsed flowset")
                return False
            if n[0] == "tfield" and n[2] == 0 and n[1][0] == "ok":
                leaves.append("the remaining input")
                return False
            if n[0] == "arg":
                leaves.append("argument %d" % n[1])
                return False
            return True
        walk(cond, fl)
        if leaves:
            bad.append((x, sorted(set(leaves))))
    ctx.ob(rule, adt, "no-rejection-between-parse-and-write:%s" % field, not bad,
           ("after the template records parsed, %s can return without caching them on a test of %s (%s): complete, well-formed records of that flowset are not learned" % (b.path, ", ".join(bad[0][1]), b.line(bad[0][0]))) if bad
           else "%d branch(es) after the parse can skip the cache write; each tests the stored records only (stored: %s)" % (nsw, "the parsed value" if whole[0] else sorted(names)), site=b.line(bad[0][0]) if bad else b.line(wb))


def rule_learned_in_stream_order(ctx, prog, ca, rid, only=None):
    proto_of = {"V9Parser": "variable_versions::v9::", "IPFixParser": "variable_versions::ipfix::"}
    if only:
        proto_of = {k: v for k, v in proto_of.items() if k == only}
    root = PARSE_ROOTS[0]
    done = set()
    n = 0
    for w in ca.writes:
        pre = proto_of.get(w["adt"].rsplit("::", 1)[1])
        if pre is None:
            continue
        wp = w["body"].path
        if (wp, pre) in done:
            continue
        done.add((wp, pre))
        doms = (pre + "FlowSet::parse", pre + "FlowSet::parse_be", pre + "FlowSet::parse_le")
        anchor_ok = any(nd["path"] in doms for nd in prog.nodes.values()) if isinstance(prog.nodes, dict) else any(nd["path"] in doms for nd in prog.nodes)
        if not ctx.anchor(rid, pre + "FlowSet::parse", anchor_ok or None):
            continue
        bad = prog.node_dominated_by(root, lambda nd, wp=wp: nd["path"] == wp or nd["path"].startswith(wp + "::{closure"), lambda nd: nd["path"] in doms)
        n += 1
        if bad is None:
            ctx.ob(rid, wp, "reached-through-the-flowset-decode", False, "parse root %s missing from the call graph" % root)
            continue
        how = ""
        if bad:
            pth = prog.path_to(root, lambda nd, wp=wp: nd["path"] == wp or nd["path"].startswith(wp + "::{closure"), avoid_pred=lambda nd: nd["path"] in doms)
            how = " e.g. " + " -> ".join("::".join(str(x).split("::")[-2:])[:60] for x in (pth or [])[-5:])
        ctx.ob(rid, wp, "reached-through-the-flowset-decode", not bad,
               ("%s writes %s.%s and is reachable from parse_bytes without passing through %sFlowSet::parse%s" % (wp, w["adt"].rsplit("::", 1)[1], w["field"], pre, how)) if bad
               else "%s (writes %s) is only reachable through %sFlowSet::parse" % (wp, w["adt"].rsplit("::", 1)[1], pre), site=site(w["body"].span))
    ctx.floor(rid, "crate", "cache-writing functions", n, 1 if only else 2)


def run(ctx, env):
    prog = env.prog("default")
    an = An(prog)
    ctx.rule("R6.8", "every template that parses is written to the cache on every path to the reported result (no conditional / skipped write), and the template reported in the result is the parsed one; after the records have parsed, only a test of the stored records themselves (IPFIX is_valid, an empty list) can keep them out of the cache - not the flowset padding, the remaining input, the id or the cache content")
    ctx.rule("R6.1", "every mutable access path to a cache map ends in insert / extend (or remove, see R6.6); no overwrite of parser state, no &mut parser to external code, no escaping map reference; shared accesses end in contains_key / get")
    ctx.rule("R6.2", "each write stores the Ok payload of a complete template-record parse of the function's own input under that value's template_id; IPFIX writes are dominated by is_valid()==true on the stored value")
    ctx.rule("R6.3", "each contains_key / get uses the wire id argument as key and a field of the function's own parser argument as receiver")
    ctx.rule("R6.4", "V5/V7 parsers cannot name parser state (signature) and reach no cache write in the call graph")
    ctx.rule("R6.5", "no static / thread-local state; no NetflowParser / V9Parser / IPFixParser constructed or defaulted in any body reachable from the parse roots; parse path passes only reborrows of self's sub-parsers")
    ctx.rule("R6.7", "the template maps are the only history-dependent parser state: any other field of NetflowParser / V9Parser / IPFixParser is never written by a body reachable from the parse roots")
    ctx.rule("R6.6", "single template-id namespace per protocol: every write of id k into one map is paired with removal of k from the sibling map (else a stale definition of the other kind survives)")
    cf = cache_fields(prog)
    for adt in PARSER_ADTS:
        ctx.ob("R6.1", adt, "anchor", adt in cf and len(cf.get(adt, [])) >= 2,
               "cache map fields: %s" % cf.get(adt))
    ca = CacheAccess(prog, an)
    ctx.count("cache_map_borrows", ca.n_borrows)
    # R6.1
    for (b, st, detail, why) in ca.violations:
        ctx.ob("R6.1", b.path, detail, False, why, site=st)
    for w in ca.writes:
        ok = w["kind"] in ("insert", "extend") or w["kind"] == "remove"
        ctx.ob("R6.1", w["body"].path, "write:%s:%s.%s" % (w["kind"], w["adt"].rsplit("::", 1)[1], w["field"]), ok,
               "%s on %s.%s" % (w["callee"].npath, w["adt"].rsplit("::", 1)[1], w["field"]), site=w["body"].line(w["block"]))
    for r in ca.reads:
        ctx.ob("R6.1", r["body"].path, "read:%s:%s.%s" % (r["callee"].npath.rsplit("::", 1)[1], r["adt"].rsplit("::", 1)[1], r["field"]), True,
               "shared access via %s" % r["callee"].npath, site=r["body"].line(r["block"]))
    nw = len([w for w in ca.writes if w["kind"] in ("insert", "extend")])
    ctx.floor("R6.1", "crate", "cache write sites", nw, 4)
    ctx.floor("R6.1", "crate", "cache read sites", len(ca.reads), 9)
    # which (adt, field) pairs are written
    written = set((w["adt"], w["field"]) for w in ca.writes if w["kind"] in ("insert", "extend"))
    for adt, fs in cf.items():
        for f in fs:
            ctx.ob("R6.1", adt, "map-has-a-writer:%s" % f, (adt, f) in written, "no insert/extend found for %s.%s (templates would never be learned)" % (adt, f))

    # R6.2
    for w in write_sites(prog, an, ca):
        b = w["body"]
        val, key, src = w["val"], w["key"], w["src"]
        v = peel(val)
        okp, pc = is_template_parse_payload(an, prog, v if src is None else peel(src), b, w["adt"], w["field"])
        ctx.ob("R6.2", w["adt"], "value-is-parsed-template:%s" % w["field"], okp,
               "stored value = %s%s" % (canon(v)[:200], (" over " + canon(peel(src))[:200]) if src is not None else ""), site=b.line(w["block"]))
        k = peel(key)
        okk = k[0] == "field" and k[2] == "template_id" and canon(peel(k[1])) == canon(v)
        ctx.ob("R6.2", w["adt"], "key-is-own-template_id:%s" % w["field"], okk,
               "key = %s" % canon(k)[:200], site=b.line(w["block"]))
        if src is not None:
            s_ = peel(src)
            oks = s_[0] == "call" and s_[2] is not None and s_[2].npath in ("core::slice::<impl [T]>::iter", "std::slice::<impl [T]>::iter")
            inner = peel(s_[3][0]) if oks else None
            oks = bool(oks and inner is not None and inner[0] == "field" and inner[2] == "templates")
            ctx.ob("R6.2", w["adt"], "all-templates-of-the-flowset:%s" % w["field"], oks,
                   "extend source = %s" % canon(s_)[:200], site=b.line(w["block"]))
    rule_valid_before_insert(ctx, prog, an, "R6.2", ca)

    rule_template_reaches_cache(ctx, prog, an, "R6.8", ca)
    # R6.9
    ctx.rule("R6.9", "templates are learned in stream order: every function that writes a template cache is reached from parse_bytes only through the per-flowset / per-set decode call of its protocol (FlowSet::parse), i.e. one flowset at a time at the repetition's cursor - no look-ahead pass installs a later definition before an earlier data flowset is decoded")
    rule_learned_in_stream_order(ctx, prog, ca, "R6.9")
    ctx.rule("R6.12", "a well-formed IPFIX template record is learned: the validity predicate that can keep a parsed record out of the cache accepts the corner combinations of field_count / scope_field_count RFC 7011 allows (shared with C05 R5.13)")
    from . import c05 as _c05v
    _c05v.validity_accepts_wellformed(ctx, prog, an, "R6.12")
    # R6.10
    ctx.rule("R6.10", "packets of disallowed versions leave the caches untouched: every call of the V9 / IPFIX parser (the only functions through which a cache is written, R6.9) is reachable only through the true edge of the single allowed_versions gate of its dispatcher (shared with C12 R12.1)")
    from . import c12 as _c12
    _c12.gate_dominates_rule(ctx, prog, an, "R6.10")
    ctx.rule("R6.11", "a data set (set id 255 and above, as this crate classifies them) never reaches a template parser, so data cannot define or redefine a template (shared with C05 R5.2)")
    from . import c05 as _c05
    _c05.set_id_dispatch_rule(ctx, prog, an, "R6.11", only_data=True)
    # R6.3
    for r in ca.reads:
        b, t, c = r["body"], r["term"], r["callee"]
        if c.npath not in CONTAINS_KEY + GET:
            continue
        _, recv = an.lift(b, an.op(b, t["args"][0]))
        _, key = an.lift(b, an.op(b, t["args"][1]))
        recv, key = peel(recv), peel(key)

        def strip(x):
            x = peel(x)
            while x[0] in ("ref", "deref"):
                x = peel(x[1])
            return x

        def judge(recv, key):
            recv, key = strip(recv), strip(key)
            base = peel(recv[1]) if recv[0] == "field" else None
            own = base is not None and (strip(base)[0] == "arg" or (strip(base)[0] == "tfield" and strip(strip(base)[1])[0] == "arg"))
            kok = key[0] == "arg" or (key[0] == "tfield" and peel(key[1])[0] == "arg")
            return bool(own and kok), recv, key
        okr, recv2, key2 = judge(recv, key)
        if not okr and strip(recv)[0] == "arg" and not b.j.get("pub") and b.kind != "Closure":
            # the map itself is a parameter of a private helper (`fn parse_with_cached(i, templates: &HashMap<..>, id)`):
            # judge the lookup at every call site of the helper, in the caller's terms
            sites = [(cb, t2) for cb in prog.bodies.values() for _, t2, c2 in cb.calls() if c2 is not None and c2.local and c2.path == b.path and "parse_le" not in cb.path]
            res = []
            for cb, t2 in sites:
                amap = {}
                for i2, a2 in enumerate(t2["args"]):
                    _, ex = an.lift(cb, an.op(cb, a2))
                    amap[i2 + 1] = ex
                res.append(judge(an.simp(an.interp.subst(recv, amap)), an.simp(an.interp.subst(key, amap))))
            if res and all(x[0] for x in res):
                okr, recv2, key2 = True, res[0][1], res[0][2]
        ctx.ob("R6.3", b.path, "lookup:%s.%s" % (r["adt"].rsplit("::", 1)[1], r["field"]), okr,
               "receiver = %s, key = %s" % (canon(recv2)[:120], canon(key2)[:120]), site=b.line(r["block"]))

    # R6.4
    write_bodies = set(w["body"].path for w in ca.writes)
    for p in (V5_PARSE, V7_PARSE):
        bb = prog.body(p)
        if not ctx.anchor("R6.4", p, bb):
            continue
        sig = bb.j.get("sig", "")
        bad = [x for x in ("NetflowParser", "V9Parser", "IPFixParser") if x in sig]
        ctx.ob("R6.4", p, "signature-stateless", not bad, "signature %s mentions %s" % (sig, bad) if bad else "signature: %s" % sig)
        # reach from this function's node
        starts = [i for i, n in enumerate(prog.nodes) if n["path"] == p]
        seen = set()
        st = list(starts)
        while st:
            x = st.pop()
            if x in seen:
                continue
            seen.add(x)
            st.extend(prog.nodes[x]["callees"])
        hit = [prog.nodes[i]["path"] for i in seen if prog.nodes[i]["path"] in write_bodies]
        ctx.ob("R6.4", p, "reaches-no-cache-write", not hit and bool(starts), "reaches %s" % hit if hit else "%d instances reachable, none writes a cache" % len(seen))
    from . import c12  # gate-before-state is R12.1; referenced, run there

    # R6.5
    f = prog.facts
    for s in f["statics"]:
        ok = (not s["mut"]) and s["freeze"]
        ctx.ob("R6.5", s["path"], "static-state", ok, "static %s: mut=%s interior-mutable=%s" % (s["ty"], s["mut"], not s["freeze"]), site=site(s["span"]))
    tl = 0
    for b in prog.bodies.values():
        for blk, i, s in b.stmts():
            if s["k"] == "assign" and s["rv"]["k"] == "threadlocalref":
                tl += 1
                ctx.ob("R6.5", b.path, "thread-local", False, "thread-local access", site=site(s["span"]))
    ctx.ob("R6.5", "crate", "no-global-state", True, "%d statics, %d thread-local accesses" % (len(f["statics"]), tl))
    parse_bodies = reach_bodies(prog, PARSE_ROOTS)
    for b in parse_bodies.values():
        for (blk, i, s) in block_aggs(b):
            if s["rv"]["adt"] in PARSER_ADTS or s["rv"]["adt"] == TOP_ADT:
                ctx.ob("R6.5", b.path, "constructs:%s" % s["rv"]["adt"], False, "parser state constructed on the parse path", site=site(s["span"]))
    ns = prog.reach_many(PARSE_ROOTS) or set()
    for n in ns:
        nd = prog.nodes[n]
        if nd["path"].endswith("std::default::Default>::default") and any(a in nd["path"] for a in ("NetflowParser", "V9Parser", "IPFixParser")):
            ctx.ob("R6.5", nd["path"], "default-on-parse-path", False, "Default::default of parser state reachable from parse_bytes: %s" % prog.path_to(PARSE_ROOTS[0], lambda x: x is nd))
        if nd["path"].endswith("std::clone::Clone>::clone") and any(a in nd["path"] for a in ("<NetflowParser", "V9Parser as", "IPFixParser as")):
            ctx.ob("R6.5", nd["path"], "clone-on-parse-path", False, "parser state cloned on the parse path (writes would go to a copy)")
    ctx.ob("R6.5", "parse-path", "no-parser-construction", True, "%d bodies / %d instances reachable from the parse roots inspected" % (len(parse_bodies), len(ns)))
    # sub-parser borrows in the dispatcher
    nsub = 0
    for b in parse_bodies.values():
        for blk, i, s in b.stmts():
            if s["k"] == "assign" and s["rv"]["k"] == "ref" and s["rv"]["bk"] == "mut":
                pl = s["rv"]["place"]
                if pl.get("ty") in PARSER_ADTS and pl.get("p") and pl["p"][-1]["k"] == "field":
                    nsub += 1
                    base = pl["p"][:-1]
                    ok = pl["l"] == 1 and len(base) == 1 and base[0]["k"] == "deref"
                    ctx.ob("R6.5", b.path, "subparser-borrow:%s" % pl["p"][-1]["name"], ok, "sub-parser borrowed from %s" % ("self" if ok else "something other than self"), site=site(s["span"]))
    ctx.floor("R6.5", "dispatcher", "sub-parser borrows", nsub, 2)

    # R6.7 no other history-dependent state
    extra = extra_state_writes(prog, parse_bodies)
    for (adt, fld), info in sorted(extra.items()):
        if info.get("sink"):
            ctx.ob("R6.7", adt, "extra-state:%s" % fld, True, "parser field %s.%s : %s is a write-only diagnostics sink on the parse path: only ever lent as `&mut` receiver to crate functions returning `()` with no other `&mut` parameter, never read (%d site(s))" % (adt.rsplit("::", 1)[-1], fld, info["ty"][:60], len(info["writes"])))
            continue
        ctx.ob("R6.7", adt, "extra-state:%s" % fld, not info["writes"],
               ("parser field %s.%s : %s is written on the parse path at %s — decoding may now depend on history outside the template maps (memo / counter / last-used cache), which no rule here tracks"
                % (adt.rsplit("::", 1)[-1], fld, info["ty"][:80], info["writes"][:3])) if info["writes"]
               else "field %s.%s is never written on the parse path (configuration only)" % (adt.rsplit("::", 1)[-1], fld))
    ctx.ob("R6.7", "parser-state", "state-inventory", True,
           "parser state = template maps %s + sub-parsers + allowed_versions%s" % (dict((k.rsplit("::", 1)[1], v) for k, v in cf.items()), (" + unwritten extra fields %s" % sorted(f for (_, f) in extra)) if extra else ""))
    # R6.6 single namespace
    by_adt = {}
    for w in ca.writes:
        by_adt.setdefault(w["adt"], []).append(w)
    for adt, ws in sorted(by_adt.items()):
        fields = cf.get(adt, [])
        for w in ws:
            if w["kind"] not in ("insert", "extend"):
                continue
            sib = [x for x in fields if x != w["field"]]
            b = w["body"]
            paired = False
            for r in ws:
                if r["kind"] == "remove" and r["field"] in sib and r["body"].path.split("::{closure")[0] == b.path.split("::{closure")[0]:
                    paired = True
            ctx.ob("R6.6", b.path, "sibling-removed-on-write:%s.%s" % (adt.rsplit("::", 1)[1], w["field"]), paired,
                   "write of id k into %s is%s paired with remove(k) on %s; lookup order then decides which (possibly stale) definition decodes data"
                   % (w["field"], "" if paired else " not", sib), site=b.line(w["block"]))
