import re
"""Helpers shared by the per-property rule modules."""
from ..mir import Callee, site, span_line
from ..slicer import Slicer, Interp, peel, show, walk, find

PARSE_ROOTS = ["NetflowParser::parse_bytes", "NetflowParser::parse_bytes_as_netflow_common_flowsets"]
EXPORT_ROOTS = [
    "static_versions::v5::V5::to_be_bytes", "static_versions::v7::V7::to_be_bytes",
    "variable_versions::v9::V9::to_be_bytes", "variable_versions::ipfix::IPFix::to_be_bytes",
    "variable_versions::data_number::FieldValue::to_be_bytes",
]
COMMON_ROOTS = ["NetflowPacket::as_netflow_common", "NetflowParser::parse_bytes_as_netflow_common_flowsets"]
SERIALIZE_ROOTS = ["@serde::ser::Serialize|NetflowPacket|serialize"]
ALL_ROOTS = PARSE_ROOTS + EXPORT_ROOTS + COMMON_ROOTS + SERIALIZE_ROOTS

V5_PARSE = "static_versions::v5::V5Parser::parse"
V7_PARSE = "static_versions::v7::V7Parser::parse"
V9_PARSE = "variable_versions::v9::V9Parser::parse"
IPFIX_PARSE = "variable_versions::ipfix::IPFixParser::parse"
VERSION_PARSERS = {5: V5_PARSE, 7: V7_PARSE, 9: V9_PARSE, 10: IPFIX_PARSE}


COPY_CALLS = ("std::slice::<impl [T]>::to_vec", "alloc::slice::<impl [T]>::to_vec", "std::borrow::ToOwned::to_owned",
              "<std::vec::Vec<T> as std::convert::From<&[T]>>::from", "<std::vec::Vec<T> as std::convert::From<&[T; N]>>::from")


def is_copy_of_slice(e):
    """e = to_vec(x) / Vec::from(x) / x.to_owned() / x.into() for a byte slice -> x, else None."""
    e = peel(e)
    if e[0] == "call" and e[2] is not None and e[3]:
        c = e[2]
        if c.npath in COPY_CALLS or c.nsyn in COPY_CALLS:
            return e[3][0]
        if c.nsyn in ("std::convert::From::from", "std::convert::Into::into") and c.resolved and "std::vec::Vec<" in c.id and "From<&" in c.id:
            return e[3][0]
    return None


def canon(e):
    return show(e, 0, 80)


class An:
    """Per-run analysis cache (slicers, interp) over one Program."""

    def __init__(self, prog):
        self.prog = prog
        self.interp = Interp(prog)
        # never inline functions that sit on the parsing path (they reach a version parser): rules refer to their calls
        targets = set(i for i, n in enumerate(prog.nodes) if n["path"] in VERSION_PARSERS.values())
        rev = {}
        for i, n in enumerate(prog.nodes):
            for c in n["callees"]:
                rev.setdefault(c, []).append(i)
        seen = set(targets)
        st = list(targets)
        while st:
            x = st.pop()
            for p in rev.get(x, []):
                if p not in seen:
                    seen.add(p)
                    st.append(p)
        self.interp.keep = set(prog.nodes[i]["path"] for i in seen if prog.nodes[i]["local"])

    def slicer(self, body):
        if self.prog.bodies.get(body.path) is body:
            return self.interp.slicer(body.path)
        # a derived body (CFG-inlined variant of a crate function, promoted / const body): cached by identity
        if not hasattr(self, "_xsl"):
            self._xsl = {}
        k = id(body)
        if k not in self._xsl:
            self._xsl[k] = (body, Slicer(body))
        return self._xsl[k][1]

    def simp(self, e):
        return self.interp.simplify(e)

    def expand(self, e):
        """simplify + inline small private helpers (robust to extract/inline refactorings)."""
        return self.interp.inline(self.interp.simplify(e))

    def opx(self, body, operand):
        return self.expand(self.slicer(body).operand(operand))

    def localx(self, body, l):
        return self.expand(self.slicer(body).local(l))

    def op(self, body, operand):
        return self.simp(self.slicer(body).operand(operand))

    def place(self, body, place):
        return self.simp(self.slicer(body).place(place))

    def local(self, body, l):
        return self.simp(self.slicer(body).local(l))

    def parent_of_closure(self, body):
        """(parent Body, closure aggregate expr in the parent) for a closure body, else (None, None)."""
        import re as _re
        m = _re.match(r"^(.*)::\{closure#\d+\}$", body.path)
        if not m:
            return None, None
        parent = self.prog.body(m.group(1))
        if parent is None:
            return None, None
        sl = self.slicer(parent)
        for blk, i, s in parent.stmts():
            if s["k"] == "assign" and s["rv"]["k"] == "aggregate" and s["rv"]["agg"] == "closure" and s["rv"]["closure"] == body.path:
                return parent, self.simp(sl.rvalue(s["rv"], blk))
        return parent, None

    def lift(self, body, e, depth=0):
        """Rewrite an expression of a closure body in terms of its (transitive) parent's values
        by substituting the captured upvars."""
        if depth > 4:
            return body, e
        parent, clo = self.parent_of_closure(body)
        if parent is None or clo is None:
            return body, e
        mapping = {1: clo}
        # the closure's own parameter, when it is handed to a Result/Option combinator in the parent
        from ..slicer import RESULT_MAP, RESULT_MAP_ERR, OPTION_MAP, AND_THEN
        for blk, t, c in parent.calls():
            if c is None or len(t["args"]) != 2:
                continue
            a1 = peel(self.op(parent, t["args"][1]), identity=(), casts=False)
            if a1[0] == "closure" and a1[1] == body.path:
                recv = self.op(parent, t["args"][0])
                if c.nsyn in RESULT_MAP or (c.nsyn in AND_THEN and "Result" in c.nsyn):
                    mapping[2] = self.interp._through("ok", recv)
                elif c.nsyn in RESULT_MAP_ERR:
                    mapping[2] = self.interp._through("err", recv)
                elif c.nsyn in OPTION_MAP or c.nsyn in AND_THEN:
                    mapping[2] = self.interp._through("some", recv)
        e2 = self.simp(self.interp.subst(e, mapping))
        return self.lift(parent, e2, depth + 1)


def call_sites_of(prog, path):
    return [(cb, blk, t) for cb in prog.bodies.values() for blk, t, c2 in cb.calls()
            if c2 is not None and c2.local and c2.path == path and "parse_le" not in cb.path]


def lift_callers(an, body, e):
    """An expression of a private helper in the terms of each of its callers: [(caller body, expr)] with the helper's
    parameters replaced by the (closure-lifted) argument expressions of the call site.  None when `body` is public,
    a closure, or never called."""
    prog = an.prog
    if body.j.get("pub") or body.kind == "Closure":
        return None
    sites = call_sites_of(prog, body.path)
    if not sites:
        return None
    out = []
    for cb, blk, t in sites:
        amap = {}
        top = cb
        for i2, a2 in enumerate(t["args"]):
            top, ex = an.lift(cb, an.op(cb, a2))
            amap[i2 + 1] = ex
        out.append((top, an.simp(an.interp.subst(e, amap))))
    return out


def roots_or_fail(ctx, prog, rule, roots):
    ok = True
    for r in roots:
        if r not in prog.roots:
            ctx.ob(rule, r, "anchor", False, "anchor-missing: root function %s not found in the crate" % r)
            ok = False
    return ok


def reach_bodies(prog, roots):
    ns = prog.reach_many([r for r in roots if r in prog.roots])
    return prog.local_bodies_in(ns or set())


def call_sites(bodies, names):
    """All live call sites in `bodies` (dict or iterable of Body) whose callee is in names."""
    out = []
    it = bodies.values() if isinstance(bodies, dict) else bodies
    for b in it:
        for blk, t, c in b.calls():
            if c is not None and (c.npath in names or c.nsyn in names):
                out.append((b, blk, t, c))
    return out


def switches_on(an, body, pred):
    """[(block, term, expr)] for switch terminators whose (simplified, peeled) operand satisfies pred."""
    out = []
    for b in sorted(body.live_blocks()):
        t = body.term(b)
        if t["k"] != "switch":
            continue
        e = an.op(body, t["op"])
        if pred(e):
            out.append((b, t, e))
    return out


def bool_edges(t, negated=False):
    """For a switch on a bool: (true_target, false_target)."""
    f = None
    for v, tb in t["targets"]:
        if v == 0:
            f = tb
    tr = t["otherwise"]
    if f is None:
        return None
    return (f, tr) if negated else (tr, f)


def strip_not(e):
    neg = False
    e = peel(e)
    while e[0] == "unop" and e[1] == "Not":
        neg = not neg
        e = peel(e[2])
    return e, neg


def guards_by_call(an, body, callee_names):
    """Guards of the form `if <callee>(..)`: [(call_block, callee_expr, switch_block, true_target, false_target)]."""
    out = []
    for b in sorted(body.live_blocks()):
        t = body.term(b)
        if t["k"] != "switch":
            continue
        e, neg = strip_not(an.op(body, t["op"]))
        if e[0] == "call" and e[2] is not None and (e[2].npath in callee_names or e[2].nsyn in callee_names):
            be = bool_edges(t, neg)
            if be:
                out.append((e[1], e, b, be[0], be[1]))
    return out


def blocks_only_via(body, edge):
    """Blocks reachable from entry only through `edge`."""
    live = body.live_blocks()
    without = body.reachable(0, without_edge=edge)
    return set(live) - set(without)


def dispatcher_paths(prog):
    """Crate functions that call a version-specific parser directly."""
    names = set(VERSION_PARSERS.values())
    out = set()
    for p, b in prog.bodies.items():
        if any(c is not None and c.npath in names for _, _, c in b.calls()):
            out.add(p)
    # the version match split off into a private helper of the function that reads the version word and tests
    # `allowed_versions` (`self.parse_versioned_body(version, packet)`): the dispatcher is that calling function, the
    # helper is one of its private pieces (inlined by role_body)
    for p in sorted(out):
        b = prog.bodies[p]
        if b.j.get("pub") or b.derived or b.kind == "Closure":
            continue
        if any(c is not None and c.npath.endswith("::contains") and "Set" in c.npath for _, _, c in b.calls()):
            continue
        callers = set(re.sub(r"(::\{closure#\d+\})+$", "", cb.path) for cb in prog.bodies.values() if not cb.derived
                      for _, _, c in cb.calls() if c is not None and c.local and c.path == p)
        if len(callers) == 1:
            g = callers.pop()
            gb = prog.bodies.get(g)
            if gb is not None and not gb.j.get("pub") and g not in out and g != p:
                out.discard(p)
                out.add(g)
    return out


def classifier_inlined(prog, path):
    """`path`'s body with its pure private classification helpers inlined at CFG level: small loop-free crate
    functions taking no `&mut` receiver and calling no parser (`fn classify_set(&self, id) -> SetKind`,
    `fn known_template_kind(&self, id) -> Option<Kind>`). The caller then switches on values whose variants the
    path-sensitive reachability knows."""
    def pred(p):
        hb = prog.bodies.get(p)
        if hb is None or hb.j.get("pub") or hb.derived or hb.nblocks > 80 or hb.sccs() or hb.kind == "Closure":
            return False
        if hb.arg_count >= 1 and hb.local_ty(1).startswith("&mut"):
            return False
        for _, _, c2 in hb.calls():
            if c2 is not None and c2.local and ("::parse" in c2.path or "{closure" in c2.path):
                return False
        return True
    return prog.inlined_body(path, pred, key="classifier")


def role_body(prog, path):
    """The body of an entry point / dispatcher with its private helpers inlined at CFG level (mir.inline_calls), so
    that splitting such a function into private pieces does not change what the CFG rules see. Never inlined:
    public functions, the dispatcher itself (rules refer to its call), derived code, very large bodies."""
    if not hasattr(prog, "_disp_paths"):
        prog._disp_paths = dispatcher_paths(prog)

    def pred(p):
        cb = prog.bodies.get(p)
        return cb is not None and not cb.j.get("pub") and p not in prog._disp_paths and p not in VERSION_PARSERS.values() \
            and not cb.derived and cb.nblocks <= 150
    return prog.inlined_body(path, pred, key="role")


def block_aggs(body, blocks=None):
    """[(block, stmt_index, rv)] aggregates of ADTs in the given blocks (default all live)."""
    out = []
    for b, i, s in body.stmts():
        if blocks is not None and b not in blocks:
            continue
        if s["k"] == "assign" and s["rv"]["k"] == "aggregate" and s["rv"]["agg"] == "adt":
            out.append((b, i, s))
    return out


def is_derived(body):
    return body.derived


def fn_label(body):
    return body.path


# ---------------------------------------------------------------------------
# finite constant evaluation (sets of possible values, phi = union)

INT_RANGE = {"u8": (0, 2**8 - 1), "u16": (0, 2**16 - 1), "u32": (0, 2**32 - 1), "u64": (0, 2**64 - 1), "u128": (0, 2**128 - 1),
             "usize": (0, 2**64 - 1), "i8": (-2**7, 2**7 - 1), "i16": (-2**15, 2**15 - 1), "i32": (-2**31, 2**31 - 1),
             "i64": (-2**63, 2**63 - 1), "i128": (-2**127, 2**127 - 1), "isize": (-2**63, 2**63 - 1), "bool": (0, 1)}


def const_eval(e, depth=0):
    """Set of values an expression can take when it is built from constants only (else None).
    Values are ints (bools as 0/1) or tuples (value, overflowed) for *WithOverflow results."""
    if depth > 400:
        return None
    k = e[0]
    if k == "const":
        return {e[1]}
    if k in ("ref", "deref"):
        return const_eval(e[1], depth + 1)
    if k == "mutlocal":
        return const_eval(e[2], depth + 1)
    if k == "phi":
        out = set()
        for x in e[1]:
            v = const_eval(x, depth + 1)
            if v is None:
                return None
            out |= v
            if len(out) > 64:
                return None
        return out
    if k == "cast" and e[1] in ("IntToInt",):
        v = const_eval(e[2], depth + 1)
        if v is None:
            return None
        rng = INT_RANGE.get(e[3])
        if not rng:
            return None
        lo, hi = rng
        out = set()
        for x in v:
            if isinstance(x, tuple):
                return None
            m = hi - lo + 1
            y = (x - lo) % m + lo
            out.add(y)
        return out
    if k == "tfield":
        v = const_eval(e[1], depth + 1)
        if v is None:
            return None
        out = set()
        for x in v:
            if not isinstance(x, tuple) or e[2] >= len(x):
                return None
            out.add(x[e[2]])
        return out
    if k == "unop" and e[1] == "Not":
        v = const_eval(e[2], depth + 1)
        if v is None or any(isinstance(x, tuple) or x not in (0, 1) for x in v):
            return None
        return set(1 - x for x in v)
    if k == "binop":
        a = const_eval(e[2], depth + 1)
        b = const_eval(e[3], depth + 1)
        if a is None or b is None or len(a) * len(b) > 256:
            return None
        ty = e[4] if len(e) > 4 else None
        rng = INT_RANGE.get(ty)
        op = e[1]
        out = set()
        for x in a:
            for y in b:
                if isinstance(x, tuple) or isinstance(y, tuple):
                    return None
                base = op.replace("WithOverflow", "").replace("Unchecked", "")
                if base in ("Add", "Sub", "Mul"):
                    r = {"Add": x + y, "Sub": x - y, "Mul": x * y}[base]
                    if rng is None:
                        return None
                    lo, hi = rng
                    ov = not (lo <= r <= hi)
                    m = hi - lo + 1
                    w = (r - lo) % m + lo
                    out.add((w, 1 if ov else 0) if op.endswith("WithOverflow") else w)
                elif base in ("Eq", "Ne", "Lt", "Le", "Gt", "Ge"):
                    out.add(int({"Eq": x == y, "Ne": x != y, "Lt": x < y, "Le": x <= y, "Gt": x > y, "Ge": x >= y}[base]))
                elif base in ("Div", "Rem"):
                    if y == 0:
                        return None
                    out.add(int(x / y) if base == "Div" else x - y * int(x / y))
                elif base in ("BitAnd", "BitOr", "BitXor"):
                    out.add({"BitAnd": x & y, "BitOr": x | y, "BitXor": x ^ y}[base])
                else:
                    return None
        return out
    return None


def compile_scalar(e, var_canon, depth=0):
    """Compile an integer/boolean expression over ONE free variable (the sub-expression whose canon() is var_canon)
    into a Python function int -> int, or None when it uses anything outside plain integer arithmetic. Used to decide
    equivalence of small conditions by exhaustive evaluation over a finite domain (e.g. all u16 values)."""
    if depth > 60:
        return None
    if canon(e) == var_canon:
        return lambda x: x
    k = e[0]
    if k == "const":
        v = e[1]
        return (lambda x: v) if isinstance(v, int) else None
    if k in ("ref", "deref"):
        return compile_scalar(e[1], var_canon, depth + 1)
    if k == "mutlocal":
        return compile_scalar(e[2], var_canon, depth + 1)
    if k == "cast" and e[1] == "IntToInt":
        f = compile_scalar(e[2], var_canon, depth + 1)
        rng = INT_RANGE.get(e[3])
        if f is None or not rng:
            return None
        lo, hi = rng
        m = hi - lo + 1
        return lambda x: (f(x) - lo) % m + lo
    if k == "unop" and e[1] == "Not":
        f = compile_scalar(e[2], var_canon, depth + 1)
        return None if f is None else (lambda x: 1 - f(x))
    if k == "tfield" and e[2] == 0:
        inner = peel(e[1])
        if inner[0] == "call" and inner[2] is not None and re.search(r"::overflowing_(add|sub|mul)$", inner[2].npath):
            return _compile_arith(inner, var_canon, depth, "wrapping")
        if inner[0] == "binop" and inner[1].endswith("WithOverflow"):
            return compile_scalar(("binop", inner[1].replace("WithOverflow", ""),) + tuple(inner[2:]), var_canon, depth + 1)
        return None
    if k == "call" and e[2] is not None:
        m = re.search(r"::(wrapping|saturating)_(add|sub|mul)$", e[2].npath)
        if m:
            return _compile_arith(e, var_canon, depth, m.group(1))
        return None
    if k == "binop":
        a = compile_scalar(e[2], var_canon, depth + 1)
        b = compile_scalar(e[3], var_canon, depth + 1)
        if a is None or b is None:
            return None
        base = e[1].replace("Unchecked", "")
        if base.endswith("WithOverflow"):
            return None
        rng = INT_RANGE.get(e[4] if len(e) > 4 else None)
        cmpf = {"Eq": lambda p, q: p == q, "Ne": lambda p, q: p != q, "Lt": lambda p, q: p < q, "Le": lambda p, q: p <= q,
                "Gt": lambda p, q: p > q, "Ge": lambda p, q: p >= q}
        if base in cmpf:
            g = cmpf[base]
            return lambda x: int(g(a(x), b(x)))
        bitf = {"BitAnd": lambda p, q: p & q, "BitOr": lambda p, q: p | q, "BitXor": lambda p, q: p ^ q}
        if base in bitf:
            g = bitf[base]
            return lambda x: g(a(x), b(x))
        if base in ("Add", "Sub", "Mul", "Shl", "Shr") and rng:
            lo, hi = rng
            m = hi - lo + 1
            g = {"Add": lambda p, q: p + q, "Sub": lambda p, q: p - q, "Mul": lambda p, q: p * q,
                 "Shl": lambda p, q: p << (q % 128), "Shr": lambda p, q: p >> (q % 128)}[base]
            return lambda x: (g(a(x), b(x)) - lo) % m + lo
        return None
    return None


def _compile_arith(call, var_canon, depth, mode):
    c = call[2]
    if len(call[3]) != 2:
        return None
    a = compile_scalar(call[3][0], var_canon, depth + 1)
    b = compile_scalar(call[3][1], var_canon, depth + 1)
    m = re.search(r"<impl (\w+)>::\w+$", c.npath)
    rng = INT_RANGE.get(m.group(1)) if m else None
    if a is None or b is None or not rng:
        return None
    lo, hi = rng
    n = hi - lo + 1
    op = c.npath.rsplit("_", 1)[1]
    g = {"add": lambda p, q: p + q, "sub": lambda p, q: p - q, "mul": lambda p, q: p * q}[op]
    if mode == "saturating":
        return lambda x: min(hi, max(lo, g(a(x), b(x))))
    return lambda x: (g(a(x), b(x)) - lo) % n + lo


# ---------------------------------------------------------------------------
# A5 — switch tables

def local_callees_reaching(prog, body, blocks, targets_pred):
    """Names (via name_of) of target functions reachable through calls made in `blocks` of `body`
    (directly or through crate helpers / closures, call graph)."""
    out = set()
    byid = getattr(prog, "_byid", None)
    if byid is None:
        byid = {}
        for n in prog.nodes:
            byid.setdefault(n["id"], n["i"])
            byid.setdefault(n["path"], n["i"])
        prog._byid = byid
    for blk, t, c in body.calls():
        if blk not in blocks or c is None:
            continue
        starts = []
        if c.local:
            i = byid.get(c.id, byid.get(c.path))
            if i is not None:
                starts.append(i)
        # closures passed as arguments
        for a in t["args"]:
            if a.get("k") in ("copy", "move"):
                ty = body.local_ty(a["place"]["l"]) if not a["place"].get("p") else ""
                if ty.startswith("{closure@"):
                    pass
        seen = set()
        st = list(starts)
        while st:
            x = st.pop()
            if x in seen:
                continue
            seen.add(x)
            nm = targets_pred(prog.nodes[x])
            if nm:
                out.add(nm)
                continue
            if prog.nodes[x]["local"]:
                st.extend(prog.nodes[x]["callees"])
    return out


def arm_result(an, body, start, dest_local=0, limit=12):
    """Follow the straight-line chain from block `start`; describe what is assigned to `dest_local`.
    -> ("variant", adt, name, [op exprs]) | ("const", v) | ("call", Callee, [arg exprs], block) | ("expr", e) | None"""
    b = start
    seen = 0
    while b is not None and seen < limit:
        seen += 1
        blk = body.blocks[b]
        for s in blk["stmts"]:
            if s["k"] == "assign" and s["place"]["l"] == dest_local and not s["place"].get("p"):
                rv = s["rv"]
                if rv["k"] == "aggregate" and rv["agg"] == "adt":
                    return ("variant", rv["adt"], rv["variant"], [an.op(body, o) for o in rv["ops"]], b)
                if rv["k"] == "use" and rv["op"]["k"] == "const" and "val" in rv["op"]:
                    return ("const", rv["op"]["val"], b)
                return ("expr", an.simp(an.slicer(body).rvalue(rv, b)), b)
        t = blk["term"]
        if t["k"] == "call" and t["dest"]["l"] == dest_local and not t["dest"].get("p"):
            f = t["func"]
            c = Callee(f["fn"]) if f.get("k") == "const" and "fn" in f else None
            return ("call", c, [an.op(body, a) for a in t["args"]], b)
        ss = body.succs(b)
        if len(ss) != 1:
            return None
        b = ss[0]
    return None


def switch_table(an, body, scrut_pred, dest_local=0):
    """First switch (in block order) whose simplified operand satisfies scrut_pred.
    -> (block, {value: arm_result}, otherwise arm_result, operand expr) or None"""
    for b in sorted(body.live_blocks()):
        t = body.term(b)
        if t["k"] != "switch":
            continue
        e = an.op(body, t["op"])
        if not scrut_pred(peel(e)):
            continue
        table = {}
        for v, tb in t["targets"]:
            table[v] = arm_result(an, body, tb, dest_local)
        oth = arm_result(an, body, t["otherwise"], dest_local)
        return (b, table, oth, e)
    return None


def result_for_value(an, body, value, dest_local=0):
    """What a one-argument lookup function (`From<u16>`, `From<Enum>`: argument 1, or its discriminant) returns for
    the concrete argument / discriminant `value`, whatever the shape of its `match` (a switch table, ranges and
    or-patterns compiled to comparisons, guards on constants): the scrutinee locals are set to `value`, the blocks
    that can execute are computed path-sensitively, and the values assigned to the return place there are
    collected.  -> ("variant", adt, name) | ("const", v) | None (unknown / not unique)."""
    scr = {}
    for l in range(1, len(body.locals)):
        try:
            x = peel(an.local(body, l), widen=True)
        except RecursionError:
            continue
        if x == ("arg", 1) or (x[0] == "discr" and peel(x[1]) == ("arg", 1)):
            scr[l] = value
    if not scr:
        return None
    live = body.reachable_cp(0, assume=scr)
    outs = set()
    for blk in sorted(live):
        for s in body.blocks[blk]["stmts"]:
            if s["k"] == "assign" and s["place"]["l"] == dest_local and not s["place"].get("p"):
                rv = s["rv"]
                if rv["k"] == "aggregate" and rv["agg"] == "adt":
                    outs.add(("variant", rv["adt"], rv["variant"]))
                elif rv["k"] == "use" and rv["op"]["k"] == "const" and "val" in rv["op"]:
                    outs.add(("const", rv["op"]["val"]))
                else:
                    outs.add(("other", blk))
        t = body.blocks[blk]["term"]
        if t["k"] == "call" and t["dest"]["l"] == dest_local and not t["dest"].get("p"):
            outs.add(("other", blk))
    return next(iter(outs)) if len(outs) == 1 else None


# ---------------------------------------------------------------------------
# conditional reachability: which blocks can execute when some values are assumed

def _cmp(op, x, y):
    return {"Eq": x == y, "Ne": x != y, "Lt": x < y, "Le": x <= y, "Gt": x > y, "Ge": x >= y}.get(op)


def eval_assuming(e, assume):
    """Value of expression e under {canon(expr): int}; None if unknown."""
    e = peel(e, widen=True)
    c = canon(e)
    if c in assume:
        return assume[c]
    if e[0] == "const":
        return e[1]
    if e[0] == "cast":
        return eval_assuming(e[2], assume)
    if e[0] == "unop" and e[1] == "Not":
        v = eval_assuming(e[2], assume)
        return None if v is None else (0 if v else 1)
    if e[0] == "binop":
        a = eval_assuming(e[2], assume)
        b = eval_assuming(e[3], assume)
        if a is None or b is None:
            return None
        r = _cmp(e[1], a, b)
        if r is not None:
            return int(r)
        if e[1] == "BitAnd":
            return a & b
        if e[1] == "BitOr":
            return a | b
    return None


def reach_assuming(an, body, assume, start=0):
    """Blocks that can execute when the expressions in `assume` ({canon(expr): int}) have the given values:
    conditional constant propagation (path-sensitive) seeded with every local whose sliced value is one of
    the assumed expressions."""
    amap = {}
    sl = an.slicer(body)
    for l in range(1, len(body.locals)):
        try:
            c = canon(peel(an.local(body, l), widen=True))
        except RecursionError:
            continue
        if c in assume:
            amap[l] = assume[c]
    memo = {}

    def sw(b):
        if b not in memo:
            memo[b] = eval_assuming(an.op(body, body.term(b)["op"]), assume)
        return memo[b]

    return body.reachable_cp(start, assume=amap, switch_eval=sw)


def _reach_assuming_flow_insensitive(an, body, assume, start=0):
    seen = set()
    st = [start]
    while st:
        b = st.pop()
        if b in seen:
            continue
        seen.add(b)
        t = body.term(b)
        nxt = body.succs(b)
        if t["k"] == "switch":
            v = eval_assuming(an.op(body, t["op"]), assume)
            if v is not None:
                tgt = t["otherwise"]
                for val, tb in t["targets"]:
                    if val == v:
                        tgt = tb
                nxt = [tgt]
        for s in nxt:
            if s not in seen:
                st.append(s)
    return seen


# ---------------------------------------------------------------------------
# "the last len(R) bytes of S": walking a buffer by offset instead of re-slicing a copied remainder

_SUB_CALL = re.compile(r"::(saturating_sub|checked_sub|wrapping_sub)$")
_LEN_CALL = re.compile(r"(<impl \[T\]>|Vec(<.*>)?|vec::Vec)::len$")


def _strip_refs(e):
    e = peel(e, widen=True)
    while e[0] in ("ref", "deref"):
        e = peel(e[1], widen=True)
    return e


def _len_of(e):
    e = peel(e, widen=True)
    if e[0] == "call" and e[2] is not None and _LEN_CALL.search(e[2].npath) and e[3]:
        return _strip_refs(e[3][0])
    return None


def tail_by_length(an, m):
    """Recognise `S.get(S.len() - R.len() ..)` (also `&S[..]`, with saturating / checked subtraction, through
    Option::filter / and_then(|n| S.get(n..)) / unwrap_or_default / `phi(0, ..)` for the first iteration): the last
    R.len() bytes of S.  When R is a copy of a tail of (a tail of) S this is byte for byte R, read from the caller's
    buffer instead of from the copy.  -> (S, R) or None."""
    subs = []
    for n in find(m, lambda n: (n[0] == "call" and n[2] is not None and _SUB_CALL.search(n[2].npath) and len(n[3]) == 2)
                  or (n[0] == "binop" and n[1].replace("WithOverflow", "") == "Sub")):
        a, b_ = (n[3][0], n[3][1]) if n[0] == "call" else (n[2], n[3])
        sa, sb = _len_of(a), _len_of(b_)
        if sa is not None and sb is not None:
            subs.append((n, sa, sb))
    if not subs:
        return None
    gets = []
    exprs = [m]
    # closures handed to and_then / map: `|consumed| input.get(consumed..)`
    for c in find(m, lambda n: n[0] == "closure"):
        try:
            exprs.append(an.simp(an.interp.apply(c, [("sym", "n")])))
        except Exception:
            pass
    for ex in exprs:
        for n in find(ex, lambda n: n[0] == "call" and n[2] is not None and len(n[3]) == 2 and
                      (re.search(r"<impl \[T\]>::get$", n[2].npath) or re.search(r"ops::Index(<.*>)?.*::index$", n[2].npath + "|" + n[2].nsyn))):
            rng = peel(n[3][1])
            if rng[0] == "agg" and str(rng[1]).endswith("ops::RangeFrom") and rng[3]:
                gets.append((_strip_refs(n[3][0]), peel(rng[3][0], widen=True)))
    for S, start in gets:
        for sub, sa, sb in subs:
            if canon(sa) != canon(S):
                continue
            st = start
            ms = st[1] if st[0] == "phi" else [st]
            ok = True
            for x in ms:
                x = peel(x, widen=True)
                if const_eval(x) == {0}:
                    continue
                if x == ("sym", "n") or canon(x) == canon(sub):
                    continue
                if x[0] in ("some",) and canon(peel(x[1])) == canon(sub):
                    continue
                ok = False
            if ok:
                return S, sb
    return None
