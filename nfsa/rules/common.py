"""Helpers shared by the per-property rule modules."""
from ..mir import Callee, site, span_line
from ..slicer import Slicer, Interp, peel, show, walk, find

PARSE_ROOTS = ["NetflowParser::parse_bytes", "NetflowParser::parse_bytes_as_netflow_common_flowsets"]
EXPORT_ROOTS = [
    "static_versions::v5::V5::to_be_bytes", "static_versions::v7::V7::to_be_bytes",
    "variable_versions::v9::V9::to_be_bytes", "variable_versions::ipfix::IPFix::to_be_bytes",
    "variable_versions::data_number::FieldValue::to_be_bytes",
]
COMMON_ROOTS = ["NetflowPacket::as_netflow_common", "NetflowParser::parse_bytes_as_netflow_common_flowsets"]
SERIALIZE_ROOTS = ["<NetflowPacket as serde::Serialize>::serialize"]
ALL_ROOTS = PARSE_ROOTS + EXPORT_ROOTS + COMMON_ROOTS + SERIALIZE_ROOTS

V5_PARSE = "static_versions::v5::V5Parser::parse"
V7_PARSE = "static_versions::v7::V7Parser::parse"
V9_PARSE = "variable_versions::v9::V9Parser::parse"
IPFIX_PARSE = "variable_versions::ipfix::IPFixParser::parse"
VERSION_PARSERS = {5: V5_PARSE, 7: V7_PARSE, 9: V9_PARSE, 10: IPFIX_PARSE}


def canon(e):
    return show(e, 0, 80)


class An:
    """Per-run analysis cache (slicers, interp) over one Program."""

    def __init__(self, prog):
        self.prog = prog
        self.interp = Interp(prog)

    def slicer(self, body):
        return self.interp.slicer(body.path) if body.path in self.prog.bodies else Slicer(body)

    def simp(self, e):
        return self.interp.simplify(e)

    def op(self, body, operand):
        return self.simp(self.slicer(body).operand(operand))

    def place(self, body, place):
        return self.simp(self.slicer(body).place(place))

    def local(self, body, l):
        return self.simp(self.slicer(body).local(l))


def roots_or_fail(ctx, prog, rule, roots):
    ok = True
    for r in roots:
        if r not in prog.roots:
            ctx.ob(rule, r, "anchor", False, "anchor-missing: root function %s not found in the crate" % r)
            ok = False
    return ok


def reach_bodies(prog, roots):
    ns = prog.reach_many([r for r in roots if r in prog.roots])
    return prog.local_bodies_in(ns or set())


def call_sites(bodies, names):
    """All live call sites in `bodies` (dict or iterable of Body) whose callee is in names."""
    out = []
    it = bodies.values() if isinstance(bodies, dict) else bodies
    for b in it:
        for blk, t, c in b.calls():
            if c is not None and (c.npath in names or c.nsyn in names):
                out.append((b, blk, t, c))
    return out


def switches_on(an, body, pred):
    """[(block, term, expr)] for switch terminators whose (simplified, peeled) operand satisfies pred."""
    out = []
    for b in sorted(body.live_blocks()):
        t = body.term(b)
        if t["k"] != "switch":
            continue
        e = an.op(body, t["op"])
        if pred(e):
            out.append((b, t, e))
    return out


def bool_edges(t, negated=False):
    """For a switch on a bool: (true_target, false_target)."""
    f = None
    for v, tb in t["targets"]:
        if v == 0:
            f = tb
    tr = t["otherwise"]
    if f is None:
        return None
    return (f, tr) if negated else (tr, f)


def strip_not(e):
    neg = False
    e = peel(e)
    while e[0] == "unop" and e[1] == "Not":
        neg = not neg
        e = peel(e[2])
    return e, neg


def guards_by_call(an, body, callee_names):
    """Guards of the form `if <callee>(..)`: [(call_block, callee_expr, switch_block, true_target, false_target)]."""
    out = []
    for b in sorted(body.live_blocks()):
        t = body.term(b)
        if t["k"] != "switch":
            continue
        e, neg = strip_not(an.op(body, t["op"]))
        if e[0] == "call" and e[2] is not None and (e[2].npath in callee_names or e[2].nsyn in callee_names):
            be = bool_edges(t, neg)
            if be:
                out.append((e[1], e, b, be[0], be[1]))
    return out


def blocks_only_via(body, edge):
    """Blocks reachable from entry only through `edge`."""
    live = body.live_blocks()
    without = body.reachable(0, without_edge=edge)
    return set(live) - set(without)


def block_aggs(body, blocks=None):
    """[(block, stmt_index, rv)] aggregates of ADTs in the given blocks (default all live)."""
    out = []
    for b, i, s in body.stmts():
        if blocks is not None and b not in blocks:
            continue
        if s["k"] == "assign" and s["rv"]["k"] == "aggregate" and s["rv"]["agg"] == "adt":
            out.append((b, i, s))
    return out


def is_derived(body):
    return body.derived


def fn_label(body):
    return body.path
