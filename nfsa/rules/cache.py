"""Shared inventory of the parser state (template caches) and of every access to it."""
import re
from .common import *

PARSER_ADTS = ("variable_versions::v9::V9Parser", "variable_versions::ipfix::IPFixParser")
TOP_ADT = "NetflowParser"
MAP_TYPES = ("std::collections::HashMap<", "std::collections::BTreeMap<", "std::collections::hash_map::HashMap<", "std::collections::btree_map::BTreeMap<")

INSERT = ("std::collections::HashMap::insert", "std::collections::BTreeMap::insert",
          "std::collections::hash_map::HashMap::insert", "std::collections::btree_map::BTreeMap::insert")
EXTEND = ("std::iter::Extend::extend",)
REMOVE = ("std::collections::HashMap::remove", "std::collections::BTreeMap::remove")
CONTAINS_KEY = ("std::collections::HashMap::contains_key", "std::collections::BTreeMap::contains_key")
GET = ("std::collections::HashMap::get", "std::collections::BTreeMap::get")
READERS = CONTAINS_KEY + GET + ("std::collections::HashMap::len", "std::collections::BTreeMap::len",
                                "std::collections::HashMap::is_empty", "std::collections::BTreeMap::is_empty")


def cache_fields(prog):
    """{adt_path: [map field names]} from the ADT definitions (slots filled from the repository)."""
    out = {}
    for adt in PARSER_ADTS:
        a = prog.adts.get(adt)
        if not a:
            continue
        fs = [f["name"] for f in a["variants"][0]["fields"] if f["ty"].startswith(MAP_TYPES)]
        out[adt] = fs
    return out


def place_cache_field(place, cf):
    """(adt, field) if the place's projection chain goes through a cache-map field."""
    for e in place.get("p", []):
        if e["k"] == "field" and e.get("adt") in cf and e.get("name") in cf[e["adt"]]:
            return (e["adt"], e["name"])
    return None


def place_is_whole_parser(place, body):
    """Place whose type is one of the parser-state structs (V9Parser / IPFixParser / NetflowParser)."""
    ty = place.get("ty") if place.get("p") else body.local_ty(place["l"])
    return ty in PARSER_ADTS or ty == TOP_ADT


def uses_of_local(body, l):
    """[(kind, block, detail)] every read of local l: call arguments, assign sources, switch, drops excluded."""
    out = []

    def op_uses(o):
        return o.get("k") in ("copy", "move") and o["place"]["l"] == l

    def place_uses(p):
        return p["l"] == l

    for b in sorted(body.live_blocks()):
        blk = body.blocks[b]
        for i, s in enumerate(blk["stmts"]):
            if s["k"] != "assign":
                continue
            rv = s["rv"]
            k = rv["k"]
            hit = False
            if k in ("use", "cast", "repeat") and op_uses(rv["op"]):
                hit = True
            elif k == "unop" and op_uses(rv["a"]):
                hit = True
            elif k == "binop" and (op_uses(rv["a"]) or op_uses(rv["b"])):
                hit = True
            elif k in ("ref", "rawptr", "discriminant", "copyforderef") and place_uses(rv["place"]):
                hit = True
            elif k == "aggregate" and any(op_uses(o) for o in rv["ops"]):
                hit = True
            if hit:
                out.append(("assign", b, s))
            # store through: (*_l).x = ..
            if s["place"]["l"] == l and s["place"].get("p"):
                out.append(("store", b, s))
        t = blk["term"]
        if t["k"] in ("call", "tailcall"):
            for ai, a in enumerate(t["args"]):
                if op_uses(a):
                    out.append(("callarg", b, (t, ai)))
            if op_uses(t["func"]):
                out.append(("callee", b, (t, -1)))
        elif t["k"] == "switch" and op_uses(t["op"]):
            out.append(("switch", b, t))
    return out


def follow_mut_ref(body, l, depth=0, seen=None):
    """Where does the &mut held in local l end up?  -> list of ("call", block, term, argindex, Callee|None) | ("escape", block, why)"""
    if seen is None:
        seen = set()
    if l in seen or depth > 8:
        return []
    seen.add(l)
    out = []
    for kind, b, d in uses_of_local(body, l):
        if kind == "callarg":
            t, ai = d
            f = t["func"]
            c = Callee(f["fn"]) if f.get("k") == "const" and "fn" in f else None
            out.append(("call", b, t, ai, c))
        elif kind == "assign":
            s = d
            rv = s["rv"]
            dst = s["place"]
            if dst.get("p"):
                out.append(("escape", b, "stored into a place"))
                continue
            if rv["k"] in ("use", "ref", "rawptr", "copyforderef", "cast"):
                # reborrow / move of the reference itself (`&mut *_l`, `move _l`)
                pl = rv.get("place")
                if pl is not None and any(e["k"] == "field" for e in pl.get("p", [])):
                    # borrow of a sub-field through the reference: handled by the place scan
                    continue
                out += follow_mut_ref(body, dst["l"], depth + 1, seen)
            elif rv["k"] == "aggregate":
                if rv["agg"] == "closure":
                    idx = [i for i, o in enumerate(rv["ops"]) if o.get("k") in ("copy", "move") and o["place"]["l"] == l]
                    out.append(("closure", b, rv["closure"], idx[0] if idx else -1))
                else:
                    out.append(("escape", b, "stored in an aggregate"))
            else:
                out.append(("escape", b, "used by %s" % rv["k"]))
        elif kind == "store":
            pass
    return out


class CacheAccess:
    def __init__(self, prog, an):
        self.prog = prog
        self.an = an
        self.cf = cache_fields(prog)
        self.writes = []      # dicts: body, block, kind(insert/extend/other), adt, field, callee, term
        self.reads = []       # dicts: body, block, callee, adt, field, term
        self.violations = []  # (body, site, detail, why)
        self.n_borrows = 0
        self._scan()

    def _scan(self):
        cf = self.cf
        for b in self.prog.bodies.values():
            if b.derived:
                continue
            for blk, i, s in b.stmts():
                if s["k"] != "assign":
                    continue
                dst = s["place"]
                rv = s["rv"]
                hit = place_cache_field(dst, cf)
                if hit and not (rv["k"] == "ref" and False):
                    # direct store into (a part of) a cache map
                    self.violations.append((b, site(s["span"]), "store:%s.%s" % hit, "assignment into cache map %s.%s" % hit))
                if dst.get("p") and dst["p"][-1]["k"] == "deref" and place_is_whole_parser(dst, b) and len(dst["p"]) >= 1:
                    self.violations.append((b, site(s["span"]), "overwrite:%s" % dst.get("ty"), "whole parser state overwritten (`*parser = ..`)"))
                if dst.get("p") and dst["p"][-1]["k"] == "field" and dst.get("ty") in PARSER_ADTS:
                    self.violations.append((b, site(s["span"]), "overwrite-subparser:%s" % dst.get("ty"), "sub-parser field overwritten"))
                if rv["k"] in ("ref", "rawptr"):
                    hit = place_cache_field(rv["place"], cf)
                    mut = rv.get("bk", "mut") == "mut"
                    if hit:
                        self.n_borrows += 1
                        if dst.get("p"):
                            self.violations.append((b, site(s["span"]), "borrow-escapes:%s.%s" % hit, "reference to a cache map stored into a place"))
                            continue
                        for u in follow_mut_ref(b, dst["l"]):
                            self._classify(b, hit, mut, u, s)
                    elif mut and place_is_whole_parser(rv["place"], b) and not dst.get("p"):
                        # &mut of a whole parser struct: may only go to crate-local callees
                        for u in follow_mut_ref(b, dst["l"]):
                            if u[0] == "call":
                                c = u[4]
                                if c is None or not c.local:
                                    # closures / combinators taking the parser by value are fine only if they are Fn-call shims of local closures
                                    nm = c.npath if c else "<indirect>"
                                    if c is not None and (c.nsyn.startswith("std::ops::Fn") or "{closure" in c.path):
                                        continue
                                    self.violations.append((b, b.line(u[1]), "parser-to-external:%s" % nm,
                                                            "&mut to whole parser state passed to external function %s (swap/replace/take would reset or evict templates)" % nm))
                            elif u[0] == "escape":
                                self.violations.append((b, b.line(u[1]), "parser-ref-escapes", "&mut parser %s" % u[2]))
                # moves out of cache fields
                for o in rv_operands(rv):
                    # (moving a map out of an owned, local parser value - `Self { x, ..Self::default() }` - is how a
                    # constructor builds a new parser; constructing parsers on the parse path is R6.5's business)
                    if o.get("k") == "move" and place_cache_field(o["place"], cf) and any(e.get("k") == "deref" for e in o["place"].get("p", [])):
                        self.violations.append((b, site(s["span"]), "move-out", "cache map moved out"))

    def _off_path(self, b):
        if not hasattr(self, "_on_path"):
            self._on_path = set(reach_bodies(self.prog, ALL_ROOTS).keys())
        root = re.sub(r"(::\{closure#\d+\})+$", "", b.path)
        return root not in self._on_path and b.path not in self._on_path

    def _classify(self, b, hit, mut, u, s, depth=0):
        if u[0] == "call":
            _, blk, t, ai, c = u
            nm = c.npath if c else "<indirect>"
            nms = c.nsyn if c else ""
            rec = {"body": b, "block": blk, "term": t, "callee": c, "adt": hit[0], "field": hit[1], "arg": ai}
            if ai == 0 and c is not None and (c.npath in INSERT or c.nsyn in INSERT):
                rec["kind"] = "insert"
                self.writes.append(rec)
            elif ai == 0 and c is not None and c.nsyn in EXTEND:
                rec["kind"] = "extend"
                self.writes.append(rec)
            elif ai == 0 and c is not None and (c.npath in REMOVE):
                rec["kind"] = "remove"
                self.writes.append(rec)
            elif not mut and c is not None and (c.npath in READERS):
                self.reads.append(rec)
            elif not mut and c is not None and c.nsyn in ("std::clone::Clone::clone",):
                self.reads.append(rec)
            elif not mut and c is not None and not c.local and c.nsyn.startswith("std::fmt::"):
                self.reads.append(rec)
            elif c is not None and c.local and c.kind == "Item" and depth < 4 and self.prog.bodies.get(c.path) is not None \
                    and not self.prog.bodies[c.path].j.get("pub") and ai < self.prog.bodies[c.path].arg_count:
                # the map reference is handed to a private crate helper (`lookup(&parser.templates, id)`,
                # `learn(&mut self.templates, ..)`): what the helper does with that parameter is classified there
                hb = self.prog.bodies[c.path]
                for uu in follow_mut_ref(hb, ai + 1):
                    self._classify(hb, hit, mut, uu, s, depth + 1)
            elif not mut and c is not None and not c.local and self._off_path(b):
                # a shared borrow in a function the parse / export / conversion roots never reach (`template_count()`,
                # `has_template()`, a hand-written `PartialEq`): inspecting the cache there cannot influence decoding
                rec["kind"] = "inspection"
                self.reads.append(rec)
            else:
                self.violations.append((b, b.line(blk), "%s-via:%s" % ("mutation" if mut else "access", nm),
                                        "cache map %s.%s %s passed to %s — not an allowed accessor (insert/extend for writes; contains_key/get for reads)"
                                        % (hit[0].rsplit("::", 1)[1], hit[1], "&mut" if mut else "&", nm)))
        elif u[0] == "closure":
            cb = self.prog.body(u[2])
            k = u[3]
            found = False
            if cb is not None and k >= 0 and depth < 4:
                for blk, i, st in cb.stmts():
                    if st["k"] != "assign" or st["place"].get("p"):
                        continue
                    rv = st["rv"]
                    pl = rv.get("place") if rv["k"] in ("ref", "copyforderef", "rawptr") else (rv["op"]["place"] if rv["k"] == "use" and rv["op"].get("k") in ("copy", "move") else None)
                    if pl is None or pl["l"] != 1:
                        continue
                    fs = [e for e in pl.get("p", []) if e["k"] == "field"]
                    if fs and fs[0]["i"] == k and "closure" in fs[0]:
                        found = True
                        inner_mut = mut or (rv["k"] == "ref" and rv["bk"] == "mut")
                        for uu in follow_mut_ref(cb, st["place"]["l"]):
                            self._classify(cb, hit, mut, uu, st, depth + 1)
            if not found:
                self.violations.append((b, b.line(u[1]), "captured-by-closure", "reference to cache map captured by closure %s and its use inside could not be followed" % u[2]))
        else:
            self.violations.append((b, b.line(u[1]), "escape", "reference to cache map %s" % u[2]))


def rv_operands(rv):
    k = rv["k"]
    if k in ("use", "cast", "repeat"):
        return [rv["op"]]
    if k == "unop":
        return [rv["a"]]
    if k == "binop":
        return [rv["a"], rv["b"]]
    if k == "aggregate":
        return rv["ops"]
    return []


def extra_state_writes(prog, bodies):
    """Fields of the parser-state structs that are neither template maps, sub-parsers nor the
    allowed_versions configuration, together with every write to them in `bodies`.
    -> {(adt, field): {"ty": .., "writes": [(body path, site)]}}"""
    out = {}
    for adt in PARSER_ADTS + (TOP_ADT,):
        a = prog.adts.get(adt)
        if not a:
            continue
        for f in a["variants"][0]["fields"]:
            ty = f["ty"]
            if ty.startswith(MAP_TYPES) or ty in PARSER_ADTS or f["name"] == "allowed_versions":
                continue
            out[(adt, f["name"])] = {"ty": ty, "writes": []}
    if not out:
        return out
    for b in bodies.values():
        if b.derived:
            continue
        for blk, i, s in b.stmts():
            if s["k"] != "assign":
                continue
            cands = [("assign", s["place"])]
            rv = s["rv"]
            if rv["k"] in ("ref", "rawptr") and rv.get("bk", "mut") == "mut":
                cands.append(("&mut", rv["place"]))
            for how, pl in cands:
                for e in pl.get("p", []):
                    if e["k"] == "field" and (e.get("adt"), e.get("name")) in out:
                        out[(e["adt"], e["name"])]["writes"].append((b.path, site(s["span"]), how))
        for blk in sorted(b.live_blocks()):
            t = b.term(blk)
            if t["k"] == "call" and t["dest"].get("p"):
                for e in t["dest"]["p"]:
                    if e["k"] == "field" and (e.get("adt"), e.get("name")) in out:
                        out[(e["adt"], e["name"])]["writes"].append((b.path, b.line(blk), "call-result"))
    for key, info in out.items():
        info["sink"] = bool(info["writes"]) and diagnostic_sink(prog, bodies, key)
    return out


def _mentions_field(x, key, acc):
    """All place dicts (anywhere in a statement / terminator) whose projection goes through field `key`."""
    if isinstance(x, dict):
        if "l" in x and isinstance(x.get("p"), list) and any(e.get("k") == "field" and (e.get("adt"), e.get("name")) == key for e in x["p"]):
            acc.append(x)
        for v in x.values():
            _mentions_field(v, key, acc)
    elif isinstance(x, list):
        for v in x:
            _mentions_field(v, key, acc)


def diagnostic_sink(prog, bodies, key):
    """The field is a write-only diagnostics sink on the parse path (packet counters, a last-error slot): every
    access to it there is `&mut parser.<field>` handed as the receiver to a crate function that returns `()` and
    takes no other `&mut` - a function that can change nothing but the sink itself - and the field is never read.
    Such state cannot influence what is decoded, reported or cached, whatever its history."""
    n = 0
    for b in bodies.values():
        if b.derived:
            continue
        for blk in sorted(b.live_blocks()):
            bj = b.blocks[blk]
            for s in bj["stmts"]:
                acc = []
                _mentions_field(s, key, acc)
                if not acc:
                    continue
                n += len(acc)
                if not (s["k"] == "assign" and s["rv"]["k"] == "ref" and s["rv"].get("bk", "mut") == "mut" and len(acc) == 1 and acc[0] is s["rv"]["place"]
                        and s["rv"]["place"]["p"][-1].get("k") == "field" and (s["rv"]["place"]["p"][-1].get("adt"), s["rv"]["place"]["p"][-1].get("name")) == key
                        and not s["place"].get("p")):
                    return False
                for kind, ub, d in uses_of_local(b, s["place"]["l"]):
                    if kind != "callarg":
                        return False
                    t, ai = d
                    fn = t["func"].get("fn") if t["func"].get("k") == "const" else None
                    c = Callee(fn) if fn else None
                    cb = prog.bodies.get(c.path) if c is not None and c.local else None
                    if ai != 0 or cb is None or cb.local_ty(0) != "()" or t["dest"].get("p"):
                        return False
                    if any(str(ty).startswith("&mut") or "&mut " in str(ty) for ty in (t.get("argtys") or [])[1:]):
                        return False
            acc = []
            _mentions_field(bj["term"], key, acc)
            if acc:
                return False
    return n > 0
