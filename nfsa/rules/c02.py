"""C02 — results account for every input byte (DESIGN §4.2)."""
from .common import *
from .common import _strip_refs
from . import layout

LEVEL = "other"
EXPLANATION = (
    "Structural clauses of the decomposition property, decided on the MIR of parse_bytes, the "
    "dispatcher and the four version wrappers: an Error element is terminal (no parse call or loop "
    "back edge after it); it carries to_vec() of exactly the slice handed to the dispatcher in that "
    "iteration; every error kind except UnallowedVersion yields an Error element and UnallowedVersion "
    "yields none; loop/branch conditions are emptiness tests or enum discriminants only; the tail fed "
    "back is the version parser's own nom remainder; set/message body lengths are "
    "length − (wire size of own header), saturating; an empty buffer adds nothing. The arithmetic "
    "identity 'wire lengths sum to the consumed prefix' itself is a run-time fact that follows from "
    "these clauses plus nom's take/count contracts and is not re-proved."
)
ASSUMPTIONS = [
    "nom parsers return a suffix of their input as remainder (nom contract)",
    "Vec::push appends at the end (std contract)",
]

TO_VEC = ("std::slice::<impl [T]>::to_vec", "alloc::slice::<impl [T]>::to_vec")
IS_EMPTY = ("core::slice::<impl [T]>::is_empty", "std::slice::<impl [T]>::is_empty", "std::vec::Vec::is_empty", "alloc::vec::Vec::is_empty")
LEN = ("core::slice::<impl [T]>::len", "std::slice::<impl [T]>::len", "std::vec::Vec::len", "alloc::vec::Vec::len")
PUSHERS = ("std::vec::Vec::push", "alloc::vec::Vec::push", "std::iter::Extend::extend", "core::iter::Extend::extend",
           "std::vec::Vec::extend_from_slice", "std::vec::Vec::append", "std::vec::Vec::insert")


def parsing_paths(prog):
    """Local def paths whose instances can reach a version-specific parser."""
    targets = set(i for i, n in enumerate(prog.nodes) if n["path"] in VERSION_PARSERS.values())
    # reverse reachability
    rev = {}
    for i, n in enumerate(prog.nodes):
        for c in n["callees"]:
            rev.setdefault(c, []).append(i)
    seen = set(targets)
    st = list(targets)
    while st:
        x = st.pop()
        for p in rev.get(x, []):
            if p not in seen:
                seen.add(p)
                st.append(p)
    return set(prog.nodes[i]["path"] for i in seen if prog.nodes[i]["local"])


def entry_body(ctx, prog, rule):
    b = role_body(prog, "NetflowParser::parse_bytes")
    ctx.anchor(rule, "NetflowParser::parse_bytes", b)
    return b


def error_sites(body, an=None):
    """Blocks that build NetflowPacket::Error — directly, or by calling a private constructor helper whose (inlined)
    result is `NetflowPacket::Error(..)` (`Self::error_packet(e, bytes)`); the latter are returned as pseudo
    statements carrying the payload expression."""
    out = [(b, i, s) for (b, i, s) in block_aggs(body)
           if s["rv"]["adt"] == "NetflowPacket" and s["rv"]["variant"] == "Error"]
    if an is not None:
        keep = getattr(an.interp, "keep", ())
        for blk, t, c in body.calls():
            if c is None or not c.local or c.kind != "Item" or c.path in keep or c.path not in an.prog.bodies:
                continue
            if not an.prog.bodies[c.path].local_ty(0).endswith("NetflowPacket"):
                continue
            e = peel(an.expand(an.slicer(body).call_expr(blk, t)))
            if e[0] == "agg" and e[1] == "NetflowPacket" and e[2] == "Error" and e[3]:
                out.append((blk, -1, {"rv": {"ops": []}, "span": body.blocks[blk]["tspan"], "payload": e[3][0], "via": c.path}))
    return out


def error_payload(an, body, s):
    """The NetflowPacketError value an error site wraps (helpers inlined)."""
    if "payload" in s:
        return s["payload"]
    return an.opx(body, s["rv"]["ops"][0])


def parse_calls(body, ppaths):
    return [(blk, t, c) for (blk, t, c) in body.calls() if c is not None and c.local and c.path in ppaths]


def discr_switch_on_error(an, body):
    """Switches whose operand is discr(<value of type NetflowParseError>)."""
    out = []
    for b in sorted(body.live_blocks()):
        t = body.term(b)
        if t["k"] != "switch":
            continue
        # find the `_x = discriminant(place)` feeding it
        op = t["op"]
        if op["k"] not in ("copy", "move"):
            continue
        l = op["place"]["l"]
        for d in an.slicer(body).defs.get(l, []):
            if d[0] == "assign" and d[3]["k"] == "discriminant":
                pl = d[3]["place"]
                ty = pl.get("ty") or body.local_ty(pl["l"])
                if ty.endswith("NetflowParseError"):
                    out.append((b, t))
    return out


def variant_target(t, vi):
    for v, tb in t["targets"]:
        if v == vi:
            return tb
    return t["otherwise"]


def rule_unallowed_arm(ctx, prog, an, rule):
    """parse_bytes' arm for UnallowedVersion adds no element and parses nothing further (R2.3 / R12.3)."""
    body = role_body(prog, "NetflowParser::parse_bytes")
    if body is None:
        ctx.anchor(rule, "NetflowParser::parse_bytes", None)
        return
    adt = prog.adts.get("NetflowParseError")
    if adt is None:
        ctx.anchor(rule, "NetflowParseError", None)
        return
    ppaths = parsing_paths(prog)
    sws = discr_switch_on_error(an, body)
    if not sws:
        ctx.ob(rule, body.path, "error-kind-switch", False, "no switch on the NetflowParseError discriminant found in parse_bytes (unrecognised shape, fail closed)")
        return
    errs = set(b for b, i, s in error_sites(body, an))
    pcs = set(blk for blk, t, c in parse_calls(body, ppaths))
    pushes = set(blk for blk, t, c in body.calls() if c is not None and c.is_(*PUSHERS))
    # only the first (outermost) switch on the error's discriminant classifies the arms;
    # later ones are drop-elaboration re-tests
    b, t = sws[0]
    for v in adt["variants"]:
        if v["name"] != "UnallowedVersion":
            continue
        tgt = variant_target(t, v["vi"])
        r = body.reachable_cp(tgt)
        # `results.extend(opt)` with an Option argument appends only when it is Some: ignore the sites where, on every
        # path from this arm, the argument is known to be None
        seen_vals = {}

        def obs(bk, env):
            if bk in pushes:
                tt = body.term(bk)
                if len(tt["args"]) == 2 and tt["args"][1].get("k") in ("copy", "move") and not tt["args"][1]["place"].get("p"):
                    seen_vals.setdefault(bk, []).append(env.get(tt["args"][1]["place"]["l"]))
        body.reachable_cp(tgt, observe=obs)
        none_only = set()
        for bk, vals in seen_vals.items():
            tt = body.term(bk)
            aty = (tt.get("argtys") or ["", ""])[1] if len(tt.get("argtys") or []) > 1 else ""
            if aty.startswith("std::option::Option<") and vals and all(isinstance(x, tuple) and x[0] == "V" and x[1] == 0 for x in vals):
                none_only.add(bk)
        pushes = pushes - none_only
        ctx.ob(rule, body.path, "UnallowedVersion-arm-adds-no-element", not (r & errs) and not (r & pushes),
               "blocks reachable from the UnallowedVersion arm that build an Error or push: %s" % sorted((r & errs) | (r & pushes)),
               site=body.line(tgt))
        ctx.ob(rule, body.path, "UnallowedVersion-arm-parses-nothing-further", not (r & pcs),
               "parse calls reachable after a disallowed version: %s" % sorted(r & pcs), site=body.line(tgt))


def run(ctx, env):
    prog = env.prog("default")
    an = An(prog)
    ctx.rule("R2.1", "an Error element is terminal: from every block that builds NetflowPacket::Error no path reaches a parsing call")
    ctx.rule("R2.2", "Error.remaining = to_vec(the very slice handed to the dispatcher in that iteration, not redefined in between); PartialParse.remaining = to_vec(the wrapper's packet argument)")
    ctx.rule("R2.3", "every NetflowParseError variant except UnallowedVersion reaches an Error construction on all paths; UnallowedVersion reaches none (exhaustive over the enum's variants)")
    ctx.rule("R2.4", "every branch condition in parse_bytes is an emptiness test of the current input / remainder, an enum discriminant or a drop flag")
    ctx.rule("R2.5", "the tail is the version parser's own nom remainder: ParsedNetflow::new(ok(X::parse(packet)).0, NetflowPacket::X(ok(..).1)); parse_bytes feeds back exactly parsed.remaining")
    ctx.rule("R2.6", "set/message body length = header.length saturating-minus the wire size of the enclosing header")
    ctx.rule("R2.7", "an empty buffer adds no element")
    ctx.rule("R2.8", "no silent consumption: in every hand-written parser (crate function / closure returning (remaining, value), not generated by nom-derive) each parser application on the chain of the returned remainder contributes the value it decoded to the result (returned, stored in a collection, or parsed further) — bytes cannot be consumed without being accounted for by a reported element")
    ctx.rule("R2.9", "a V5 / V7 packet is its header followed by count(<record>, header.count): it consumes exactly the 24 + 48|52 x count bytes its header implies, all or nothing (shared with C03 R3.3)")
    from . import consume
    consume.rule(ctx, prog, an, "R2.8", lambda b: True, floor=30)
    ctx.rule("R2.10", "every element a hand-written parser adds to the collection it reports is decoded from the input slice it was given: nothing kept in the parser from an earlier buffer (and no invented element) surfaces in a later packet, whose headers would not account for it")
    consume.foreign_rule(ctx, prog, an, "R2.10", lambda b: True)
    from . import c03
    lay = layout.Layouts(prog, an)
    for ver in sorted(c03.STRUCTS):
        c03.fixed_count_rule(ctx, prog, an, lay, ver, "R2.9")
    # R2.11: the one silent stop has one cause
    ctx.rule("R2.11", "the list may end before the end of the buffer without an Error only at a version word outside the allowed set: NetflowParseError::UnallowedVersion (the only error parse_bytes drops, R2.3) is built solely on the false edge of the one `allowed_versions.contains(&version)` test on the parsed version word, and carries that version (shared with C12 R12.1 / R12.3)")
    from . import c12 as _c12
    saved = ctx.obls
    ctx.obls = []
    saved_rules, saved_an, saved_notes = dict(ctx.rule_text), dict(ctx.analysed), list(ctx.notes)
    try:
        _c12.run(ctx, env)
    finally:
        sub = ctx.obls
        ctx.obls = saved
        ctx.rule_text.clear()
        ctx.rule_text.update(saved_rules)
        ctx.analysed.clear()
        ctx.analysed.update(saved_an)
        ctx.notes[:] = saved_notes
    keep = ("single-gate", "gate-key-is-parsed-version", "false-edge-returns-UnallowedVersion(version)", "UnallowedVersion-origin", "floor:UnallowedVersion construction sites")
    n211 = 0
    for o in sub:
        if o["detail"] in keep:
            n211 += 1
            ctx.ob("R2.11", o["func"], o["detail"], o["status"] == "discharged", o["reason"], o["site"])
    ctx.floor("R2.11", "crate", "gate / UnallowedVersion-origin obligations", n211, 4)
    body = entry_body(ctx, prog, "R2.1")
    if body is None:
        return
    ppaths = parsing_paths(prog)
    ctx.count("parsing_functions", len(ppaths))
    errs = error_sites(body, an)
    pcs = parse_calls(body, ppaths)
    ctx.floor("R2.1", body.path, "Error construction sites", len(errs), 1)
    ctx.floor("R2.1", body.path, "parsing calls", len(pcs), 1)
    sl = an.slicer(body)
    # R2.1
    for (b, i, s) in errs:
        after = body.reachable_cp(b)      # path-sensitive: what can still execute once this Error has been built
        bad = [blk for blk, t, c in pcs if blk == b or (blk in after and body.reaches(b, blk))]
        ctx.ob("R2.1", body.path, "terminal:%s" % error_kind(an, body, s), not bad,
               "parsing call(s) at %s reachable after the Error built at %s" % ([body.line(x) for x in bad], site(s["span"])),
               site=site(s["span"]))
    # R2.2
    for (b, i, s) in errs:
        pe = error_payload(an, body, s)
        pe = peel(pe)
        ok = False
        why = "Error payload is not a NetflowPacketError aggregate: %s" % canon(pe)
        if pe[0] == "agg" and pe[1].endswith("NetflowPacketError") and "remaining" in pe[4]:
            rem = peel(pe[3][pe[4].index("remaining")])
            cpy = is_copy_of_slice(rem)
            if cpy is not None:
                src = peel(cpy)
                # the dispatcher call(s) that can reach this block
                cands = [(blk, t, c) for blk, t, c in pcs if body.reaches(blk, b)]
                oks = []
                for blk, t, c in cands:
                    arg = peel(an.op(body, t["args"][-1]))
                    same = canon(arg) == canon(src)
                    if not same:
                        same = same_slice_value(an, prog, body, blk, t, b)
                    oks.append(same)
                    why = "remaining = to_vec(%s); dispatcher input = %s" % (canon(src)[:200], canon(arg)[:200])
                ok = bool(oks) and all(oks)
            else:
                why = "remaining is not to_vec(..) of a slice: %s" % canon(rem)
        ctx.ob("R2.2", body.path, "suffix:%s" % error_kind(an, body, s), ok, why, site=site(s["span"]))
    wrappers_rule(ctx, prog, an)
    # R2.3
    adt = prog.adts.get("NetflowParseError")
    ctx.anchor("R2.3", "NetflowParseError", adt)
    sws = discr_switch_on_error(an, body)
    if adt and sws:
        bsw, t = sws[0]
        errblocks = set(b for b, i, s in errs)
        for v in adt["variants"]:
            tgt = variant_target(t, v["vi"])
            if v["name"] == "UnallowedVersion":
                continue
            # every path from tgt to return passes an Error block
            r = body.reachable_cp(tgt, without_blocks=errblocks)
            rets = [x for x in r if body.term(x)["k"] == "return"]
            ctx.ob("R2.3", body.path, "variant:%s-yields-Error" % v["name"], not rets and tgt != t["otherwise"] or (not rets),
                   "a path from the %s arm reaches return without building an Error element" % v["name"] if rets else "all paths build an Error",
                   site=body.line(tgt))
        rule_unallowed_arm(ctx, prog, an, "R2.3")
    elif adt:
        ctx.ob("R2.3", body.path, "error-kind-switch", False, "no switch on the error kind found (unrecognised shape, fail closed)")
    # R2.4
    branch_conditions_rule(ctx, an, body, "R2.4")
    # R2.5 feed-back
    feed_back_rule(ctx, prog, an, body, pcs)
    # R2.6
    layout.rule_body_lengths(ctx, prog, an, "R2.6")
    # R2.7
    empties = [g for g in guards_by_call(an, body, IS_EMPTY)]
    entry_guard = None
    for (cb, cexpr, sw, tt, ff) in empties:
        src = peel(cexpr[3][0])
        if find(src, lambda n: n == ("arg", 2)):
            entry_guard = (cb, sw, tt, ff)
    if entry_guard is None:
        # `while let Some(rest) = buf.get(off..).filter(|r| !r.is_empty())`: the emptiness test sits in the closure
        # of Option::filter; the None edge of the match is the empty-input edge
        for blk0 in sorted(body.live_blocks()):
            t0 = body.term(blk0)
            if t0["k"] != "switch":
                continue
            e0 = peel(an.op(body, t0["op"]))
            if e0[0] != "discr":
                continue
            f0 = peel(e0[1])
            if not (f0[0] == "call" and f0[2] is not None and f0[2].nsyn == "std::option::Option::filter" and len(f0[3]) == 2):
                continue
            if not find(f0[3][0], lambda n: n == ("arg", 2)):
                continue
            clo = peel(f0[3][1], identity=(), casts=False)
            if clo[0] != "closure":
                continue
            res, neg0 = strip_not(an.simp(an.interp.apply(clo, [("sym", "r")])))
            res = peel(res)
            if res[0] == "call" and res[2] is not None and (res[2].npath in IS_EMPTY or res[2].nsyn in IS_EMPTY) and neg0 and find(res, lambda n: n == ("sym", "r")):
                some_t = [tb for v, tb in t0["targets"] if v == 1]
                none_t = [tb for v, tb in t0["targets"] if v == 0]
                st_ = some_t[0] if some_t else t0["otherwise"]
                nt_ = none_t[0] if none_t else t0["otherwise"]
                if st_ != nt_:
                    entry_guard = (blk0, blk0, nt_, st_)
    if entry_guard is None:
        ctx.ob("R2.7", body.path, "empty-guard", False, "no `is_empty()` test on the input slice found in parse_bytes")
    else:
        cb, sw, tt, ff = entry_guard
        # blocks reachable from entry without taking the false (non-empty) edge
        r = body.reachable(0, without_edge=(sw, ff))
        bad = [x for x in r if x in set(b for b, i, s in errs)]
        pushes = [blk for blk, t, c in body.calls() if blk in r and c is not None and (c.is_(*PUSHERS) or (c.local and c.path in ppaths))]
        aggs = [b for (b, i, s) in block_aggs(body, r) if s["rv"]["adt"] == "NetflowPacket"]
        ctx.ob("R2.7", body.path, "empty-in-empty-out", not bad and not pushes and not aggs,
               "on the empty-input path: Error blocks %s, push/parse calls %s, packet aggregates %s" % (bad, pushes, aggs),
               site=body.line(cb))


def error_kind(an, body, s):
    pe = peel(error_payload(an, body, s))
    if pe[0] == "agg" and "error" in pe[4]:
        ee = peel(pe[3][pe[4].index("error")])
        if ee[0] == "agg":
            return ee[2]
        d = find(ee, lambda n: n[0] == "downcast")
        return "moved-error"
    return "?"


def classify_cond(an, body, e):
    e0 = e
    if e[0] == "const":
        return "const", True, "constant"
    if e[0] == "phi" and all(x[0] == "const" for x in e[1]):
        return "drop-flag", True, "drop flag"
    if e[0] == "mutlocal":
        e = peel(e)
    if e[0] == "discr":
        return "discriminant", True, "enum discriminant of %s" % canon(e[1])[:120]
    if e[0] == "call" and e[2] is not None and e[2].is_(*IS_EMPTY):
        return "is_empty", True, "is_empty(%s)" % canon(e[3][0])[:160]
    if e[0] == "binop":
        a, b = peel(e[2]), peel(e[3])
        for x, y in ((a, b), (b, a)):
            if x[0] == "call" and x[2] is not None and x[2].is_(*LEN) and y[0] == "const":
                if y[1] == 0:
                    return "len-vs-0", True, "len() compared with 0"
                return "len-vs-%s" % y[1], False, "input length compared with the constant %s: the tail is treated differently below a threshold" % y[1]
    return "other", False, "unrecognised branch condition in parse_bytes (fail closed): %s" % canon(e0)[:300]


def packet_mutations(prog, wrapper_path, packet_adt):
    """Assignments into a part of a decoded packet value (a local of the packet's type or of a type it contains,
    or through a `&mut` to one) inside a version wrapper or its closures."""
    inner_tys = set([packet_adt])
    # the packet's component ADTs (header, record / flowset types) one level down
    adt = prog.adts.get(packet_adt)
    mod = packet_adt.rsplit("::", 1)[0] + "::"
    out = []
    for p, wb in prog.bodies.items():
        if not (p == wrapper_path or p.startswith(wrapper_path + "::{closure")):
            continue
        for blk, i, st in wb.stmts():
            if st["k"] != "assign" or not st["place"].get("p"):
                continue
            ty = wb.local_ty(st["place"]["l"]).replace("&mut ", "").replace("&", "").strip()
            # tuple / closure-argument locals holding the packet: `(&[u8], V5)`
            if ty == packet_adt or ty.startswith(mod) or ("(" in ty and packet_adt in ty):
                if any(e["k"] == "field" for e in st["place"]["p"]) and not ty.endswith("Parser"):
                    # writes that build a fresh aggregate field by field are assignments to a local without a
                    # previous whole-value definition coming from the parser: only flag locals that also hold the
                    # parser's result, i.e. tuple/closure parameters and moved packet values
                    out.append((wb, st))
    return out


def wrappers_rule(ctx, prog, an, rid="R2.5", rid_err="R2.2", versions=(5, 7, 9, 10)):
    """R2.2/R2.5 on the four version wrappers (X::Parser::parse).  Evaluated on the helper-inlined return value, so a
    private constructor / error-builder helper may be extracted or inlined freely."""
    inner = {5: ("static_versions::v5::V5", "V5"), 7: ("static_versions::v7::V7", "V7"),
             9: ("variable_versions::v9::V9", "V9"), 10: ("variable_versions::ipfix::IPFix", "IPFix")}
    n = 0
    for ver, path in sorted(VERSION_PARSERS.items()):
        if ver not in versions:
            continue
        b = prog.body(path)
        if not ctx.anchor(rid, path, b):
            continue
        ret = an.localx(b, 0)
        # the wrapper may delegate to a private helper generic in the packet type (`parse_fixed::<V5>(5, packet,
        # NetflowPacket::V5)`): instantiate its type parameters and re-target `T::parse` at the impl for that type
        tmap = {}
        for _, t0, c0 in b.calls():
            if c0 is not None and c0.local and c0.kind == "Item":
                gens = (prog.facts["bodies"].get(c0.path, {}) or {}).get("generics") or []
                cargs = [a for a in (c0.args or []) if not str(a).startswith("'")]
                gens = [g for g in gens if not str(g).startswith("'")]
                if gens and len(gens) == len(cargs):
                    tmap.update(dict(zip(gens, cargs)))
        if tmap:
            from ..slicer import subst_types
            ret = an.expand(subst_types(ret, tmap, None, prog))
        okv = peel(an.expand(an.interp._through("ok", ret)))
        good = False
        why = "Ok value of the wrapper is not ParsedNetflow{remaining: copy(parser remainder), result: packet}: %s" % canon(okv)[:400]
        parse_call = None
        if okv[0] == "agg" and okv[1] == "ParsedNetflow":
            f = dict(zip(okv[4], okv[3]))
            cp = is_copy_of_slice(f.get("remaining", ("opaque", "")))
            rem = peel(cp) if cp is not None else ("opaque", "remaining is not a copy of a slice")
            pkt = peel(f.get("result", ("opaque", "")))
            if rem[0] == "tfield" and rem[2] == 0 and rem[1][0] == "ok" and peel(rem[1][1])[0] == "call":
                parse_call = peel(rem[1][1])
                c = parse_call[2]
                is_top = c is not None and c.local and ("%s::parse" % inner[ver][0] in c.path or ("<%s as nom_derive::Parse" % inner[ver][0]) in c.path)
                a0 = peel(parse_call[3][0])
                pk_ok = pkt[0] == "agg" and pkt[1] == "NetflowPacket" and pkt[2] == inner[ver][1] and canon(peel(pkt[3][0])) == canon(("tfield", rem[1], 1))
                good = bool(is_top and a0[0] == "arg" and pk_ok)
                why = "Ok = ParsedNetflow{remaining: copy(%s), result: %s}" % (canon(rem)[:160], canon(pkt)[:160])
        n += 1
        ctx.ob(rid, path, "tail-is-parser-remainder", good, why, site=site(b.span))
        for (wb, st) in packet_mutations(prog, path, inner[ver][0]):
            ctx.ob(rid, path, "decoded-packet-not-modified", False,
                   "the decoded %s is modified after decoding (assignment into %s at %s): what is reported is no longer what the parser read" % (inner[ver][1], wb.path, site(st["span"])), site=site(st["span"]))
        if rid_err is None:
            continue
        # Err side
        errv = peel(an.expand(an.interp._through("err", ret)))
        good = False
        why = "Err value of the wrapper is not Partial(PartialParse{..}): %s" % canon(errv)[:400]
        if errv[0] == "agg" and errv[2] == "Partial":
            pp = peel(errv[3][0])
            if pp[0] == "agg" and pp[1].endswith("PartialParse"):
                f = dict(zip(pp[4], pp[3]))
                cp = is_copy_of_slice(f.get("remaining", ("opaque", "")))
                vv = const_eval(peel(f.get("version", ("opaque", ""))))
                src = peel(cp) if cp is not None else None
                same = parse_call is not None and src is not None and canon(src) == canon(peel(parse_call[3][0]))
                good = bool(cp is not None and same and vv == {ver})
                why = "PartialParse{version=%s, remaining=copy(%s)}; parser input=%s" % (vv, canon(src)[:120] if src else "?", canon(peel(parse_call[3][0]))[:120] if parse_call else "?")
        ctx.ob(rid_err, path, "partial-carries-original-bytes", good, why, site=site(b.span))
        # the wrapper refuses exactly what the packet parser refuses: every error it returns is that parser's error
        # (a size / sanity gate in front of the parser turns packets the parser decodes into errors)
        if errv[0] == "agg" and errv[2] == "Partial" and parse_call is not None:
            pp = peel(errv[3][0])
            f = dict(zip(pp[4], pp[3])) if pp[0] == "agg" else {}
            ev = peel(f.get("error", ("opaque", "")))
            mem = ev[1] if ev[0] == "phi" else [ev]
            pk = (parse_call[1], parse_call[2].id if parse_call[2] is not None else None)

            def from_parser(x):
                return bool(find(x, lambda n: n[0] == "err" and peel(n[1])[0] == "call" and (peel(n[1])[1], peel(n[1])[2].id if peel(n[1])[2] is not None else None) == pk))
            foreign = [canon(peel(x))[:100] for x in mem if not from_parser(x)]
            ctx.ob(rid_err, path, "errors-are-the-parser's", not foreign,
                   ("the wrapper also returns an error that is not the packet parser's (%s): packets the parser would decode are refused" % foreign[0]) if foreign
                   else "the only error the wrapper returns is built from the error of %s" % (parse_call[2].path if parse_call[2] is not None else "?"), site=site(b.span))
    ctx.floor(rid, "wrappers", "version wrappers", n, len(versions))


def same_slice_value(an, prog, body, call_blk, call_t, err_blk):
    """The slice copied into the Error (`x.to_vec()`) and the slice handed to the dispatcher are the same value:
    decided by the forward equal/tail facts of nfsa/suffix.py on MIR locals (a private helper was inlined, so the two
    are different locals holding copies of one another)."""
    from ..suffix import Suffix, is_slice
    if not hasattr(an, "_suffix"):
        an._suffix = Suffix(prog)
    sf = an._suffix
    a = call_t["args"][-1]
    if a.get("k") not in ("copy", "move") or a["place"].get("p"):
        return False
    y = a["place"]["l"]
    facts = sf.facts(body)
    for blk2, t2, c2 in body.calls():
        if c2 is None or not (c2.npath.endswith("<impl [T]>::to_vec") or c2.nsyn in ("std::borrow::ToOwned::to_owned", "std::convert::From::from", "std::convert::Into::into")):
            continue
        if not t2["args"] or not is_slice((t2.get("argtys") or [""])[0]):
            continue
        if not (blk2 == err_blk or body.reaches(blk2, err_blk)) or not body.reaches(call_blk, blk2):
            continue
        x = sf._oplocal(t2["args"][0])
        st = facts["at_term"].get(blk2)
        if x is None or st is None:
            continue
        sx, sy = st.get(("S", x)), st.get(("S", y))
        if sx and sy and sx != "ALL" and sy != "ALL" and (y in sx or x in sy or (set(sx) & set(sy) and any(z in sx and z in sy and x in (st.get(("S", z)) or ()) and y in (st.get(("S", z)) or ()) for z in set(sx) & set(sy) if not isinstance(z, tuple)))):
            return True
    return False


def branch_conditions_rule(ctx, an, body, rid):
    """Every branch of the packet loop is decided by an emptiness test of the current input, an enum discriminant or
    a drop flag: nothing else (contents, lengths, counters) can end the loop or skip an element."""
    nsw = 0
    for b in sorted(body.live_blocks()):
        t = body.term(b)
        if t["k"] != "switch":
            continue
        nsw += 1
        e, neg = strip_not(an.op(body, t["op"]))
        kind, ok, why = classify_cond(an, body, e)
        ctx.ob(rid, body.path, "cond:%s" % kind, ok, why, site=body.line(b))
    ctx.floor(rid, body.path, "branch conditions", nsw, 2)


def feed_back_rule(ctx, prog, an, body, pcs, rid="R2.5", support=True):
    """The slice handed to the dispatcher is the entry slice or the previous Ok(..).remaining, nothing else."""
    for blk, t, c in pcs:
        arg = an.op(body, t["args"][-1])
        core = peel(arg)
        members = core[1] if core[0] == "phi" else [core]
        for m in members:
            m = peel(m)
            if m == ("arg", 2):
                ctx.ob(rid, body.path, "input:entry-slice", True, "dispatcher input is the caller's buffer", site=body.line(blk))
                continue
            ok = False
            tb = tail_by_length(an, m)
            if tb is not None:
                # offset cursor: the last `remaining.len()` bytes of the buffer (or of the slice just parsed) - the
                # same bytes as the copied remainder, since every version wrapper returns a copy of its parser's
                # remainder (tail-is-parser-remainder below) and a parser's remainder is a tail of its input
                S, R = tb
                Rp = peel(R)
                if Rp[0] == "field" and Rp[2] == "remaining" and peel(Rp[1])[0] == "ok":
                    src = peel(peel(Rp[1])[1])
                    if src[0] == "cycle":
                        src = an.slicer(body).single_call_def(src[1]) or src
                    if src[0] == "call" and src[2] is not None and src[2].local and any(src[2].path == cc.path for _, _, cc in pcs):
                        U = _strip_refs(src[3][-1]) if src[3] else None
                        base_ok = S == ("arg", 2) or (U is not None and canon(U) == canon(S)) or S[0] == "cycle" or (S[0] == "phi" and any(peel(x) == ("arg", 2) for x in S[1]))
                        if base_ok:
                            ctx.ob(rid, body.path, "input:fed-back-remainder", True,
                                   "dispatcher input member = the last `remaining.len()` bytes of %s, remaining = Ok(parse result).remaining: the parser's own remainder, read from the caller's buffer" % canon(S)[:60], site=body.line(blk))
                            continue
            if m[0] == "field" and m[2] == "remaining":
                base = peel(m[1])
                if base[0] == "ok":
                    src = peel(base[1])
                    if src[0] == "cycle":
                        src = an.slicer(body).single_call_def(src[1]) or src
                    ok = src[0] == "call" and src[2] is not None and src[2].local and any(src[2].path == cc.path for _, _, cc in pcs)
            ctx.ob(rid, body.path, "input:fed-back-remainder", ok,
                   "dispatcher input member = %s (must be Ok(parse result).remaining)" % canon(m)[:300], site=body.line(blk))
    if not support:
        return
    # R2.2 support: the current-slice local is only assigned from those members (checked above) and
    # never between the dispatcher call and the error construction:
    sl = an.slicer(body)
    errs = error_sites(body, an)
    for blk, t, c in pcs:
        a = t["args"][-1]
        if a["k"] not in ("copy", "move"):
            continue
        # underlying user local: follow `_12 = &(*_5)` one step
        l = a["place"]["l"]
        roots = underlying_locals(sl, l)
        for (eb, i, s) in errs:
            if not body.reaches(blk, eb):
                continue
            between = body.between(blk, eb)
            redefs = []
            for rl in roots:
                for d in sl.defs.get(rl, []):
                    if d[1] in between and not (d[0] == "call" and d[1] == blk):
                        # path-sensitive: the Error block must be reachable from the redefinition without going
                        # through the dispatcher call again (a private `enum Step { Parsed{rest}, Failed(..) }`
                        # joins the arms in the CFG, but a Parsed value never reaches the Failed arm)
                        if eb in body.reachable_cp(d[1], without_blocks={blk}):
                            redefs.append((rl, d[1]))
            ctx.ob("R2.2", body.path, "input-not-redefined-before-error:bb-kind-%s" % error_kind(an, body, s), not redefs,
                   "the dispatcher's input local(s) %s are reassigned between the call and the Error construction: %s" % (sorted(roots), redefs),
                   site=site(s["span"]))


def underlying_locals(sl, l, depth=0):
    """MIR locals a temporary is a re-borrow/copy of (one-step chains)."""
    out = set([l])
    if depth > 6:
        return out
    for d in sl.defs.get(l, []):
        if d[0] == "assign":
            rv = d[3]
            # only through whole-value copies / reborrows: `(_16 as Parsed).rest` is a field of another value, and
            # assigning that other value (an enum carrying the slice) is not a redefinition of the slice local
            plain = lambda pl: all(e["k"] == "deref" for e in pl.get("p", []))
            if rv["k"] == "ref" and plain(rv["place"]):
                out |= underlying_locals(sl, rv["place"]["l"], depth + 1)
            elif rv["k"] == "use" and rv["op"]["k"] in ("copy", "move") and plain(rv["op"]["place"]):
                out |= underlying_locals(sl, rv["op"]["place"]["l"], depth + 1)
            elif rv["k"] == "copyforderef" and plain(rv["place"]):
                out |= underlying_locals(sl, rv["place"]["l"], depth + 1)
    return out
