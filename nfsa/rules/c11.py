"""C11 — packets chained in one buffer decode exactly as if delivered one per call (DESIGN §4.11)."""
import re
from .common import *
from . import c02
from .cache import CacheAccess, uses_of_local

LEVEL = "other"
EXPLANATION = (
    "Structural causes of 'concatenation = separate calls', decided on parse_bytes: every packet of the "
    "buffer is parsed by a dispatcher call whose receiver is a reborrow of the same `self` (no fresh, "
    "cloned or defaulted parser on the parse path); the result vector is only ever appended to, with "
    "the Ok value of the current iteration, and is returned as is (no reorder/insert/reverse); the loop "
    "carries no state besides the cursor, the owned remainder and the result vector; the only writes to "
    "`self` are the cache writes of C06; the split point is the version parser's own remainder and the "
    "loop continues iff that remainder is non-empty (C02 R2.4/R2.5 re-evaluated). Equality of outputs and "
    "parser state as values over all sequences/partitions follows from these clauses and is not re-proved."
)
ASSUMPTIONS = ["Vec::push appends at the end (std contract)", "the version parsers are deterministic functions of (bytes, caches) — no clock, randomness or global state (C06 R6.5)"]

REORDER = ("std::vec::Vec::insert", "std::vec::Vec::swap_remove", "std::vec::Vec::remove", "core::slice::<impl [T]>::reverse", "core::slice::<impl [T]>::rotate_left",
           "core::slice::<impl [T]>::rotate_right", "std::vec::Vec::splice", "core::slice::<impl [T]>::swap", "std::slice::<impl [T]>::sort", "std::slice::<impl [T]>::sort_by",
           "core::slice::<impl [T]>::sort_unstable", "std::vec::Vec::truncate", "std::vec::Vec::pop", "std::vec::Vec::clear", "std::vec::Vec::drain", "std::vec::Vec::retain",
           "std::vec::Vec::dedup", "std::slice::<impl [T]>::sort_by_key", "core::slice::<impl [T]>::sort_unstable_by", "std::vec::Vec::split_off")


def run(ctx, env):
    prog = env.prog("default")
    an = An(prog)
    ctx.rule("R11.1", "every dispatcher call in parse_bytes has receiver = reborrow of `self`; no parser is constructed, cloned or defaulted on the parse path")
    ctx.rule("R11.2", "the returned vector is a local that is only appended to (push/extend), each pushed packet being Ok(dispatch of this iteration).result; no reordering / removing operation touches it")
    ctx.rule("R11.3", "no per-call state: loop-carried user locals are only the input cursor (&[u8]), the owned remainder (Vec<u8>) and the result vector; `self` is written only at the cache write sites of C06")
    ctx.rule("R11.6", "a V9 packet ends where its header says: the flowset repetition is bounded by header.count itself (unmodified, bound by every caller) and finishes early only on empty input (shared with C14 R14.6) - otherwise it reads into the next chained packet or stops short of it")
    from . import loopexit as _le
    _le.flowset_repetition_rule(ctx, prog, an, "R11.6")
    ctx.rule("R11.5", "self-delimiting packets cannot read beyond their announced end: IPFIX sets only see the take(length-16) slice (length constant = header size; call-graph dominator), V5/V7 consume header + count(record)")
    ctx.rule("R11.4", "split point = the version parser's own remainder; continue iff it is non-empty (C02 R2.4 / R2.5 re-evaluated)")
    body = role_body(prog, "NetflowParser::parse_bytes")
    if not ctx.anchor("R11.1", "NetflowParser::parse_bytes", body):
        return
    ppaths = c02.parsing_paths(prog)
    pcs = c02.parse_calls(body, ppaths)
    ctx.floor("R11.1", body.path, "dispatcher calls", len(pcs), 1)
    sl = an.slicer(body)
    for blk, t, c in pcs:
        recv = peel(an.op(body, t["args"][0]))
        ctx.ob("R11.1", body.path, "receiver-is-self", recv == ("arg", 1), "receiver = %s" % canon(recv)[:160], site=body.line(blk))
    # no construction on parse path (same facts as C06 R6.5)
    parse_bodies = reach_bodies(prog, PARSE_ROOTS)
    bad = []
    for b in parse_bodies.values():
        for (blk, i, s) in block_aggs(b):
            if s["rv"]["adt"] in ("NetflowParser", "variable_versions::v9::V9Parser", "variable_versions::ipfix::IPFixParser"):
                bad.append((b.path, site(s["span"])))
    ns = prog.reach_many(PARSE_ROOTS) or set()
    for n in ns:
        p = prog.nodes[n]["path"]
        if ("Default>::default" in p or "Clone>::clone" in p) and any(x in p for x in ("<NetflowParser as", "V9Parser as", "IPFixParser as")):
            bad.append((p, "instance graph"))
    ctx.ob("R11.1", "parse-path", "no-second-parser", not bad, "parser state constructed/cloned/defaulted on the parse path: %s" % bad if bad else "%d bodies, %d instances inspected" % (len(parse_bodies), len(ns)))
    # R11.2
    ret = sl.local(0)
    r = peel(ret, mutlocal=False)
    if r[0] == "phi" and r[1] and all(peel(m, mutlocal=False)[0] == "mutlocal" for m in r[1]) and len(set(peel(m, mutlocal=False)[1] for m in r[1])) == 1:
        r = peel(r[1][0], mutlocal=False)       # several `return results;` sites returning the same accumulator
    rl = r[1] if r[0] == "mutlocal" else None
    ctx.ob("R11.2", body.path, "returns-the-accumulator", rl is not None, "return value = %s" % canon(r)[:120])
    if rl is not None:
        npush = 0
        for blk, t, c in body.calls():
            if c is None or not t["args"]:
                continue
            a0 = an.op(body, t["args"][0])
            x = a0
            while x[0] in ("ref", "deref"):
                x = x[1]
            if not (x[0] == "mutlocal" and x[1] == rl):
                continue
            opt_extend = c.nsyn == "std::iter::Extend::extend" and len(t.get("argtys") or []) > 1 and t["argtys"][1].startswith("std::option::Option<NetflowPacket>")
            if c.npath in ("std::vec::Vec::push",) or opt_extend:
                npush += 1
                v = peel(an.op(body, t["args"][1]))
                vx = peel(an.opx(body, t["args"][1]))       # private constructor helpers inlined
                if opt_extend:
                    # `results.extend(opt)` appends the payload when opt is Some and nothing otherwise
                    v = peel(an.simp(an.interp._through("some", an.op(body, t["args"][1]))))
                    vx = peel(an.expand(an.interp._through("some", an.op(body, t["args"][1]))))
                if vx[0] == "agg" and vx[1] == "NetflowPacket" and vx[2] == "Error":
                    ctx.ob("R11.2", body.path, "push:error-element", True, "Error element appended", site=body.line(blk))
                    continue
                okv = v[0] == "field" and v[2] == "result" and peel(v[1])[0] == "ok"
                src = peel(peel(v[1])[1]) if okv else None
                if src is not None and src[0] == "cycle":
                    src = sl.single_call_def(src[1]) or src
                okv = bool(okv and src[0] == "call" and any(src[1] == b2 for b2, _, _ in pcs))
                # and the push must be in the same iteration as the call: dominated by it with no other dispatcher call between
                ctx.ob("R11.2", body.path, "push:this-iteration's-packet", okv, "pushed value = %s" % canon(v)[:200], site=body.line(blk))
            elif c.nsyn == "std::iter::Extend::extend" or c.npath in ("std::vec::Vec::extend_from_slice", "std::vec::Vec::append"):
                ctx.ob("R11.2", body.path, "extend", False, "result vector extended from another sequence at %s — order relative to the current packet must be re-reviewed (recursive form?)" % body.line(blk), site=body.line(blk))
            elif c.npath in REORDER or c.nsyn in REORDER:
                ctx.ob("R11.2", body.path, "reorder:%s" % c.npath, False, "result vector modified by %s" % c.npath, site=body.line(blk))
            elif c.nsyn in ("std::ops::DerefMut::deref_mut", "std::ops::IndexMut::index_mut", "std::vec::Vec::as_mut_slice", "core::slice::<impl [T]>::iter_mut"):
                ctx.ob("R11.2", body.path, "mutable-view:%s" % c.nsyn, False, "result vector exposed mutably via %s" % c.nsyn, site=body.line(blk))
        ctx.floor("R11.2", body.path, "push sites", npush, 2)
    # R11.3 loop-carried user locals
    names = {}
    for d in body.mir["debug"]:
        if not d["place"].get("p"):
            names[d["place"]["l"]] = d["name"]
    loops = body.sccs()
    loopblocks = set(x for c in loops for x in c)
    allowed_ty = ("&[u8]", "std::vec::Vec<u8>", "std::vec::Vec<NetflowPacket>")
    for l, nm in sorted(names.items()):
        defs = sl.defs.get(l, [])
        in_loop = [d for d in defs if d[1] in loopblocks]
        if l <= body.arg_count or not in_loop:
            continue
        outside = [d for d in defs if d[1] not in loopblocks]
        muts = l in sl.mut_borrowed
        # carried = assigned in the loop and (also defined before it or mutated in place)
        ty = body.local_ty(l)
        while ty.startswith("std::option::Option<") and ty.endswith(">"):
            ty = ty[len("std::option::Option<"):-1]     # `Option<Vec<u8>>` leftover buffer: still only the unparsed input
        if re.match(r"^std::borrow::Cow<'\w+, \[u8\]>$", ty):
            ty = "&[u8]"                                   # `Cow<[u8]>`: the unparsed input, borrowed or owned
        carried = bool(outside) or muts
        # locals defined only inside the loop and consumed there are per-iteration temporaries
        if not carried and ty not in allowed_ty:
            continue
        ok = ty in allowed_ty
        if not ok and ty == "usize":
            # an offset cursor into the caller's buffer: every in-loop definition is `S.len() - remaining.len()`
            # (the position after the packet just parsed), every other definition the constant 0
            vals = []
            for d in defs:
                if d[0] == "assign":
                    vals.append(peel(an.simp(sl.rvalue(d[3], d[1])), widen=True))
                elif d[0] == "call":
                    vals.append(peel(an.simp(sl.call_expr(d[1], d[2])), widen=True))
                else:
                    vals.append(("?",))

            def is_offset(v):
                if const_eval(v) == {0}:
                    return True
                if v[0] == "tfield":
                    v = peel(v[1], widen=True)          # (a - b, overflowed).0
                a_, b_ = None, None
                if v[0] == "call" and v[2] is not None and re.search(r"::(saturating_sub|wrapping_sub)$", v[2].npath) and len(v[3]) == 2:
                    a_, b_ = v[3]
                elif v[0] == "binop" and v[1].replace("WithOverflow", "") == "Sub":
                    a_, b_ = v[2], v[3]
                if a_ is None:
                    return False
                la, lb = peel(a_, widen=True), peel(b_, widen=True)
                islen = lambda x: x[0] == "call" and x[2] is not None and x[2].npath.endswith("::len")
                if not (islen(la) and islen(lb)):
                    return False
                r_ = peel(lb[3][0])
                while r_[0] in ("ref", "deref"):
                    r_ = peel(r_[1])
                return r_[0] == "field" and r_[2] == "remaining" and peel(r_[1])[0] == "ok"
            if vals and all(is_offset(v) for v in vals):
                ok = True
                ctx.ob("R11.3", body.path, "loop-carried:%s" % nm, True, "local `%s` : usize is an offset cursor into the caller's buffer (0, then buffer.len() - remaining.len() after each packet): it names the unparsed input, like the re-sliced remainder does (its use is checked by R11.4)" % nm, site=site(body.span))
                continue
        ctx.ob("R11.3", body.path, "loop-carried:%s" % nm, ok, "local `%s` : %s is %s across iterations" % (nm, ty, "carried" if carried else "assigned"), site=site(body.span))
    ca = CacheAccess(prog, an)
    for (b, st, detail, why) in ca.violations:
        ctx.ob("R11.3", b.path, "state-write:%s" % detail, False, why, site=st)
    # any assignment through self in parse_bytes / dispatcher
    for p in ("NetflowParser::parse_bytes", "NetflowParser::parse_packet_by_version"):
        b = prog.body(p)
        if b is None:
            continue
        for blk, i, s in b.stmts():
            if s["k"] == "assign" and s["place"]["l"] == 1 and s["place"].get("p"):
                ctx.ob("R11.3", p, "writes-self", False, "assignment through self at %s" % site(s["span"]), site=site(s["span"]))
    from .cache import extra_state_writes
    for (adt, fld), info in sorted(extra_state_writes(prog, parse_bodies).items()):
        if info.get("sink"):
            ctx.ob("R11.3", adt, "extra-state:%s" % fld, True, "parser field %s.%s is a write-only diagnostics sink on the parse path (never read there; lent only to `()`-returning crate functions)" % (adt.rsplit("::", 1)[-1], fld))
            continue
        ctx.ob("R11.3", adt, "extra-state:%s" % fld, not info["writes"],
               "parser field %s.%s is written on the parse path at %s: state that survives between packets/calls besides the template maps" % (adt.rsplit("::", 1)[-1], fld, info["writes"][:3])
               if info["writes"] else "field never written on the parse path")
    ctx.ob("R11.3", "parse-path", "self-written-only-by-cache-sites", not ca.violations, "%d cache write sites (insert/extend/remove), no other mutation path" % len(ca.writes))
    # R11.5: a self-delimiting packet cannot read beyond its own announced end
    from .layout import rule_body_lengths
    saved5 = ctx.obls
    ctx.obls = []
    rule_body_lengths(ctx, prog, an, "R11.5")
    sub5 = ctx.obls
    ctx.obls = saved5
    for o in sub5:
        if "ipfix" in o["func"] or o["detail"].startswith("floor"):
            ctx.ob("R11.5", o["func"], o["detail"], o["status"] == "discharged", o["reason"], o["site"])
    from .layout import delimiting_node_pred
    is_take_mapres = delimiting_node_pred(prog, an)
    for tp in ("variable_versions::ipfix::FlowSet::parse_be", "variable_versions::ipfix::FlowSetBody::parse"):
        present = [nd for nd in prog.nodes if nd["path"] == tp]
        if ctx.anchor("R11.5", tp, present):
            bad = prog.node_dominated_by(PARSE_ROOTS[0], lambda nd: nd["path"] == tp, is_take_mapres)
            ctx.ob("R11.5", tp, "sees-only-its-message", not bad,
                   "IPFIX set parsing is reachable without the take(length-16) slice: a set may read bytes of the following packet, so chaining changes the result" if bad else "every path passes map_res(take(length − header), ..): sets see only their own message")
    from . import c03 as _c03
    from .layout import Layouts as _Layouts
    _lay = _Layouts(prog, an)
    for ver, S in sorted(_c03.STRUCTS.items()):
        top = _c03.parse_be_path(S["top"])
        Lt = _lay.parser_layout(top)
        okc = Lt["ok"] and len(Lt["steps"]) == 2 and Lt["steps"][1]["term"][0] == "count"
        ctx.ob("R11.5", top, "fixed-size-by-count", bool(okc), "V%d consumes header + count(record, header.count): its end is determined by its own header" % ver)
    # R11.4
    saved = ctx.obls
    ctx.obls = []
    c02.feed_back_rule(ctx, prog, an, body, pcs)
    c02.wrappers_rule(ctx, prog, an)
    sub = ctx.obls
    ctx.obls = saved
    for o in sub:
        if o["rule"] == "R2.5":
            ctx.ob("R11.4", o["func"], o["detail"], o["status"] == "discharged", o["reason"], o["site"])
    for blk in sorted(body.live_blocks()):
        t = body.term(blk)
        if t["k"] != "switch":
            continue
        e, neg = strip_not(an.op(body, t["op"]))
        kind, ok, why = c02.classify_cond(an, body, e)
        ctx.ob("R11.4", body.path, "cond:%s" % kind, ok, why, site=body.line(blk))
