"""Value path of the field decoders: what happens to a value between the wire primitive that read it and the
FieldValue that reports it (C04 R4.11, C05 R5.8).

The property says every field value is reported "exactly as sent".  Structurally: in each arm of
FieldValue::from_field_type (private helpers inlined at CFG level, so moving the code into a helper changes nothing)
  * no arithmetic is applied to a value derived from the input bytes: no + - * / % << >> & | ^ on it, no
    saturating_/wrapping_/checked_/overflowing_ integer method, no min/max/clamp/pow/abs, no narrowing `as` cast
    (arithmetic on *lengths* - `x.len()`, the field_length argument - is not value arithmetic and is ignored);
  * the decoded bytes / text are not trimmed, truncated, re-cased, filtered, reordered, sub-sliced or canonicalised
    (trim*, strip_*, truncate, retain, replace, to_*case, `[a..b]`, to_canonical, ...): the value is the bytes sent;
  * a time value is given its unit by the constructor of that unit and nothing else:
    DurationSeconds -> Duration::from_secs, Millis -> from_millis, Micros -> from_micros, Nanos -> from_nanos.
Both are necessary for the reported value to be the sent one for every value (a saturating multiplication is the
identity only below its bound); neither says anything about which bytes are consumed (R4.6 does).
"""
import re
from .common import *
from . import c04
from ..slicer import walk
from ..mir import Callee

ARITH = {"Add", "Sub", "Mul", "Div", "Rem", "Shl", "Shr", "BitAnd", "BitOr", "BitXor"}
INT_METHOD = re.compile(r"^core::num::<impl [iu](8|16|32|64|128|size)>::((saturating|wrapping|checked|overflowing|unchecked|strict)_\w+|pow|abs|rem_euclid|div_euclid|rotate_left|rotate_right|swap_bytes|reverse_bits|isqrt|ilog\w*|midpoint|abs_diff)$")
ORD_METHOD = re.compile(r"^(std|core)::cmp::(Ord::(min|max|clamp)|min|max)$")
ALTER = re.compile(r"::(trim\w*|strip_\w+|replace\w*|to_(ascii_)?(lower|upper)case|make_ascii_(lower|upper)case|truncate|retain|dedup\w*|sort\w*|reverse|drain|pop|remove|swap_remove|clear|split_off|split_at\w*|to_canonical|to_ipv4\w*|to_ipv6\w*|normalize\w*|round|floor|ceil|trunc|abs|signum|clamp)$")
RANGE_INDEX = re.compile(r"^std::ops::Range(To|From|Inclusive|ToInclusive|Full)?<")
DUR_CTOR = re.compile(r"^(std|core)::time::Duration::(from_\w+|new)$")
FN_ITEM = re.compile(r"\{(std|core)::time::Duration::(from_\w+|new)\}")
UNIT = {"DurationSeconds": "from_secs", "DurationMillis": "from_millis", "DurationMicros": "from_micros", "DurationNanos": "from_nanos"}
INT_BITS = {"u8": 8, "i8": 8, "u16": 16, "i16": 16, "u32": 32, "i32": 32, "u64": 64, "i64": 64, "u128": 128, "i128": 128, "usize": 64, "isize": 64}
LEN_CALLS = ("core::slice::<impl [T]>::len", "std::vec::Vec::len", "alloc::vec::Vec::len", "core::str::<impl str>::len", "std::string::String::len")


def from_input_bytes(e, input_arg=1):
    """The expression depends on the contents of the input slice (not merely on its length)."""
    hit = []

    def f(n):
        if hit:
            return False
        if n[0] == "call" and n[2] is not None and n[2].is_(*LEN_CALLS):
            return False          # a length: do not descend
        if n == ("arg", input_arg):
            hit.append(n)
            return False
        return True
    walk(e, f)
    return bool(hit)


def is_cursor(e):
    """The input slice itself (the parse cursor), as opposed to bytes / a value taken from it."""
    e = peel(e)
    while e[0] in ("ref", "deref"):
        e = peel(e[1])
    return e == ("arg", 1)


def rule(ctx, prog, an, rid, floor=14, time_units=True):
    def pred(p):
        hb = prog.bodies.get(p)
        return hb is not None and not hb.j.get("pub") and not hb.derived and hb.kind != "Closure" and hb.nblocks <= 150 \
            and p != c04.DN_PARSE and not (hb.parent_impl and hb.parent_impl.get("trait_ref"))
    b = prog.inlined_body(c04.FFT, pred, key="valuepath")
    if not ctx.anchor(rid, c04.FFT, b):
        return
    adt = prog.adts.get("variable_versions::data_number::FieldDataType")
    if not ctx.anchor(rid, "FieldDataType", adt):
        return
    sw = None
    for blk in sorted(b.live_blocks()):
        t = b.term(blk)
        if t["k"] == "switch" and peel(an.op(b, t["op"]))[0] == "discr" and find(an.op(b, t["op"]), lambda n: n == ("arg", 2)):
            sw = (blk, t)
            break
    if not ctx.anchor(rid, c04.FFT + " match on the data type", sw):
        return
    blk0, t0 = sw
    narms = 0
    for v, tb in t0["targets"]:
        name = [x["name"] for x in adt["variants"] if x["vi"] == v]
        if not name:
            continue
        name = name[0]
        narms += 1
        inarm = lambda x: b.edge_dominates((blk0, tb), x)
        bad = []
        ctors = []
        for blk in sorted(b.live_blocks()):
            if not inarm(blk):
                continue
            for s in b.blocks[blk]["stmts"]:
                if s["k"] != "assign":
                    continue
                rv = s["rv"]
                if rv["k"] == "binop" and rv["op"].replace("WithOverflow", "").replace("Unchecked", "") in ARITH:
                    ea, eb = an.op(b, rv["a"]), an.op(b, rv["b"])
                    if from_input_bytes(ea) or from_input_bytes(eb):
                        bad.append(("arithmetic `%s` on a decoded value" % rv["op"].replace("WithOverflow", ""), site(s["span"])))
                elif rv["k"] == "cast" and rv.get("kind") == "IntToInt":
                    src, dst = INT_BITS.get(rv.get("from") or ""), INT_BITS.get(rv.get("ty") or "")
                    if src and dst and dst < src and from_input_bytes(an.op(b, rv["op"])):
                        bad.append(("narrowing cast %s -> %s of a decoded value" % (rv.get("from"), rv.get("ty")), site(s["span"])))
            t = b.term(blk)
            # a constructor handed over as a function value: `helper(.., Duration::from_millis)`
            fnvals = [o for o in (t.get("args") or []) if o.get("k") == "const"]
            fnvals += [s["rv"]["op"] for s in b.blocks[blk]["stmts"] if s["k"] == "assign" and s["rv"]["k"] in ("use", "cast") and s["rv"]["op"].get("k") == "const"]
            for o in fnvals:
                m = FN_ITEM.search(str(o.get("ty") or ""))
                if m:
                    ctors.append((m.group(2), b.line(blk)))
            if t["k"] in ("call", "tailcall") and t["func"].get("k") == "const" and "fn" in t["func"]:
                c = Callee(t["func"]["fn"])
                if DUR_CTOR.match(c.npath):
                    ctors.append((c.npath.rsplit("::", 1)[1], b.line(blk)))
                if INT_METHOD.match(c.npath) or ORD_METHOD.match(c.npath) or ORD_METHOD.match(c.nsyn):
                    if any(from_input_bytes(an.op(b, a)) for a in t["args"]):
                        bad.append(("`%s` applied to a decoded value" % c.npath.rsplit("::", 1)[1], b.line(blk)))
                elif not c.local and (ALTER.search(c.npath) or ALTER.search(c.nsyn)) and not c.npath.startswith("nom") and t["args"] \
                        and from_input_bytes(an.op(b, t["args"][0])) and not is_cursor(an.op(b, t["args"][0])):
                    bad.append(("`%s` alters a decoded value" % c.npath.rsplit("::", 1)[1], b.line(blk)))
                elif re.search(r"ops::Index(<\w+>)?.*::index$", c.npath + "|" + c.nsyn) and len(t.get("argtys", [])) == 2 and RANGE_INDEX.match(t["argtys"][1]) \
                        and from_input_bytes(an.op(b, t["args"][0])) and not is_cursor(an.op(b, t["args"][0])):
                    bad.append(("a sub-range of a decoded value is taken (`[%s]`)" % t["argtys"][1].split("<")[0].rsplit("::", 1)[1], b.line(blk)))
        ctx.ob(rid, c04.FFT, "value-as-sent:%s" % name, not bad,
               "FieldDataType::%s: %s" % (name, "; ".join("%s at %s" % x for x in bad) if bad else "no arithmetic, clamping or narrowing between the wire value and the reported value"),
               site=bad[0][1] if bad else b.line(tb))
        if name in UNIT and time_units:
            got = sorted(set(x[0] for x in ctors))
            ctx.ob(rid, c04.FFT, "time-unit:%s" % name, got == [UNIT[name]],
                   "FieldDataType::%s builds its Duration with %s (the unit of this kind is given by Duration::%s and nothing else)" % (name, got or "no Duration constructor", UNIT[name]),
                   site=ctors[0][1] if ctors else b.line(tb))
    ctx.floor(rid, c04.FFT, "data-type arms inspected", narms, floor)
