"""C15 — parsing cost bounded by input + output: the three shape clauses (DESIGN §4.15).

The quantitative bound itself (bytes allocated <= k*(input+output)) is a run-time quantity that no
static rule here bounds; only necessary shape conditions are decided."""
import re

from .common import *
from .cache import CacheAccess, cache_fields

LEVEL = "other"
EXPLANATION = (
    "NOT a proof of the cost bound (a run-time quantity). Decided shape clauses, each necessary for it: "
    "(R15.1) no capacity-style allocation (with_capacity / reserve / resize / vec![x; n] / repeat) in a "
    "reachable crate body is sized by anything but a constant or the length of existing data; (R15.2) no "
    "deep copy (clone / to_vec / cloned) of a loop-invariant heap-owning value inside a per-record or "
    "per-packet repetition (loop body, or closure handed to fold/try_fold/map/many0/count); (R15.3) the "
    "remainder handed back per packet is not copied into an owned buffer per packet; (R15.4) every "
    "template admitted to a cache passed a guard that rejects zero-length fields, so each materialised "
    "field consumed at least one input byte; (R15.5) a cached template / a whole cache is borrowed, never copied, "
    "on the parse path; (R15.6) an owned accumulator threaded through fold/try_fold or carried round a loop is "
    "extended in place, never rebuilt from itself. R15.3 and R15.4 fail on the current tree and are listed as "
    "known findings (public API / the suite requires zero-length fields)."
)
ASSUMPTIONS = ["nom::multi::count caps its own pre-allocation (dependency code, not analysed)",
               "Vec growth by push is amortised linear in the number of pushed elements"]

CAPACITY = re.compile(r"^(std|alloc)::(vec::Vec|string::String|collections::(VecDeque|HashMap|HashSet|BTreeMap|BinaryHeap))::(with_capacity|with_capacity_in|reserve|reserve_exact|try_reserve|try_reserve_exact|resize|resize_with|set_len)$|^(std|alloc)::vec::from_elem$|^(std|alloc)::(slice::<impl \[T\]>|str::<impl str>)::repeat$|^(std|core)::iter::(repeat_n|repeat)$")
LEN = ("core::slice::<impl [T]>::len", "std::slice::<impl [T]>::len", "std::vec::Vec::len", "alloc::vec::Vec::len",
       "std::string::String::len", "core::str::<impl str>::len", "std::collections::BTreeMap::len", "std::collections::HashMap::len")
CLONERS = ("std::clone::Clone::clone", "std::slice::<impl [T]>::to_vec", "std::borrow::ToOwned::to_owned", "std::option::Option::cloned",
           "std::iter::Iterator::cloned")
REPEATERS = ("std::iter::Iterator::fold", "std::iter::Iterator::try_fold", "std::iter::Iterator::map", "std::iter::Iterator::for_each",
             "std::iter::Iterator::flat_map", "std::iter::Iterator::filter_map", "std::iter::Iterator::any", "std::iter::Iterator::all",
             "nom::multi::many0", "nom::multi::many1", "nom::multi::count", "nom::multi::many_m_n", "nom::multi::fold_many0", "nom::combinator::complete")
HEAP_RE = re.compile(r"std::(vec::Vec|string::String|collections::|boxed::Box)")


def owns_heap(prog, ty, depth=0, seen=None):
    ty = ty.lstrip("&").strip()
    if ty.startswith("mut "):
        ty = ty[4:]
    if HEAP_RE.search(ty):
        return True
    if depth > 6:
        return False
    seen = seen or set()
    for name, adt in prog.adts.items():
        if name in seen:
            continue
        if re.search(r"(^|[^A-Za-z0-9_:])%s($|[^A-Za-z0-9_])" % re.escape(name), ty):
            for v in adt["variants"]:
                for f in v["fields"]:
                    if owns_heap(prog, f["ty"], depth + 1, seen | {name}):
                        return True
    return False


def size_arg_ok(an, body, e, depth=0):
    """Size expression built from constants and len() of existing data through -, /, min, saturating ops, casts."""
    e = peel(e, widen=True)
    k = e[0]
    if k == "const":
        return True, "constant %s" % e[1]
    if const_eval(e) is not None:
        return True, "constant"
    if k == "call" and e[2] is not None and e[2].local and e[2].kind == "Item" and depth < 3 and getattr(an, "prog", None) is not None:
        # a private size helper (`fn encoded_len(&self) -> usize`): every value it can return is a constant or the
        # length of existing data
        hb = an.prog.bodies.get(e[2].path)
        if hb is not None and re.match(r"^(usize|u\d+)$", hb.local_ty(0)) and not hb.sccs():
            r = peel(an.local(hb, 0), widen=True)
            ms = r[1] if r[0] == "phi" else [r]
            rs = [size_arg_ok(an, hb, m, depth + 1) for m in ms]
            if all(x[0] for x in rs):
                return True, "size helper %s returns constants / lengths of existing data" % e[2].path.rsplit("::", 1)[1]
            return False, "size helper %s: %s" % (e[2].path.rsplit("::", 1)[1], [x[1] for x in rs if not x[0]][:1])
    if k == "call" and e[2] is not None:
        if e[2].is_(*LEN):
            return True, "len() of existing data"
        n = e[2].npath
        if re.search(r"::(min|saturating_sub|checked_sub|wrapping_sub|saturating_div|checked_div|div_ceil)$", n) or e[2].nsyn in ("std::cmp::Ord::min", "std::cmp::min"):
            oks = [size_arg_ok(an, body, a) for a in e[3]]
            if n.endswith("min") or e[2].nsyn in ("std::cmp::Ord::min", "std::cmp::min"):
                return (any(o[0] for o in oks), "min(..) with a bounded operand")
            return (oks[0][0], "derived from %s" % oks[0][1])
        if e[2].nsyn in ("std::option::Option::unwrap_or", "std::option::Option::unwrap_or_default"):
            return size_arg_ok(an, body, e[3][0])
        if re.search(r"::(saturating|checked|wrapping)_(add|mul)$", n) and len(e[3]) == 2:
            # linear in the size of existing data: a*len + b with a constant factor / addend
            ra, rb = size_arg_ok(an, body, e[3][0]), size_arg_ok(an, body, e[3][1])
            ca_, cb_ = const_eval(peel(e[3][0], widen=True)), const_eval(peel(e[3][1], widen=True))
            if ra[0] and rb[0] and (ca_ is not None or cb_ is not None or n.endswith("_add")):
                return True, "constant multiple / sum of lengths of existing data"
            return False, "size = %s — not linear in the length of existing data" % canon(e)[:200]
    if k == "binop" and e[1] in ("Sub", "Div", "SubWithOverflow", "Shr", "Rem", "BitAnd"):
        return size_arg_ok(an, body, e[2])
    if k == "binop" and e[1].replace("WithOverflow", "") in ("Add", "Mul"):
        # linear in the size of existing data: a*len + b with constant a, b
        ra, rb = size_arg_ok(an, body, e[2]), size_arg_ok(an, body, e[3])
        if ra[0] and rb[0] and (const_eval(peel(e[2], widen=True)) is not None or const_eval(peel(e[3], widen=True)) is not None or e[1].startswith("Add")):
            return True, "constant multiple / sum of lengths of existing data"
        return False, "size = %s — not linear in the length of existing data" % canon(e)[:200]
    if k == "tfield":
        return size_arg_ok(an, body, e[1])
    if k == "cast":
        return size_arg_ok(an, body, e[2])
    if k == "phi":
        rs = [size_arg_ok(an, body, x) for x in e[1]]
        return all(r[0] for r in rs), "phi"
    return False, "size = %s — not a constant nor the length of existing data (a wire integer?)" % canon(e)[:200]


def repetition_closures(prog, an, bodies):
    """Closure def paths that are handed to an iterator consumer / nom repeater (directly or nested)."""
    out = {}
    for b in bodies.values():
        for blk, t, c in b.calls():
            if c is None or not (c.nsyn in REPEATERS or c.npath in REPEATERS):
                continue
            for a in t["args"]:
                e = an.op(b, a)
                for n in find(e, lambda n: n[0] == "closure"):
                    out.setdefault(n[1], []).append((b.path, c.npath))
    # closures nested inside repetition closures
    changed = True
    while changed:
        changed = False
        for p in list(prog.bodies):
            m = re.match(r"^(.*)::\{closure#\d+\}$", p)
            if m and m.group(1) in out and p not in out:
                out[p] = [("nested in", m.group(1))]
                changed = True
    return out


def run(ctx, env):
    prog = env.prog("default")
    an = An(prog)
    ctx.rule("R15.1", "every capacity-style allocation call in a reachable crate body has a size argument that slices to a constant or to len() of existing data (through -, /, min)")
    ctx.rule("R15.2", "inside a repetition (CFG loop body, or closure handed to fold/try_fold/map/many0/count…) no clone/to_vec/cloned of a heap-owning value whose source is defined outside the repetition")
    ctx.rule("R15.5", "a template read from the cache is borrowed by the decoders, never deep-copied: its size is independent of the data being decoded, so a copy per data flowset / set costs (number of sets) x (template size) for a buffer of minimal sets")
    ctx.rule("R15.3", "the per-packet result does not carry an owned copy of the whole remaining buffer")
    ctx.rule("R15.4", "fields of declared length zero cannot inflate the output: every cache write is dominated by a validity guard that examines the field_length of all template fields (rejects zero-length fields), or the decoder reading that cache decodes the template's field lists under a progress-checked repetition (nom many0 / many1 fail on an element that consumes nothing)")
    if not roots_or_fail(ctx, prog, "R15.1", PARSE_ROOTS):
        return
    bodies = reach_bodies(prog, ALL_ROOTS)
    # R15.1
    ncap = 0
    nall = 0
    for b in sorted(bodies.values(), key=lambda x: x.path):
        for blk, t, c in b.calls():
            if c is None:
                continue
            nall += 1
            if not CAPACITY.match(c.npath):
                continue
            sp = b.blocks[blk]["tspan"]
            ncap += 1
            sizearg = t["args"][-1] if not c.npath.endswith("from_elem") else t["args"][1]
            if c.npath.endswith(("resize", "resize_with")):
                sizearg = t["args"][1]
            ok, why = size_arg_ok(an, b, an.op(b, sizearg))
            ctx.ob("R15.1", b.path, "alloc:%s" % c.npath, ok, why, site=b.line(blk))
    ctx.ob("R15.1", "reachable-bodies", "capacity-call-inventory", True, "%d capacity-style calls among %d call sites in %d reachable bodies" % (ncap, nall, len(bodies)))
    # R15.2
    reps = repetition_closures(prog, an, bodies)
    ctx.count("repetition_closures", len(reps))
    nclone = 0
    for b in sorted(bodies.values(), key=lambda x: x.path):
        in_rep_closure = b.path in reps
        loops = b.sccs()
        loopblocks = set(x for comp in loops for x in comp)
        sl = an.slicer(b)
        for blk, t, c in b.calls():
            if c is None or not (c.nsyn in CLONERS or c.npath in CLONERS):
                continue
            in_loop = blk in loopblocks
            if not (in_rep_closure or in_loop):
                continue
            ty = t["argtys"][0] if t["argtys"] else ""
            if not owns_heap(prog, ty):
                continue
            nclone += 1
            src = an.op(b, t["args"][0])
            inv, why = invariant_source(an, b, sl, src, blk, in_rep_closure, loopblocks, loops)
            ctx.ob("R15.2", b.path, "clone:%s:%s" % (c.nsyn.rsplit("::", 1)[1], short_ty(ty)), not inv,
                   ("deep copy of loop-invariant %s per iteration: %s" % (short_ty(ty), why)) if inv else ("copies a per-iteration value: %s" % why), site=b.line(blk))
    ctx.floor("R15.2", "crate", "heap-owning clone sites inside repetitions", nclone, 2)
    # R15.6 accumulators grow in place
    ctx.rule("R15.6", "an owned accumulator (String / Vec / map) threaded through fold / try_fold / reduce, or carried round a loop, is extended in place and never rebuilt from itself (format!, clone, to_vec, to_owned, concat, join, collect of the accumulator): rebuilding copies everything accumulated so far at every step, quadratic in the number of steps")
    REBUILD = re.compile(r"(^|::)(fmt::format|string::ToString::to_string|clone::Clone::clone|borrow::ToOwned::to_owned|slice::<impl \[T\]>::(to_vec|concat|join|repeat)|str::<impl str>::(to_owned|to_string|repeat|replace|to_uppercase|to_lowercase)|iter::Iterator::collect|iter::Iterator::cloned|convert::From::from|convert::Into::into)$")
    FOLDS = ("std::iter::Iterator::fold", "std::iter::Iterator::try_fold", "std::iter::Iterator::reduce", "std::iter::Iterator::scan", "std::iter::Iterator::try_reduce",
             "nom::multi::fold_many0", "nom::multi::fold_many1", "nom::multi::fold_many_m_n")
    nacc = 0
    fold_closures = {}
    for b in bodies.values():
        for blk, t, c in b.calls():
            if c is None or not (c.nsyn in FOLDS or c.npath in FOLDS):
                continue
            for a in t["args"]:
                for n in find(an.op(b, a), lambda n: n[0] == "closure"):
                    fold_closures[n[1]] = (b.path, c.nsyn.rsplit("::", 1)[1])

    def rebuilds(e, is_acc):
        out = []
        for n in find(e, lambda n: n[0] == "call" and n[2] is not None and (REBUILD.search(n[2].npath) or REBUILD.search(n[2].nsyn))):
            if any(find(a, is_acc) for a in n[3]):
                out.append(n[2].nsyn.rsplit("::", 1)[1])
        return out

    for cp, (owner, how) in sorted(fold_closures.items()):
        cb = prog.bodies.get(cp)
        if cb is None or cb.arg_count < 2 or not owns_heap(prog, cb.local_ty(2)):
            continue
        nacc += 1
        hits = rebuilds(an.slicer(cb).local(0), lambda n: n == ("arg", 2))
        ctx.ob("R15.6", re.sub(r"(::\{closure#\d+\})+$", "", cp), "accumulator:%s" % how, not hits,
               ("the %s step rebuilds its %s accumulator from itself through %s: every step copies everything accumulated so far" % (how, short_ty(cb.local_ty(2)), sorted(set(hits))))
               if hits else "the %s step returns its %s accumulator extended in place" % (how, short_ty(cb.local_ty(2))), site=site(cb.span))
    for b in sorted(bodies.values(), key=lambda x: x.path):
        if b.derived:
            continue
        loops = b.sccs()
        if not loops:
            continue
        sl = an.slicer(b)
        seen_l = set()
        for comp in loops:
            comp = set(comp)
            for blk in sorted(comp):
                dests = [(s["place"]["l"], s["span"]) for s in b.blocks[blk]["stmts"] if s["k"] == "assign" and not s["place"].get("p")]
                t = b.term(blk)
                if t["k"] == "call" and t.get("dest") and not t["dest"].get("p"):
                    dests.append((t["dest"]["l"], b.blocks[blk]["tspan"]))
                for l, sp in dests:
                    if l in seen_l or l <= b.arg_count or not b.locals[l].get("user") and False:
                        continue
                    ty = b.local_ty(l)
                    if ty.startswith("&") or not owns_heap(prog, ty):
                        continue
                    # carried round the loop: also defined before the loop (initial value) and read in the loop
                    defs = sl.defs.get(l, [])
                    if not any(d[1] not in comp for d in defs):
                        continue
                    seen_l.add(l)
                    e = sl.local(l)
                    hits = rebuilds(e, lambda n, l=l: n in (("cycle", l), ("local", l)))
                    if not find(e, lambda n, l=l: n == ("cycle", l)):
                        continue
                    nacc += 1
                    ctx.ob("R15.6", b.path, "loop-accumulator:%s" % short_ty(ty), not hits,
                           ("the loop rebuilds its %s accumulator from itself through %s at every iteration" % (short_ty(ty), sorted(set(hits)))) if hits
                           else "loop-carried %s is extended in place" % short_ty(ty), site=site(sp))
    ctx.count("accumulators_inspected", nacc)
    # R15.7 allocations on the decode path come from the input, not from the cached template
    ctx.rule("R15.8", "the number of V9 records decoded from a data flowset is bounded by its bytes: record_count = input.len() / (sum of field_length over the fields of the very template the records are decoded with), computed from that template at the time of the decode (not a remembered size that a redefinition leaves stale), and the loop runs 0..record_count (shared with C04 R4.4)")
    from . import c04 as _c04
    saved8, saved_rules8, saved_an8, saved_notes8 = ctx.obls, dict(ctx.rule_text), dict(ctx.analysed), list(ctx.notes)
    ctx.obls = []
    try:
        _c04.run(ctx, env)
    finally:
        sub8 = ctx.obls
        ctx.obls = saved8
        ctx.rule_text.clear()
        ctx.rule_text.update(saved_rules8)
        ctx.analysed.clear()
        ctx.analysed.update(saved_an8)
        ctx.notes[:] = saved_notes8
    n8 = 0
    for o in sub8:
        if o["rule"] == "R4.4" and o["detail"] in ("loop-is-0..record_count", "record-count-form", "record-count=len/total_size", "total=Σ field_length over all fields", "anchor"):
            n8 += 1
            ctx.ob("R15.8", o["func"], o["detail"], o["status"] == "discharged", o["reason"], o["site"])
    ctx.floor("R15.8", "v9", "record-count obligations", n8, 3)
    ctx.rule("R15.9", "every flowset a V9 packet reports costs input bytes: the repetition over flowsets is bounded only by the announced count, so each iteration that adds an element must consume at least one byte - on every success path of the repetition's body the returned cursor is the remainder of a parser whose layout has a fixed non-zero minimum width (the 4-byte flowset header), never of a variable-length `take(header.length)` alone (length 0 would add an element per announced count for no input)")
    from . import consume as _cons9
    from .layout import Layouts as _Lay9
    lay9 = _Lay9(prog, an)
    tgt9 = "variable_versions::v9::FlowSet::parse"
    n9 = 0
    for p9, b9 in sorted(prog.bodies.items()):
        if b9.derived or p9.startswith(tgt9) or "parse_le" in p9:
            continue
        if not any(c is not None and c.local and c.path == tgt9 for _, _, c in b9.calls()):
            continue
        members, _ = _cons9._ok_members(an, b9)
        for cur9, val9 in members:
            vtxt = canon(peel(val9))
            n9 += 1
            if "mut_" not in vtxt and "push" not in vtxt and peel(cur9)[0] in ("arg", "tfield", "field") and not find(cur9, lambda n: n[0] == "call"):
                continue          # nothing added on this path (the `input is empty` return)
            steps9 = _cons9.chain_steps(an, lay9, an.expand(cur9))
            unknown = [s_ for s_ in steps9 if s_[0] == "?" and not (peel(s_[1])[0] in ("cycle", "mutlocal") or (peel(s_[1])[0] == "tfield" and peel(peel(s_[1])[1][1] if len(peel(s_[1])[1]) > 1 else ("x",))[0] == "cycle"))]
            widths = [lay9.min_width(s_[2]) for s_ in steps9 if s_[0] == "step"]
            ok9 = any(w > 0 for w in widths)
            # a phi of alternatives: every alternative must make progress - chain_steps concatenates them, so look at each
            cp9 = peel(an.expand(cur9))
            alts = cp9[1] if cp9[0] == "phi" else [cp9]
            bad_alt = None
            for a9 in alts:
                if peel(a9)[0] == "arg" and len(alts) > 1:
                    continue      # the explicit-loop form: no iteration was made, nothing was added
                st_a = _cons9.chain_steps(an, lay9, a9)
                def _carried(x):
                    y = peel(x[1])
                    while y[0] in ("ref", "deref"):
                        y = peel(y[1])
                    return y[0] in ("cycle", "mutlocal") or (y[0] in ("tfield", "ok", "some") and bool(find(y, lambda n: n[0] == "cycle")) and not find(y, lambda n: n[0] == "call"))
                if any(x[0] == "?" and not _carried(x) for x in st_a) or not any(lay9.min_width(x[2]) > 0 for x in st_a if x[0] == "step"):
                    bad_alt = canon(peel(a9))[:120]
            ok9 = ok9 and bad_alt is None
            ctx.ob("R15.9", p9, "each-reported-flowset-consumes-input", ok9,
                   ("a success path of the flowset repetition returns a cursor that is not shown to have advanced (%s): with a zero length field every announced flowset is reported for no input" % (bad_alt or [canon(peel(x[1]))[:80] for x in unknown][:1])) if not ok9
                   else "every alternative of the returned cursor is the remainder of a parser with a fixed minimum width of %s byte(s)" % sorted(set(w for w in widths if w > 0)), site=site(b9.span))
    if n9 == 0:
        # the repetition carries its cursor in a private struct (`FlowSetCursor { remaining, flowsets }`): no
        # (remainder, value) tuple to follow - judge the parsers its body applies instead: each has a fixed non-zero
        # minimum width and no bare `take` is applied there
        for p9, b9 in sorted(prog.bodies.items()):
            if b9.derived or p9.startswith(tgt9) or "parse_le" in p9 or not any(c is not None and c.local and c.path == tgt9 for _, _, c in b9.calls()):
                continue
            widths9, bare = [], []
            for blk9, t9, c9 in b9.calls():
                if c9 is None:
                    continue
                if c9.local and prog.bodies.get(c9.path) is not None and re.match(r"^std::result::Result<\(&", prog.bodies[c9.path].local_ty(0)):
                    n9 += 1
                    widths9.append(lay9.min_width(("struct", None, c9.path)))
                if c9.npath in ("nom::bytes::complete::take", "nom::bytes::streaming::take"):
                    bare.append(b9.line(blk9))
            ok9 = bool(widths9) and all(w > 0 for w in widths9) and not bare
            ctx.ob("R15.9", p9, "each-reported-flowset-consumes-input", ok9,
                   "parsers applied by the repetition body have minimum widths %s; bare take(..) applications: %s" % (widths9, bare), site=site(b9.span))
    ctx.floor("R15.9", "v9", "success paths of the flowset repetition that add an element", n9, 1)
    ctx.rule("R15.7", "on the decode path nothing is allocated in proportion to the cached template alone: every collect / to_vec / clone / with_capacity in a hand-written parser under variable_versions takes its size from the input bytes (or a constant) - a per-flowset table built from the template's field list costs (number of flowsets) x (template width) for a buffer of minimal flowsets that decode to nothing")
    from . import consume as _cons7
    TEMPLATE_TY = re.compile(r"\b(Template|OptionsTemplate|TemplateField|OptionsTemplateScopeField|V9Parser|IPFixParser)\b")
    MAKERS = re.compile(r"(^|::)(iter::Iterator::collect|iter::FromIterator::from_iter|slice::<impl \[T\]>::to_vec|borrow::ToOwned::to_owned|clone::Clone::clone|iter::Iterator::cloned|vec::Vec(<.*>)?::with_capacity|vec::Vec(<.*>)?::reserve|vec::from_elem)$")
    n7 = 0
    for cbdy in _cons7.cursor_bodies(prog):
        if not cbdy.path.startswith("variable_versions::") or cbdy.kind == "Closure":
            continue
        for blk, t, c in cbdy.calls():
            if c is None or not (MAKERS.search(c.npath) or MAKERS.search(c.nsyn)) or not t["args"]:
                continue
            dty = cbdy.local_ty(t["dest"]["l"]) if t.get("dest") else ""
            if not (owns_heap(prog, dty) or "with_capacity" in c.npath or "reserve" in c.npath):
                continue
            leaves = set()
            for a in t["args"]:
                for x in find(an.op(cbdy, a), lambda x: x[0] == "arg"):
                    leaves.add(x[1])
            if not leaves:
                continue
            n7 += 1
            tys = {k: cbdy.local_ty(k) for k in leaves if 1 <= k <= cbdy.arg_count}
            from_input = any("[u8]" in ty for ty in tys.values())
            only_template = bool(tys) and all(TEMPLATE_TY.search(ty) and "[u8]" not in ty for ty in tys.values())
            okp = from_input or not only_template
            ctx.ob("R15.7", cbdy.path, "allocation-from-input:%s" % c.nsyn.rsplit("::", 1)[1], okp,
                   ("%s at %s builds a %s from %s only - its size follows the cached template, not the bytes being decoded" % (c.nsyn.rsplit("::", 1)[1], cbdy.line(blk), short_ty(dty), sorted(short_ty(x) for x in tys.values())))
                   if not okp else "sized by the input (or not by a cached template alone)", site=cbdy.line(blk))
    ctx.count("decode_path_allocations", n7)
    # R15.5
    from .cache import GET as _GET, PARSER_ADTS as _PADTS
    ncl = 0
    for b in sorted(bodies.values(), key=lambda x: x.path):
        for blk, t, c in b.calls():
            if c is None or not (c.nsyn in CLONERS or c.npath in CLONERS) or not t["args"]:
                continue
            src = an.op(b, t["args"][0])
            # what is copied: a remainder slice `ok(P(cursor, template)).0` is a piece of the input, whatever else the
            # parser P was given - only the cursor it came from is followed there
            gets = []
            from ..slicer import walk as _walk5

            def _f5(n):
                if n[0] == "tfield" and n[2] == 0 and n[1][0] == "ok" and peel(n[1][1])[0] == "call" and peel(n[1][1])[3]:
                    cal5 = peel(n[1][1])
                    cb5 = prog.bodies.get(cal5[2].path) if cal5[2] is not None and cal5[2].local else None
                    if cb5 is not None and re.match(r"^std::result::Result<\(&", cb5.local_ty(0)):
                        st5 = _Lay9(prog, an).step_of_call(cal5) if False else None
                        cur5 = [a for a in cal5[3] if True][:1]
                        for a in cal5[3]:
                            ty_ok = True
                        # the cursor is the first `&[u8]` argument
                        for k5 in range(cb5.arg_count):
                            if "[u8]" in cb5.local_ty(k5 + 1) and k5 < len(cal5[3]):
                                _walk5(cal5[3][k5], _f5)
                                break
                        return False
                if n[0] == "call" and n[2] is not None and n[2].npath in _GET and n[3]:
                    gets.append(n)
                return True
            _walk5(src, _f5)
            hit = None
            for g in gets:
                _, recv = an.lift(b, g[3][0])
                recv = peel(recv)
                if recv[0] == "field" and recv[3] in _PADTS:
                    hit = recv
            if hit is None:
                continue
            ncl += 1
            adt_s = hit[3].rsplit("::", 1)[1]
            owner = re.sub(r"(::\{closure#\d+\})+$", "", b.path)
            ctx.ob("R15.5", owner, "cached-template-copied:%s.%s" % (adt_s, hit[2]), False,
                   "%s deep-copies the template it looks up in %s.%s (%s) every time a data set of that id is decoded — the copy is as large as the cached template, however small the set" % (owner, adt_s, hit[2], c.nsyn.rsplit("::", 1)[1]),
                   site=b.line(blk))
    # ... nor is a whole template map / parser state copied (a per-packet snapshot costs the size of the cache)
    cf = cache_fields(prog)
    map_tys = set()
    for adt, fs in cf.items():
        a = prog.adts.get(adt)
        for f in (a["variants"][0]["fields"] if a else []):
            if f["name"] in fs:
                map_tys.add(f["ty"])
    for b in sorted(bodies.values(), key=lambda x: x.path):
        if b.derived:
            continue
        for blk, t, c in b.calls():
            if c is None or not (c.nsyn in CLONERS or c.npath in CLONERS) or not t.get("argtys"):
                continue
            ty = t["argtys"][0].replace("&mut ", "").replace("&", "").strip()
            if ty in map_tys or ty in _PADTS or ty == "NetflowParser":
                ncl += 1
                ctx.ob("R15.5", re.sub(r"(::\{closure#\d+\})+$", "", b.path), "cache-copied:%s" % short_ty(ty), False,
                       "%s copies %s (%s) on the parse path: the cost of a packet then grows with everything the parser has cached, not with the packet" % (b.path, short_ty(ty), c.nsyn.rsplit("::", 1)[1]),
                       site=b.line(blk))
    ctx.ob("R15.5", "decode-path", "cache-lookups-borrowed", ncl == 0, "%d clone(s) of cache lookups / cache maps on the decode path" % ncl)
    # R15.3
    pn = prog.adts.get("ParsedNetflow")
    if ctx.anchor("R15.3", "ParsedNetflow", pn):
        rem = [f for f in pn["variants"][0]["fields"] if f["name"] == "remaining"]
        owned = bool(rem) and rem[0]["ty"].startswith("std::vec::Vec<")
        copies = []
        for bb in prog.bodies.values():
            if bb.derived:
                continue
            for (blk, i, st) in block_aggs(bb):
                if st["rv"]["adt"] == "ParsedNetflow":
                    f = dict(zip(st["rv"]["fields"], st["rv"]["ops"]))
                    if "remaining" in f and is_copy_of_slice(an.op(bb, f["remaining"])) is not None:
                        copies.append("%s (%s)" % (bb.path, site(st["span"])))
        ctx.ob("R15.3", "ParsedNetflow", "remainder-copied-per-packet", not (owned and copies),
               "ParsedNetflow.remaining : %s is filled by an owned copy of the parser remainder once per packet of the buffer (quadratic in the number of chained packets): %s" % (rem[0]["ty"] if rem else "?", copies[:2]))
    # R15.4
    ca = CacheAccess(prog, an)
    for w in ca.writes:
        if w["kind"] not in ("insert", "extend"):
            continue
        b = w["body"]
        guards = guards_by_call(an, b, None) if False else []
        ok = False
        why = "no guard examining every field_length dominates this write"
        for blk2 in sorted(b.live_blocks()):
            t2 = b.term(blk2)
            if t2["k"] != "switch":
                continue
            e, neg = strip_not(an.op(b, t2["op"]))
            if e[0] == "call" and e[2] is not None and e[2].local:
                be = bool_edges(t2, neg)
                if not be or not b.edge_dominates((blk2, be[0]), w["block"]):
                    continue
                if guard_checks_all_lengths(prog, e[2].path):
                    ok = True
                    why = "dominated by %s which checks field_length of all fields" % e[2].path
                else:
                    why = "dominated by %s, which does not require every field_length > 0 (a single non-zero field suffices)" % e[2].path
        if not ok:
            # ... or the decoder that reads this cache decodes the template's fields under a progress-checked
            # repetition: nom's many0 / many1 fail when an element parser succeeds without consuming, so a
            # zero-length field fails the flowset instead of being materialised
            dec = DECODER_OF.get((w["adt"].rsplit("::", 1)[1], w["field"]))
            if dec is not None:
                pc, pwhy = progress_checked_decoder(prog, an, dec)
                if pc:
                    ok = True
                    why = "zero-length fields are admitted to the cache, but %s" % pwhy
                else:
                    why += "; " + pwhy
        ctx.ob("R15.4", w["adt"], "zero-length-fields-rejected:%s" % w["field"], ok, why + " (write at %s)" % b.path, site=b.line(w["block"]))


ONE_FIELD = re.compile(r"^&('\w+ )?(mut )?[\w:]*(TemplateField|OptionsTemplateScopeField|OptionTemplateField)$")
FIELD_ARG = re.compile(r"\b(TemplateField|OptionsTemplateScopeField|OptionTemplateField)\b")


def progress_checked_decoder(prog, an, dec):
    """Every per-field decode of this decoder - a call of a crate parser that is handed one template field - runs under
    a repetition that refuses an element which consumes nothing: a closure given (directly or through nested
    closures / private helpers) to nom `many0` / `many1`, or a loop with an explicit nothing-consumed test."""
    from .c13 import reachable_local_bodies
    from . import loopexit
    from ..suffix import is_parser_ret
    root = dec + "::parse_be"
    if prog.body(root) is None:
        return False, "decoder %s not found" % root
    # every function of the decoder type and what they call inside the decoder's module (MIR-level call edges, so
    # that a derived entry point that is no longer on the parse path does not hide the functions that are)
    mod = dec.rsplit("::", 1)[0] + "::"
    rb = {}
    st = [p for p in prog.bodies if p.startswith(dec + "::") and "parse_le" not in p]
    while st:
        p0 = st.pop()
        if p0 in rb or p0 not in prog.bodies or "parse_le" in p0:
            continue
        rb[p0] = prog.bodies[p0]
        for _, _, c0 in prog.bodies[p0].calls():
            if c0 is not None and c0.local and c0.path.startswith(mod) and c0.path not in rb:
                st.append(c0.path)
        st.extend(p1 for p1 in prog.bodies if p1.startswith(p0 + "::{closure") and p1 not in rb)
    # closure types handed to many0 / many1 anywhere below the decoder
    under = set()
    for bb in rb.values():
        for blk, t, c in bb.calls():
            if c is not None and c.npath in ("nom::multi::many0", "nom::multi::many1"):
                txt = " ".join(str(x) for x in (t.get("argtys") or [])) + " " + " ".join(str(x) for x in (c.args or []))
                for tok in re.findall(r"\{closure@[^{}]*\}", txt):
                    for p2, b2 in rb.items():
                        if b2.kind == "Closure" and b2.span and "{closure@%s}" % b2.span["s"] == tok:
                            under.add(p2)
    # ... and whatever those closures call / contain
    changed = True
    while changed:
        changed = False
        for p2, b2 in rb.items():
            if p2 in under:
                continue
            par = re.sub(r"::\{closure#\d+\}$", "", p2)
            if par != p2 and par in under:
                under.add(p2)
                changed = True
        for p2 in list(under):
            for blk, t, c in rb[p2].calls():
                if c is not None and c.local and c.path in rb and c.path not in under and not rb[c.path].j.get("pub"):
                    under.add(c.path)
                    changed = True
    sites = []
    for p2, b2 in sorted(rb.items()):
        for blk, t, c in b2.calls():
            if c is None or not (c.local or c.nsyn in ("std::ops::Fn::call", "std::ops::FnMut::call_mut", "std::ops::FnOnce::call_once")) \
                    or not is_parser_ret(b2.local_ty(t["dest"]["l"])):
                continue
            tys = [y.strip() for x in (t.get("argtys") or []) for y in (str(x)[1:-1].split(", ") if str(x).startswith("(") else [str(x)])]
            one_field = any(ONE_FIELD.match(y) for y in tys)
            if not one_field:
                # a generic helper (`fn in_order<T>(.., fields: &[T], f: impl Fn(&[u8], &T) -> ..)`): the element of
                # an iteration handed to a parser
                for a in t["args"]:
                    e = peel(an.op(b2, a))
                    ms = e[1] if e[0] == "tuple" else [e]
                    for m in ms:
                        m = peel(m)
                        while m[0] in ("ref", "deref"):
                            m = peel(m[1])
                        if m[0] == "some" and peel(m[1])[0] == "call" and peel(m[1])[2] is not None and peel(m[1])[2].nsyn == "std::iter::Iterator::next" \
                                and any(re.match(r"^&('\w+ )?[A-Z]\w*$", y) for y in tys):
                            one_field = True
            if not one_field:
                continue
            if re.search(r"::parse(_be|_le)?$", c.path) and c.path.startswith(p2.split("::parse")[0] + "::parse"):
                continue        # parse -> parse_be delegation
            sites.append((p2, b2, blk, c))
    if not sites:
        return False, "no per-field decode site found below %s (unrecognised shape)" % dec.rsplit("::", 1)[1]
    bad = []
    for p2, b2, blk, c in sites:
        if p2 in under:
            continue
        ok2 = False
        inner = [set(cm) for cm in b2.sccs() if blk in cm]
        for comp in ([min(inner, key=len)] if inner else []):     # the innermost loop: the per-field repetition
            for u in comp:
                t2 = b2.term(u)
                if t2["k"] != "switch":
                    continue
                e, neg = strip_not(an.op(b2, t2["op"]))
                k = loopexit.kind_of_bool_expr(peel(e), True)
                if k in ("zero-progress", "progress", "len-vs-len"):
                    ok2 = True
        if not ok2:
            bad.append("%s at %s" % (c.path.rsplit("::", 2)[-2] + "::" + c.path.rsplit("::", 1)[1], b2.line(blk)))
    if bad:
        return False, "%s decodes template fields (%s) outside any progress-checked repetition: a field of length zero is materialised without consuming input" % (dec.rsplit("::", 1)[1], bad[:2])
    return True, "%s decodes every template field under a progress-checked repetition (nom many0 / many1, or a loop that tests for nothing consumed): a field that consumes nothing fails the flowset (%d decode site(s))" % (dec.rsplit("::", 1)[1], len(sites))


DECODER_OF = {("V9Parser", "templates"): "variable_versions::v9::Data", ("V9Parser", "options_templates"): "variable_versions::v9::OptionsData",
              ("IPFixParser", "templates"): "variable_versions::ipfix::Data", ("IPFixParser", "options_templates"): "variable_versions::ipfix::OptionsData"}


def short_ty(ty):
    return re.sub(r"[a-z_0-9]+::", "", ty)[:60]


def guard_checks_all_lengths(prog, path):
    """The guard function (and its closures) calls Iterator::all over the fields with a closure reading field_length."""
    for p, b in prog.bodies.items():
        if not (p == path or p.startswith(path + "::")):
            continue
        for blk, t, c in b.calls():
            if c is not None and c.nsyn == "std::iter::Iterator::all":
                return True
    # trait default method: look at every body under the trait path too
    m = re.match(r"^<.* as (.*)>::(\w+)$", path)
    if m:
        tp = "%s::%s" % (m.group(1), m.group(2))
        for p, b in prog.bodies.items():
            if p == tp or p.startswith(tp + "::"):
                for blk, t, c in b.calls():
                    if c is not None and c.nsyn == "std::iter::Iterator::all":
                        return True
    return False


def invariant_source(an, b, sl, src, blk, in_rep_closure, loopblocks, loops):
    """Is the cloned value defined outside the repetition?"""
    core = peel(src)
    if in_rep_closure and blk not in loopblocks:
        # inside a repetition closure: invariant iff it does not depend on the closure's parameters (arg >= 2)
        deps = find(core, lambda n: n[0] == "arg" and n[1] >= 2)
        calls = find(core, lambda n: n[0] == "call" and n[2] is not None and n[2].nsyn not in ("std::ops::Deref::deref",))
        upv = find(core, lambda n: n[0] == "tfield" and peel(n[1]) == ("arg", 1)) or find(core, lambda n: n == ("arg", 1))
        if deps:
            return False, "depends on the closure parameter"
        if upv and not deps:
            return True, "source is a captured variable (%s)" % canon(core)[:120]
        return False, "source = %s" % canon(core)[:120]
    # CFG loop: invariant iff every local it slices to is defined only outside the loop containing blk
    comp = None
    for c in loops:
        if blk in c and (comp is None or len(c) < len(comp)):
            comp = c
    cs = set(comp or [])
    # find MIR locals feeding the argument (one step)
    a = b.term(blk)["args"][0]
    if a.get("k") not in ("copy", "move"):
        return False, "constant"
    from .c02 import underlying_locals
    roots = underlying_locals(sl, a["place"]["l"])
    variant = False
    for rl in roots:
        for d in sl.defs.get(rl, []):
            if d[1] in cs:
                # defined inside the loop: does that definition depend on per-iteration data?
                if d[0] == "call":
                    variant = True
                elif d[0] == "assign":
                    rv = d[3]
                    if rv["k"] in ("ref", "use", "copyforderef"):
                        pl = rv.get("place") or rv.get("op", {}).get("place")
                        if pl is not None:
                            base_defs = sl.defs.get(pl["l"], [])
                            if any(x[1] in cs for x in base_defs) :
                                variant = True
                    else:
                        variant = True
    # a value reached through the loop's own iterator item is per-iteration
    per_iter = find(core, lambda n: n[0] == "some" and peel(n[1])[0] == "call" and peel(n[1])[2] is not None and peel(n[1])[2].nsyn == "std::iter::Iterator::next")
    if per_iter or variant:
        return False, "derived from the loop's own element / a value produced inside the loop"
    return True, "source %s is defined outside the loop" % canon(core)[:120]
