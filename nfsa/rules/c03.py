"""C03 — V5/V7 fixed layouts and protocol names (DESIGN §4.3)."""
import json
import os
import re

from .common import *
from .layout import Layouts, term_s
from ..engine import VERIF

LEVEL = "other"
EXPLANATION = (
    "The wire layout of the V5/V7 header and record parsers is recovered from the MIR of the "
    "nom-derive generated parsers (ordered list of field, width, primitive, transform) and compared "
    "atom by atom with an offset table written from the Cisco export-format document; every primitive "
    "must be a big-endian complete-mode one, transforms identity or Ipv4Addr::from, zero-width atoms "
    "only for the injected version / protocol_type; the injected version equals the dispatch constant; "
    "records are delimited by nom count(record parser, header.count) (all-or-nothing); and each arm of "
    "From<u8> for ProtocolTypes maps n to the variant whose declared discriminant is n, the "
    "discriminant→name map of the enum being checked against an IANA table (all 256 byte values)."
)
ASSUMPTIONS = ["nom number primitives decode big-endian integers of the stated width (nom contract)",
               "tables/cisco_v5.json, cisco_v7.json, iana_protocols.json transcribe the Cisco / IANA documents correctly"]

STRUCTS = {
    5: {"top": "static_versions::v5::V5", "header": "static_versions::v5::Header", "record": "static_versions::v5::FlowSet", "wrapper": V5_PARSE},
    7: {"top": "static_versions::v7::V7", "header": "static_versions::v7::Header", "record": "static_versions::v7::FlowSet", "wrapper": V7_PARSE},
}


def parse_be_path(adt):
    return "<%s as nom_derive::Parse<&'nom [u8]>>::parse_be" % adt


def squeeze(s):
    return re.sub(r"[^a-z0-9]", "", s.lower())


def check_atoms(ctx, lay, an, ver, what, adt, table, injected, ipv4, prefix):
    path = parse_be_path(adt)
    L = lay.parser_layout(path)
    if not ctx.anchor("R3.1", path, lay.prog.body(path)):
        return None
    if not L["ok"]:
        ctx.ob("R3.1", path, "layout", False, "cursor chain not recoverable: %s" % L["why"])
        return None
    steps = L["steps"]
    # wire-bearing steps in order
    wire = []
    for s in steps:
        w = lay.width(s["term"])
        if s["term"][0] == "value":
            nm = s["fields"][0] if s["fields"] else "?"
            ok = nm in injected
            ctx.ob("R3.1", path, "injected:%s" % nm, ok,
                   "zero-width injected field %s = %s%s" % (nm, term_s(s["term"])[:120], "" if ok else " — not an expected injected field"), site=s["site"])
            continue
        wire.append((s, w))
    exp = [r for r in table if not (r[0] == "version" and what == "header")]
    off = prefix
    n = max(len(wire), len(exp))
    for i in range(n):
        if i >= len(wire):
            ctx.ob("R3.1", path, "field:%s" % exp[i][0], False, "Cisco field %s (offset %d, %d bytes) is not parsed" % (exp[i][0], exp[i][1], exp[i][2]))
            continue
        s, w = wire[i]
        fields = s["fields"]
        name = fields[0] if len(fields) == 1 else ("+".join(fields) if fields else "∅")
        if i >= len(exp):
            ctx.ob("R3.1", path, "field:%s" % name, False, "parser reads an extra atom %s (%s bytes) beyond the Cisco layout" % (name, w), site=s["site"])
            continue
        ename, eoff, ew, cis = exp[i]
        t = s["term"]
        prim = t
        transform = "identity"
        if t[0] == "map":
            prim = t[1]
            f = peel(t[2])
            transform = f[1].npath if f[0] == "constfn" else canon(f)[:80]
        okprim = prim[0] == "prim" and prim[3] == "be" and prim[4] in ("complete", "streaming")
        oktr = transform == "identity" or (transform in ("<std::net::Ipv4Addr as std::convert::From<u32>>::from",) and ename in ipv4)
        if ename in ipv4 and transform == "identity":
            oktr = False
        ok = (name == ename) and (w == ew) and (off == eoff) and okprim and oktr
        ctx.ob("R3.1", path, "field:%s" % ename, ok,
               "atom #%d: parsed field=%s width=%s offset=%s primitive=%s transform=%s; Cisco %s: offset %d width %d"
               % (i, name, w, off, term_s(prim)[:60], transform, cis, eoff, ew), site=s["site"])
        if w is not None:
            off += w
    return L


def fixed_count_rule(ctx, prog, an, lay, ver, rid):
    """The V5/V7 packet is its header followed by count(<record>, header.count): all or nothing, so the bytes
    consumed are exactly header + count x record (shared: C03 R3.3, C02 R2.9)."""
    S = STRUCTS[ver]
    top = parse_be_path(S["top"])
    Lt = lay.parser_layout(top)
    if ctx.anchor(rid, top, prog.body(top)) and Lt["ok"]:
        st = Lt["steps"]
        ok0 = len(st) == 2 and st[0]["term"][0] == "struct" and st[0]["term"][2] in (parse_be_path(S["header"]), parse_be_path(S["header"]).replace("parse_be", "parse")) and st[0]["fields"] == ["header"]
        ctx.ob(rid, top, "header-then-records", ok0, "steps: %s" % [(s["fields"], term_s(s["term"])[:80]) for s in st])
        okc = False
        why = "records are not produced by nom::multi::count"
        if len(st) == 2 and st[1]["term"][0] == "count":
            t = st[1]["term"]
            el = t[1]
            n = peel(an.simp(t[2]), widen=True)
            elem_ok = el[0] == "struct" and el[2].startswith("<%s as nom_derive::Parse" % S["record"])
            n_ok = n[0] == "field" and n[2] == "count" and find(n, lambda x: x[0] == "call" and x[2] is not None and x[2].path.startswith("<%s as nom_derive::Parse" % S["header"]))
            okc = bool(elem_ok and n_ok and st[1]["fields"] == ["flowsets"])
            why = "flowsets = count(%s, %s)" % (term_s(el)[:80], canon(n)[:120])
        ctx.ob(rid, top, "records-by-count(header.count)", okc, why, site=st[1]["site"] if len(st) == 2 else "")
    elif Lt and not Lt["ok"]:
        ctx.ob(rid, top, "header-then-records", False, "layout of the top-level parser not recognised: %s" % Lt.get("why", "?"))


def run(ctx, env):
    prog = env.prog("default")
    an = An(prog)
    lay = Layouts(prog, an)
    ctx.rule("R3.1", "wire layout of the V5/V7 header and record parsers = Cisco table: same field, offset, width, order; big-endian nom number primitives (either mode: both fail on short input); identity / Ipv4Addr::from transforms; zero-width atoms only for version and protocol_type")
    ctx.rule("R3.2", "injected version = the dispatch constant of the arm that calls this parser; protocol_type = ProtocolTypes::from(protocol_number)")
    ctx.rule("R3.3", "records come from nom::multi::count(<record>::parse, header.count as usize) — all or nothing; the top-level struct is header then records")
    ctx.rule("R3.4", "From<u8> for ProtocolTypes: arm n -> variant with declared discriminant n; enum discriminant->name = IANA table; unassigned numbers map to the catch-all only")
    natoms = 0
    for ver, S in sorted(STRUCTS.items()):
        tab = json.load(open(os.path.join(VERIF, "tables", "cisco_v%d.json" % ver)))
        inj = tab["injected"]
        Lh = check_atoms(ctx, lay, an, ver, "header", S["header"], tab["header"], inj, tab["ipv4_fields"], 2)
        Lr = check_atoms(ctx, lay, an, ver, "record", S["record"], tab["record"], inj, tab["ipv4_fields"], 0)
        hw = lay.struct_width(parse_be_path(S["header"]))
        rw = lay.struct_width(parse_be_path(S["record"]))
        ctx.ob("R3.1", S["header"], "header-size", hw is not None and hw + 2 == tab["header_size"], "2 (version, dispatcher) + %s = %s, Cisco %d" % (hw, (hw or 0) + 2, tab["header_size"]))
        ctx.ob("R3.1", S["record"], "record-size", rw == tab["record_size"], "record parser consumes %s bytes, Cisco %d" % (rw, tab["record_size"]))
        natoms += len(tab["header"]) - 1 + len(tab["record"])
        # R3.2
        if Lh and Lh["ok"]:
            vs = [s for s in Lh["steps"] if s["fields"] == ["version"]]
            okv = bool(vs) and vs[0]["term"][0] == "value" and const_eval(peel(vs[0]["term"][1])) == {ver}
            ctx.ob("R3.2", S["header"], "version-constant", okv, "version injected as %s, dispatch value %d" % (term_s(vs[0]["term"]) if vs else "?", ver))
        if Lr and Lr["ok"]:
            ps = [s for s in Lr["steps"] if s["fields"] == ["protocol_type"]]
            okp = False
            why = "protocol_type is not an injected value"
            if ps and ps[0]["term"][0] == "value":
                e = peel(ps[0]["term"][1])
                okp = e[0] == "call" and e[2] is not None and (e[2].id.startswith("<protocol::ProtocolTypes as std::convert::From<u8>>::from")
                                                               or (e[2].nsyn == "std::convert::Into::into" and [a for a in (e[2].syn_args or [])] == ["u8", "protocol::ProtocolTypes"]))
                why = "protocol_type = %s" % canon(e)[:200]
                if okp:
                    # its argument must be the parsed protocol_number atom (closure capture of that local)
                    pn = [s for s in Lr["steps"] if s["fields"] == ["protocol_number"]]
                    okp = bool(pn)
                    if pn:
                        fi = Lr["fields"]["protocol_number"]
                        arg = peel(e[3][0])
                        want = canon(peel(fi["expr"]))
                        okp = want in canon(arg) or canon(arg) == want
                        why += "; protocol_number atom = %s" % want[:120]
            ctx.ob("R3.2", S["record"], "protocol_type-from-protocol_number", okp, why)
        fixed_count_rule(ctx, prog, an, lay, ver, "R3.3")
    ctx.floor("R3.1", "crate", "Cisco field atoms compared", natoms, 55)

    # R3.6 the fixed-format parsers are handed the whole unconsumed rest of the buffer (shared with C02 R2.5)
    ctx.rule("R3.6", "the packet loop hands the version parsers the caller's buffer or the previous packet's own remainder - never a window of it - so a complete V5 / V7 packet of any count is decoded whole")
    from . import c02
    body = c02.entry_body(ctx, prog, "R3.6")
    if body is not None:
        pcs = c02.parse_calls(body, c02.parsing_paths(prog))
        ctx.floor("R3.6", body.path, "parsing calls", len(pcs), 1)
        c02.feed_back_rule(ctx, prog, an, body, pcs, rid="R3.6", support=False)

    # R3.7 the V5 / V7 wrappers apply the packet parser to exactly the bytes they are handed
    ctx.rule("R3.7", "V5Parser::parse / V7Parser::parse apply the derived packet parser to their own argument - all of it, from its first byte - and report that parser's remainder and packet unchanged (shared with C02 R2.5): nothing is stripped, skipped or re-framed in front of the fixed layout")
    c02.wrappers_rule(ctx, prog, an, rid="R3.7", rid_err="R3.7", versions=(5, 7))
    # R3.8
    ctx.rule("R3.8", "a packet is handed to the V5 / V7 parser only when its whole 16-bit version word is 5 / 7: the dispatch value is the plain 2-byte big-endian word (shared with C12 R12.5), so the constant the decoders inject as `version` is what the input held")
    from . import c12 as _c12
    _c12.version_word_rule(ctx, prog, an, "R3.8")
    # R3.4
    iana = json.load(open(os.path.join(VERIF, "tables", "iana_protocols.json")))
    adt = prog.adts.get("protocol::ProtocolTypes")
    fb = prog.body("<protocol::ProtocolTypes as std::convert::From<u8>>::from")
    if ctx.anchor("R3.4", "protocol::ProtocolTypes", adt) and ctx.anchor("R3.4", "<ProtocolTypes as From<u8>>::from", fb):
        discr = {v["name"]: int(v["discr"]) for v in adt["variants"]}
        byd = {}
        for nme, d in discr.items():
            byd.setdefault(d, []).append(nme)
        # enum names vs IANA
        for n in list(range(0, 145)) + [255]:
            want = iana["names"].get(str(n))
            have = byd.get(n, [])
            alias = iana["aliases"].get(str(n))
            ok = len(have) == 1 and (squeeze(have[0]) == squeeze(want) or have[0] == alias)
            ctx.ob("R3.4", "protocol::ProtocolTypes", "enum-name:%d" % n, ok,
                   "discriminant %d is named %s; IANA keyword %s%s" % (n, have, want, (" (reviewed alias %s)" % alias) if alias else ""))
        st = switch_table(an, fb, lambda e: e == ("arg", 1))
        if st is None:
            ctx.ob("R3.4", fb.path, "switch-table", False, "From<u8> is not a single switch on its argument (unrecognised shape)")
        else:
            blk, table, oth, _ = st
            catch = set(iana["catch_all"])
            for n in range(256):
                arm = table.get(n, oth)
                vname = arm[2] if arm and arm[0] == "variant" else None
                if str(n) in iana["names"]:
                    ok = vname is not None and discr.get(vname) == n
                    why = "byte %d -> %s (discriminant %s); IANA %s" % (n, vname, discr.get(vname), iana["names"][str(n)])
                else:
                    ok = vname in catch
                    why = "byte %d (not modelled by the enum) -> %s; must be a catch-all %s" % (n, vname, sorted(catch))
                ctx.ob("R3.4", fb.path, "arm:%d" % n, ok, why, site=fb.line(arm[-1]) if arm else "")
        # sibling: From<ProtocolTypes> for u8 inverse on assigned numbers (used by re-export)
        tb = prog.body("<u8 as std::convert::From<protocol::ProtocolTypes>>::from")
        if tb is not None:
            st2 = switch_table(an, tb, lambda e: e[0] == "discr")
            if st2:
                _, t2, o2, _ = st2
                vi = {v["vi"]: v["name"] for v in adt["variants"]}
                for i, nme in sorted(vi.items()):
                    arm = t2.get(i, o2)
                    val = arm[1] if arm and arm[0] == "const" else None
                    d = discr[nme]
                    ok = (val == d) if nme not in catch else (val is not None)
                    ctx.ob("R3.4", tb.path, "to-u8:%s" % nme, ok, "%s -> %s (declared discriminant %d)" % (nme, val, d))
