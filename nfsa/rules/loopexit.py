"""Classification of the ways a repetition (a CFG loop around a decode call, or a fold closure that makes one
decode call per invocation) can finish with a success value *without* decoding what is left: every such branch must
be guarded by a condition of an approved kind (the input is empty, the announced count is reached, the iterator is
exhausted, what is left is shorter than any record can be, nothing was consumed, the decode call itself failed).
A guard of any other kind (`rest.len() < 4 && rest.iter().all(|b| *b == 0)`: "looks like padding") turns bytes that
are a truncated or genuine element into silently dropped padding."""
from .common import *


def _header(body, L):
    hs = [x for x in L if any(p not in L for p in body.preds(x))]
    return min(hs) if hs else (min(L) if L else 0)


def _reach(body, start, removed=frozenset(), within=None):
    seen = set()
    st = [start]
    while st:
        x = st.pop()
        if x in seen or (within is not None and x not in within):
            continue
        seen.add(x)
        for s in body.succs(x):
            if (x, s) in removed:
                continue
            st.append(s)
    return seen


def classify_cond(an, body, blk, take_true):
    """Kind of the condition under which the switch at blk takes the given edge."""
    t = body.term(blk)
    e0 = an.op(body, t["op"])
    e, neg = strip_not(e0)
    return kind_of_bool_expr(peel(e), take_true != neg)


def kind_of_bool_expr(e, truth):

    def is_len(x):
        x = peel(x, widen=True)
        return x[0] == "call" and x[2] is not None and (x[2].npath.endswith("<impl [T]>::len") or x[2].npath.endswith("Vec::<T>::len") or x[2].npath.endswith("::len"))

    if e[0] == "discr":
        inner = peel(e[1])
        if inner[0] == "call" and inner[2] is not None and inner[2].nsyn == "std::iter::Iterator::next":
            return "iter-exhausted"
        if inner[0] == "call" and inner[2] is not None and inner[2].nsyn in ("std::ops::Try::branch",):
            return "result-err"
        if inner[0] == "call" and inner[2] is not None and (inner[2].local or inner[2].nsyn.startswith("std::ops::Fn")):
            return "result-err"
        return "discr:%s" % canon(inner)[:60]
    if e[0] == "call" and e[2] is not None and e[2].npath.endswith("::is_empty"):
        return "empty" if truth else "nonempty"
    if e[0] == "binop" and e[1] in ("Eq", "Ne", "Lt", "Le", "Gt", "Ge"):
        a, b = peel(e[2], widen=True), peel(e[3], widen=True)
        ca, cb = const_eval(a), const_eval(b)
        if e[1] in ("Eq", "Ne") and is_len(a) and is_len(b):
            return "len-vs-len"          # `rest.len() == input.len()`: nothing was consumed
        if e[1] in ("Eq", "Ne"):
            z = (cb == {0} and a) or (ca == {0} and b)
            if z:
                if is_len(z):
                    return "empty" if (e[1] == "Eq") == truth else "nonempty"
                return "zero-progress" if (e[1] == "Eq") == truth else "progress"
            return "eq:%s" % canon(e)[:60]
        if is_len(a) and is_len(b):
            return "len-vs-len"
        if is_len(a) or is_len(b):
            ln = a if is_len(a) else b
            # the length of the collection being filled compared with the announced count, not of the input
            if (ln[2].npath.endswith("Vec::<T>::len") or ln[2].npath in ("std::vec::Vec::len", "alloc::vec::Vec::len")) and ln[2].args and str(ln[2].args[0]) != "u8":
                return "count-reached"
            other = b if is_len(a) else a
            if const_eval(other) is not None:
                return "len-vs-const:%s" % sorted(const_eval(other))[:1]
            return "len-vs-expr"
        return "cmp:%s" % canon(e)[:60]
    if e[0] == "call" and e[2] is not None:
        return "call:%s" % e[2].npath.rsplit("::", 1)[-1]
    if e[0] == "phi":
        return "bool-phi"
    return "other:%s" % canon(e)[:60]


def _bool_sources(an, body, op, want, depth=0):
    """Branch edges that lead straight (through goto-only blocks) to an assignment `<op local> = const <want>`."""
    if op.get("k") not in ("copy", "move") or op["place"].get("p") or depth > 2:
        return None
    r = op["place"]["l"]
    out = []
    sl = an.slicer(body)
    for d in sl.defs.get(r, []):
        if d[0] != "assign":
            continue
        rv = d[3]
        if rv["k"] == "use" and rv["op"].get("k") == "const" and "val" in rv["op"]:
            if bool(rv["op"]["val"]) != bool(want):
                continue
            # walk back through single-predecessor goto chains to the deciding switch
            blk = d[1]
            guard = 0
            while guard < 6:
                guard += 1
                ps = [p for p in body.preds(blk)]
                if len(ps) != 1:
                    break
                pt = body.term(ps[0])
                if pt["k"] == "switch":
                    bed = bool_edges(pt, False)
                    if bed:
                        out.append((ps[0], blk, classify_cond(an, body, ps[0], blk == bed[0])))
                    else:
                        out.append((ps[0], blk, classify_cond(an, body, ps[0], True)))
                    blk = None
                    break
                blk = ps[0]
            if blk is not None:
                return None
        elif rv["k"] == "use" and rv["op"].get("k") in ("copy", "move"):
            sub = _bool_sources(an, body, rv["op"], want, depth + 1)
            if sub is None:
                return None
            out += sub
        else:
            # the boolean is the direct result of an expression on this path (`x = a < b`, `x = iter.all(..)`)
            ex, ng = strip_not(an.simp(sl.rvalue(rv, d[1])))
            out.append((d[1], d[1], kind_of_bool_expr(peel(ex), bool(want) != ng)))
    for d in sl.defs.get(r, []):
        if d[0] == "call":
            ex, ng = strip_not(an.simp(sl.call_expr(d[1], d[2])))
            out.append((d[1], d[1], kind_of_bool_expr(peel(ex), bool(want) != ng)))
    return out


def finishing_edges(an, body, dblk):
    """Edges by which the repetition around the decode call in block dblk finishes towards a success value without
    (further) decoding: [(switch block, successor, kind, when)] with when in {"instead-of-decoding", "after-decoding"}."""
    loops = [set(c) for c in body.sccs() if dblk in c]
    L = min(loops, key=len) if loops else None
    live = set(body.live_blocks())
    if L is not None:
        h = _header(body, L)
        removed = frozenset((x, h) for x in L)
    else:
        h = 0
        removed = frozenset()
    okb = set(b for (b, i, s) in block_aggs(body) if s["rv"]["variant"] == "Ok" and s["rv"]["adt"].endswith("result::Result"))
    # blocks from which a success value can still be produced without re-entering the loop
    to_ok = set()
    for x in live:
        r = _reach(body, x, removed)
        if r & okb:
            to_ok.add(x)
    reach_d = set(x for x in live if dblk in _reach(body, x, removed))
    after_d = _reach(body, dblk, removed)
    out = []
    for u in sorted(live):
        t = body.term(u)
        if t["k"] != "switch":
            continue
        be = None
        e0 = an.op(body, t["op"])
        e, neg = strip_not(e0)
        for v in body.succs(u):
            if v not in to_ok and not (L is not None and v not in L):
                continue
            take_true = None
            bed = bool_edges(t, False)
            if bed:
                take_true = (v == bed[0])
            when = None
            if u in reach_d and v not in reach_d and v in to_ok and (L is None or u in L):
                when = "instead-of-decoding"
            elif L is not None and u in L and u in after_d and u != dblk and v not in L and v in to_ok:
                when = "after-decoding"
            if when is None:
                continue
            if take_true is None:
                kind = classify_cond(an, body, u, True)
                if peel(e)[0] == "discr":
                    kind = classify_cond(an, body, u, True)
                else:
                    kind = "multiway:" + kind
            else:
                kind = classify_cond(an, body, u, take_true)
            if kind == "bool-phi" and take_true is not None:
                # the condition is a boolean assembled on several paths (`a || (b && c)`, or a pure predicate helper
                # that was inlined): classify instead the branch edges that set it to the finishing value
                inner = _bool_sources(an, body, t["op"], take_true != neg)
                if inner:
                    for (u2, v2, k2) in inner:
                        out.append((u2, v2, k2, when))
                    continue
            out.append((u, v, kind, when))
    return out


def flowset_repetition_rule(ctx, prog, an, rule, label="v9"):
    """The V9 packet's flowset repetition may finish with a success value without decoding what is left only because
    the input is empty, the announced count is reached or its counting iterator is exhausted."""
    target = "variable_versions::v9::FlowSet::parse"
    sites = []
    for p, b0 in prog.bodies.items():
        if b0.derived or p.startswith(target) or "parse_le" in p:
            continue
        if any(c is not None and c.local and c.path == target for _, _, c in b0.calls()):
            sites.append(p)
    ctx.floor(rule, "v9", "bodies that apply v9::FlowSet::parse", len(sites), 1)
    allowed = ("empty", "count-reached", "iter-exhausted")
    import re as _re2
    for owner in sorted(set(_re2.sub(r"(::\{closure#\d+\})+$", "", p) for p in sites)):
        cursor_integrity(ctx, prog, an, rule, owner, label)
    for p in sorted(sites):
        b = classifier_inlined(prog, p) or prog.bodies[p]
        ds = [blk for blk, t, c in b.calls() if c is not None and c.local and c.path == target]
        for d in ds:
            edges = finishing_edges(an, b, d)
            bad = [(u, v, k, w) for (u, v, k, w) in edges if k not in allowed]
            _count_bound(ctx, prog, an, rule, p, b, d, label)
            ctx.ob(rule, p, "flowset-repetition-ends:%s" % label, not bad,
                   ("the flowset repetition can finish with Ok, leaving input undecoded, under a condition that is not `input empty / count reached`: %s"
                    % [(k, w, b.line(u)) for (u, v, k, w) in bad]) if bad else
                   "ways to finish without decoding the rest: %s" % sorted(set(k for (_, _, k, _) in edges)), site=b.line(d))


def cursor_integrity(ctx, prog, an, rule, p, label):
    """Between two flowsets nothing but the flowset parser moves the cursor: the remainder the repetition hands to
    the next flowset and finally returns is, link by link, the remainder a parser application returned - never a
    sub-slice cut by hand (`&rest[n..]`, a "skip padding" helper), which would drop bytes no header accounts for."""
    import re as _re
    from . import consume
    from .layout import Layouts
    lay = Layouts(prog, an)
    owner = _re.sub(r"(::\{closure#\d+\})+$", "", p)
    bodies = [prog.bodies[q] for q in sorted(prog.bodies) if q == owner or q.startswith(owner + "::{closure")]
    bad = []
    n = 0
    for b in bodies:
        ty = b.local_ty(0)
        if "[u8]" not in ty.split(",")[0]:
            continue
        members, _ = consume._ok_members(an, b)
        for c, _v in members:
            n += 1
            for st in consume.chain_steps(an, lay, an.expand(c)):
                if st[0] != "?":
                    continue
                x = peel(st[1])
                while x[0] in ("ref", "deref"):
                    x = peel(x[1])
                if x[0] == "tfield" and x[1][0] in ("ok", "some") and peel(x[1][1])[0] == "cycle":
                    continue          # the loop-carried remainder of the parser call itself
                if x[0] in ("ok", "some") and peel(x[1])[0] == "cycle":
                    continue          # ... of a helper that returns only the remainder
                if x[0] in ("cycle", "mutlocal"):
                    continue
                bad.append((b.path, canon(x)[:140]))
    ctx.ob(rule, owner, "cursor-is-the-parser-remainder:%s" % label, not bad,
           ("the cursor of the repetition is re-cut by hand in %s: %s - bytes skipped this way are neither decoded nor kept as padding" % (bad[0][0], bad[0][1])) if bad
           else "%d returned cursor(s): every link is the remainder of a parser application" % n, site=site(prog.bodies[owner].span) if owner in prog.bodies else "")


def _plain_count(e):
    """The announced count itself: a parameter or a `count` field, through widening conversions only."""
    e = peel(e, widen=True)
    while e[0] == "call" and e[2] is not None and e[2].nsyn in ("std::convert::From::from", "std::convert::Into::into") and len(e[3]) == 1:
        e = peel(e[3][0], widen=True)
    if e[0] == "arg":
        return ("arg", e[1])
    if e[0] == "field" and e[2] in ("count", "record_count", "flowset_count"):
        return ("field", e[2])
    return None


def _resolve_capture(prog, an, cb, e):
    """A value a closure captured (`*(*env).i`) seen from where the closure was created."""
    import re as _re
    x = peel(e, widen=True)
    while x[0] in ("deref", "ref"):
        x = peel(x[1], widen=True)
    if not (x[0] == "tfield" and cb.kind == "Closure"):
        return e
    base = peel(x[1])
    while base[0] in ("deref", "ref"):
        base = peel(base[1])
    if base != ("arg", 1):
        return e
    parent = prog.bodies.get(_re.sub(r"::\{closure#\d+\}$", "", cb.path))
    if parent is None:
        return e
    for blk, i, st in parent.stmts():
        if st["k"] == "assign" and st["rv"]["k"] == "aggregate" and st["rv"].get("agg") == "closure" and st["rv"].get("closure") == cb.path and len(st["rv"]["ops"]) > x[2]:
            v = an.op(parent, st["rv"]["ops"][x[2]])
            v = peel(v, widen=True)
            while v[0] in ("deref", "ref"):
                v = peel(v[1], widen=True)
            return v
    return e


def _count_bound(ctx, prog, an, rule, p, b, dblk, label):
    """What bounds the repetition is the count the header announced, unmodified: `0..count` (or `len() < count`) where
    count is a parameter that every caller binds to a `count` field, or that field itself."""
    import re as _re
    owner_p = _re.sub(r"(::\{closure#\d+\})+$", "", p)
    owner = b if owner_p == p else (classifier_inlined(prog, owner_p) or prog.bodies.get(owner_p))
    if owner is None:
        return
    sl = an.slicer(owner)
    bounds = []
    for blk, i, st in owner.stmts():
        if st["k"] == "assign" and st["rv"]["k"] == "aggregate" and st["rv"].get("agg") == "adt" and str(st["rv"].get("adt", "")).endswith("ops::Range") and len(st["rv"].get("ops", [])) == 2:
            lo, hi = an.op(owner, st["rv"]["ops"][0]), an.op(owner, st["rv"]["ops"][1])
            bounds.append((blk, "0..n", const_eval(peel(lo, widen=True)) == {0}, hi))
    if owner is b:
        for (u, v, k, w) in finishing_edges(an, b, dblk):
            if k == "count-reached":
                e, _ = strip_not(an.op(b, b.term(u)["op"]))
                e = peel(e)
                if e[0] == "binop":
                    for side in (e[2], e[3]):
                        x = peel(side, widen=True)
                        if not (x[0] == "call" and x[2] is not None and x[2].npath.endswith("::len")):
                            bounds.append((u, "len() vs n", True, side))
    for blk, how, lo_ok, hi in bounds:
        pc = _plain_count(hi)
        ok = lo_ok and pc is not None
        why = "the repetition is bounded by %s = %s" % (how, canon(peel(hi, widen=True))[:160])
        if ok and pc[0] == "arg":
            # every caller binds that parameter to the announced count
            k = pc[1]
            binds = []
            for cp, cb in prog.bodies.items():
                if cb.derived and False:
                    continue
                for cblk, t, c in cb.calls():
                    if c is not None and c.local and c.path == owner_p and len(t["args"]) >= k:
                        binds.append((cp, _plain_count(_resolve_capture(prog, an, cb, an.op(cb, t["args"][k - 1])))))
            bad = [cp for cp, x in binds if x is None or x[0] != "field"]
            ok = bool(binds) and not bad
            why += "; parameter %d is bound to the header's count by %d caller(s)%s" % (k, len(binds), (", but not by %s" % bad) if bad else "")
        elif not ok:
            why += " - not the announced count itself (a parameter or `count` field through widening conversions only)"
        ctx.ob(rule, owner_p, "repetition-bound-is-the-announced-count:%s" % label, ok, why, site=owner.line(blk))
