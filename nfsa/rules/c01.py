"""C01 — no panic, abort, stack overflow or hang on untrusted bytes (DESIGN §4.1)."""
import json
import os
import re

from .common import *
from ..engine import VERIF

LEVEL = "other"
EXPLANATION = (
    "Panic-freedom of the crate's own code, decided over every crate-local MIR body reachable in the "
    "instance call graph from the parse, re-export, common-view and serialize roots: every MIR Assert "
    "terminator is discharged by a constant-operand argument; every call to an external API that is "
    "documented (rustdoc '# Panics', read from the dependency metadata on every run) or tabled "
    "(tables/partial_api.json) as partial is discharged by class (capacity-only, bounded index count, "
    "total Display, non-zero divisor, ranged constructor) or reported; the instance call graph, walked "
    "through nom/nom-derive/serde generic code, has no cycle containing crate code; every CFG loop is "
    "driven by a finite std iterator or carries a recognised strict-progress guard; U24/I24 values are "
    "only built from 3-byte reads; the crate has no unsafe code. Not decided: panics inside dependency "
    "code under its documented contracts, allocation failure (C15), stack depth of acyclic call chains "
    "(reported, not bounded)."
)
ASSUMPTIONS = [
    "external functions without a '# Panics' section and not listed in tables/partial_api.json do not panic on any argument (stated unsoundness of R1.2)",
    "nom many0/many1 return Err when the element parser consumes nothing; count(n) runs n times at most (nom contracts)",
    "nom parsers return a suffix of their input (used by the progress argument of R1.4)",
]

TABLE = json.load(open(os.path.join(VERIF, "tables", "partial_api.json")))
PARTIAL = [(re.compile(e["re"]), e["class"], e["why"]) for e in TABLE["entries"]]

FINITE_ITER_CTORS = {
    "std::slice::Iter", "std::slice::IterMut", "std::vec::IntoIter", "std::collections::btree_map::Iter",
    "std::collections::btree_map::IterMut", "std::collections::btree_map::Values", "std::collections::btree_map::Keys",
    "std::collections::btree_map::IntoIter", "std::collections::btree_map::ValuesMut", "std::collections::btree_map::IntoValues",
    "std::collections::btree_map::IntoKeys", "std::collections::btree_map::Range",
    "std::collections::hash_map::Iter", "std::collections::hash_map::Values", "std::collections::hash_map::Keys",
    "std::collections::hash_map::IntoIter", "std::collections::hash_set::Iter", "std::collections::hash_set::IntoIter",
    "std::collections::btree_set::Iter", "std::collections::btree_set::IntoIter",
    "std::ops::Range", "std::ops::RangeInclusive", "std::option::IntoIter", "std::option::Iter", "std::result::IntoIter",
    "std::array::IntoIter", "std::str::Chars", "std::str::Bytes", "std::str::CharIndices", "std::slice::Chunks",
    "std::slice::ChunksExact", "std::slice::Windows", "std::iter::Once", "std::iter::Empty",
    "std::iter::Enumerate", "std::iter::Map", "std::iter::Cloned", "std::iter::Copied", "std::iter::Zip", "std::iter::Take",
    "std::iter::Skip", "std::iter::Rev", "std::iter::Chain", "std::iter::Filter", "std::iter::FilterMap", "std::iter::FlatMap",
    "std::iter::Flatten", "std::iter::Peekable", "std::iter::TakeWhile", "std::iter::SkipWhile", "std::iter::StepBy",
    "std::iter::Inspect", "std::iter::Fuse", "std::iter::MapWhile", "std::iter::Scan",
}
INFINITE_ITER_CTORS = {"std::iter::Repeat", "std::iter::RepeatWith", "std::iter::Cycle", "std::ops::RangeFrom",
                       "std::iter::Successors", "std::iter::FromFn", "std::iter::RepeatN"}

ITER_CONSUMERS = ("std::iter::Iterator::fold", "std::iter::Iterator::try_fold", "std::iter::Iterator::any", "std::iter::Iterator::all",
                  "std::iter::Iterator::for_each", "std::iter::Iterator::collect", "std::iter::Iterator::count", "std::iter::Iterator::last",
                  "std::iter::Iterator::find", "std::iter::Iterator::position", "std::iter::Iterator::max", "std::iter::Iterator::min",
                  "std::iter::Iterator::try_for_each", "std::iter::Iterator::find_map", "std::iter::Iterator::nth",
                  "std::iter::Extend::extend", "std::iter::FromIterator::from_iter")


def iter_type_finite(ty):
    """All std iterator constructors named in a type string are finite ones."""
    names = re.findall(r"((?:std|core|alloc)::[A-Za-z0-9_:]+)", ty)
    seen_iter = False
    for n in names:
        n = n.replace("core::", "std::").replace("alloc::", "std::").rstrip(":")
        if n in INFINITE_ITER_CTORS:
            return False, "infinite iterator source %s" % n
        if n in FINITE_ITER_CTORS:
            seen_iter = True
    return seen_iter, "no recognised finite std iterator in `%s`" % ty[:160]


def partial_class(c, docs):
    """-> (class, why) or None for a call target."""
    for nm in (c.npath, c.nsyn):
        if nm in TABLE["capacity_only"]:
            return ("capacity", "panics only on capacity overflow (allocation size) — out of C01 by its wording, see C15")
        if nm in TABLE["index_count"]:
            return ("index-count", "index counter overflow only after usize::MAX elements; bounded by a slice length")
    for nm in (c.npath, c.nsyn):
        for rx, cls, why in PARTIAL:
            if rx.search(nm):
                if cls == "none":
                    return None
                return (cls, why)
    for p in (c.path, c.syn_path):
        d = docs.get(p)
        if d and d.get("panics"):
            return ("documented", "rustdoc of %s has a '# Panics' section" % p)
    return None


def const_of(e):
    v = const_eval(e)
    if v is not None and len(v) == 1 and not isinstance(next(iter(v)), tuple):
        return next(iter(v))
    e = peel(e, widen=True)
    if e[0] == "const":
        return e[1]
    if e[0] == "cast" and peel(e[2])[0] == "const":
        return peel(e[2])[1]
    return None


INT_RANGE = {"u8": (0, 2**8 - 1), "u16": (0, 2**16 - 1), "u32": (0, 2**32 - 1), "u64": (0, 2**64 - 1), "u128": (0, 2**128 - 1),
             "usize": (0, 2**64 - 1), "i8": (-2**7, 2**7 - 1), "i16": (-2**15, 2**15 - 1), "i32": (-2**31, 2**31 - 1),
             "i64": (-2**63, 2**63 - 1), "i128": (-2**127, 2**127 - 1), "isize": (-2**63, 2**63 - 1)}


PRIM_SIZE = {"u8": 1, "i8": 1, "bool": 1, "u16": 2, "i16": 2, "u32": 4, "i32": 4, "f32": 4, "char": 4, "u64": 8, "i64": 8, "f64": 8, "usize": 8, "isize": 8,
             "u128": 16, "i128": 16, "std::net::Ipv4Addr": 4, "std::net::Ipv6Addr": 16, "std::time::Duration": 12, "std::string::String": 24}


def min_size_of(prog, ty, depth=0):
    """Lower bound (bytes) of size_of::<ty>() — padding and niches only make real sizes larger or equal."""
    from .c16 import parse_ty
    ty = ty.strip()
    if depth > 6:
        return 1
    if ty in PRIM_SIZE:
        return PRIM_SIZE[ty]
    if ty.startswith("&") or ty.startswith("*") or ty.startswith("std::boxed::Box<"):
        return 8
    if ty.startswith("std::vec::Vec<") or ty.startswith("std::collections::"):
        return 24
    t = parse_ty(ty)
    if t[0] == "tuple":
        return max(1, sum(min_size_of(prog, _ty_s(x), depth + 1) for x in t[1]))
    if t[0].startswith("std::option::Option") and t[1]:
        return min_size_of(prog, _ty_s(t[1][0]), depth + 1)
    adt = prog.adts.get(t[0])
    if adt:
        sizes = []
        for v in adt["variants"]:
            sizes.append(sum(min_size_of(prog, f["ty"], depth + 1) for f in v["fields"]))
        return max(1, max(sizes) if sizes else 1)
    return 1


def _ty_s(t):
    if t[0] == "tuple":
        return "(%s)" % ", ".join(_ty_s(x) for x in t[1])
    if t[1]:
        return "%s<%s>" % (t[0], ", ".join(_ty_s(x) for x in t[1]))
    return t[0]


def upper_bound(an, prog, body, e, depth=0):
    """Static upper bound of an unsigned expression built from constants and lengths of existing collections."""
    e = peel(e, widen=True)
    if depth > 12:
        return None
    v = const_eval(e)
    if v is not None and all(not isinstance(x, tuple) for x in v):
        return max(v)
    if e[0] == "call" and e[2] is not None and e[2].is_(*LEN, "std::vec::Vec::len", "alloc::vec::Vec::len"):
        # element type from the callee's generic arguments / receiver
        ety = None
        for a in (e[2].args or []):
            if not a.startswith("'") and a not in ("std::alloc::Global",):
                ety = a
                break
        sz = min_size_of(prog, ety) if ety else 1
        return (2 ** 63 - 1) // max(1, sz)
    if e[0] == "binop":
        a = upper_bound(an, prog, body, e[2], depth + 1)
        b = upper_bound(an, prog, body, e[3], depth + 1)
        if a is None or b is None:
            return None
        op = e[1].replace("WithOverflow", "")
        if op == "Add":
            return a + b
        if op == "Mul":
            return a * b
        if op in ("Sub", "Div", "Rem", "Shr", "BitAnd"):
            return a
        return None
    if e[0] == "tfield" and e[2] == 0:
        return upper_bound(an, prog, body, e[1], depth + 1)
    if e[0] == "phi":
        bs = [upper_bound(an, prog, body, x, depth + 1) for x in e[1]]
        return None if any(x is None for x in bs) else max(bs)
    return None


def discharge_assert(an, body, t, blk=None):
    kind = t["kind"]
    cond = an.op(body, t["cond"])
    vals = const_eval(cond)
    want = 1 if t["expected"] else 0
    if vals is not None and all((not isinstance(v, tuple)) and v == want for v in vals):
        return True, "condition is constant: %s evaluates to %s on constant operands (%s)" % (kind, bool(want), canon(peel(cond))[:100])
    if kind in ("DivisionByZero", "RemainderByZero") and blk is not None:
        # guard dominance: `match d { 0 => .., n => x / n }` / `if d != 0 { x / d }`
        c = peel(cond)
        if c[0] == "binop" and c[1] == "Eq" and const_eval(c[3]) == {0}:
            dv = canon(peel(c[2], widen=True))
            for sb in sorted(body.live_blocks()):
                st = body.term(sb)
                if st["k"] != "switch" or sb == blk:
                    continue
                se = peel(an.op(body, st["op"]), widen=True)
                if canon(se) == dv:
                    zero = [tb for v, tb in st["targets"] if v == 0]
                    if zero and st["otherwise"] != zero[0] and body.edge_dominates((sb, st["otherwise"]), blk):
                        return True, "divisor %s is non-zero here: the division is only reachable through the non-zero edge of the match at %s" % (dv[:80], body.line(sb))
                    nz = [tb for v, tb in st["targets"] if v != 0 and body.edge_dominates((sb, tb), blk)]
                    if nz:
                        return True, "divisor equals a non-zero case constant here (%s)" % body.line(sb)
                ne, neg = strip_not(an.op(body, st["op"]))
                if ne[0] == "binop" and ne[1] in ("Eq", "Ne", "Gt", "Lt") and canon(peel(ne[2], widen=True)) == dv and const_eval(ne[3]) == {0}:
                    be = bool_edges(st, neg)
                    if be:
                        tt, ff = be
                        good = ff if ne[1] == "Eq" else tt
                        if ne[1] in ("Eq", "Ne", "Gt") and body.edge_dominates((sb, good), blk):
                            return True, "divisor %s is non-zero here: guarded by the comparison at %s" % (dv[:80], body.line(sb))
    if kind in ("Overflow:Add", "Overflow:Mul") and len(t["ops"]) == 2 and getattr(an, "prog", None) is not None:
        a = upper_bound(an, an.prog, body, an.op(body, t["ops"][0]))
        b2 = upper_bound(an, an.prog, body, an.op(body, t["ops"][1]))
        if a is not None and b2 is not None:
            r = a + b2 if kind.endswith("Add") else a * b2
            if r <= 2 ** 64 - 1:
                return True, "bounded: operands are at most %d and %d (a Vec<T> holds at most isize::MAX / size_of::<T>() elements), so the %s cannot overflow usize" % (a, b2, kind.split(":")[1])
    if kind == "Overflow:Sub" and blk is not None and len(t["ops"]) == 2:
        # guarded subtraction: `if a > b { a - b }` / `if a < b { .. } else { a - b }`
        ca_, cb_ = canon(peel(an.op(body, t["ops"][0]), widen=True)), canon(peel(an.op(body, t["ops"][1]), widen=True))
        for sb in sorted(body.live_blocks()):
            st = body.term(sb)
            if st["k"] != "switch" or sb == blk:
                continue
            ne, neg = strip_not(an.op(body, st["op"]))
            if ne[0] != "binop" or ne[1] not in ("Gt", "Ge", "Lt", "Le"):
                continue
            x, y = canon(peel(ne[2], widen=True)), canon(peel(ne[3], widen=True))
            be = bool_edges(st, neg)
            if not be:
                continue
            tt, ff = be
            good = None
            if (x, y) == (ca_, cb_) and ne[1] in ("Gt", "Ge"):
                good = tt
            elif (x, y) == (ca_, cb_) and ne[1] in ("Lt",):
                good = ff
            elif (x, y) == (cb_, ca_) and ne[1] in ("Lt", "Le"):
                good = tt
            elif (x, y) == (cb_, ca_) and ne[1] in ("Gt",):
                good = ff
            if good is not None and body.edge_dominates((sb, good), blk):
                return True, "subtraction guarded by the comparison at %s (minuend >= subtrahend on this path)" % body.line(sb)
        # `N - s.len()` on the None edge of `s.split_first_chunk::<N>()` / `s.first_chunk::<N>()`: None means len < N
        for sb in sorted(body.live_blocks()):
            st = body.term(sb)
            if st["k"] != "switch":
                continue
            se = peel(an.op(body, st["op"]))
            if se[0] != "discr":
                continue
            call = peel(se[1])
            if call[0] == "call" and call[2] is not None and re.search(r"<impl \[T\]>::(split_first_chunk|first_chunk|split_last_chunk|last_chunk)$", call[2].npath) and len(call[2].args or []) >= 2:
                nconst = "const(%s)" % call[2].args[1]
                slice_len = "core::slice::<impl [%s]>::len(%s)" % (call[2].args[0], canon(peel(call[3][0])))
                none_t = [tb for v, tb in st["targets"] if v == 0] or [st["otherwise"]]
                if ca_.split("@")[0] in (nconst, str(call[2].args[1]) + "_usize") and cb_.split("@")[0].startswith("core::slice::<impl [") and canon(peel(an.op(body, t["ops"][1]), widen=True)).split("(", 1)[1].rsplit(")", 1)[0].lstrip("&*") == canon(peel(call[3][0])).lstrip("&*") \
                        and body.edge_dominates((sb, none_t[0]), blk):
                    return True, "subtraction on the None edge of %s::<%s>() at %s: the slice is shorter than %s there" % (call[2].npath.rsplit("::", 1)[1], call[2].args[1], body.line(sb), call[2].args[1])
        # `s.len() - s.iter().filter(p).count()`: an iterator chain that can only drop or keep elements of a traversal of
        # `s` counts at most `s.len()` of them
        def _strip(x):
            x = peel(x, widen=True)
            while x[0] in ("ref", "deref"):
                x = peel(x[1], widen=True)
            return x
        mi, su = _strip(an.op(body, t["ops"][0])), _strip(an.op(body, t["ops"][1]))
        if mi[0] == "call" and mi[2] is not None and re.search(r"(<impl \[T\]>|Vec(<.*>)?)::len$", mi[2].npath) and su[0] == "call" and su[2] is not None and su[2].nsyn == "std::iter::Iterator::count":
            cur = _strip(su[3][0])
            NEVER_LONGER = re.compile(r"^std::iter::Iterator::(filter|filter_map|take|skip|take_while|skip_while|map_while|step_by|map|enumerate|rev|copied|cloned|inspect|peekable|by_ref|fuse)$")
            for _ in range(12):
                if cur[0] == "mutlocal":
                    cur = _strip(cur[2])
                    continue
                if cur[0] == "call" and cur[2] is not None and NEVER_LONGER.match(cur[2].nsyn or "") and cur[3]:
                    cur = _strip(cur[3][0])
                    continue
                break
            if cur[0] == "call" and cur[2] is not None and (re.search(r"<impl \[T\]>::iter$", cur[2].npath) or cur[2].nsyn == "std::iter::IntoIterator::into_iter") and cur[3] \
                    and canon(_strip(cur[3][0])) == canon(_strip(mi[3][0])):
                return True, "the subtrahend counts elements of a traversal of the very collection whose len() is the minuend, through adaptors that never add elements"
        # `a.len() - b.len()` where b is a tail of a (nfsa/suffix.py: remainders of parsers are tails of their input)
        if getattr(an, "prog", None) is not None:
            if not hasattr(an, "_suffix"):
                from ..suffix import Suffix
                an._suffix = Suffix(an.prog)
            via = an._suffix.sub_is_safe(body, blk, t["ops"][0], t["ops"][1])
            if via:
                return True, "minuend is the length of a slice the subtrahend's slice is a tail of (parser remainders are tails of their input; related through %s)" % ", ".join("_%s" % (v,) if not isinstance(v, tuple) else "param %d" % v[1] for v in via[:3])
    ops = [canon(peel(an.op(body, o)))[:120] for o in t["ops"]]
    return False, "%s not discharged: operand(s) %s are not compile-time constants in a safe range" % (kind, ops)


def run(ctx, env):
    prog = env.prog("default")
    an = An(prog)
    docs = prog.facts["extern_docs"]
    ctx.rule("R1.1", "every MIR Assert terminator (overflow, division/remainder by zero, bounds check, negation overflow, pointer checks) in a reachable crate-local body is discharged by constant operands")
    ctx.rule("R1.2", "every call from a reachable crate-local body to a partial external API (rustdoc '# Panics' or tables/partial_api.json) is discharged by class: capacity-only, index-count, total Display, non-zero divisor, ranged constructor")
    ctx.rule("R1.3", "no strongly connected component of the instance call graph (walked through dependency MIR) contains a crate-local function; SCCs wholly inside core/alloc/std are listed and accepted")
    ctx.rule("R1.4", "every CFG loop in a reachable crate-local body is driven by Iterator::next on a finite std iterator (every cycle passes through that call), or carries a recognised strict-progress guard")
    ctx.rule("R1.5", "iterator consumers (fold/try_fold/any/collect/extend…) run over finite std iterators; IPFIX templates are cached only after is_valid() (per-record progress, shared with C06 R6.2)")
    ctx.rule("R1.6", "DataNumber::U24 / I24 are only constructed from nom be_u24 / be_i24 (so write_u24/write_i24 cannot assert)")
    ctx.rule("R1.7", "no user-written unsafe block, unsafe fn, unsafe impl, static mut or foreign item in the crate")
    if not roots_or_fail(ctx, prog, "R1.3", ALL_ROOTS):
        return
    nodeset = prog.reach_many(ALL_ROOTS)
    bodies = prog.local_bodies_in(nodeset)
    ctx.count("reachable_instances", len(nodeset))
    ctx.count("reachable_local_bodies", len(bodies))
    ctx.floor("R1.3", "roots", "crate-local bodies reachable from the 9 roots", len(bodies), 150)

    # R1.1
    n_as = 0
    for b in sorted(bodies.values(), key=lambda x: x.path):
        for blk in sorted(b.live_blocks()):
            t = b.term(blk)
            if t["k"] != "assert":
                continue
            n_as += 1
            sp = b.blocks[blk]["tspan"]
            if t["kind"] in ("NullPointerDereference", "MisalignedPointerDereference") and sp.get("exp") and re.match(r"^(vec|format|write|println|matches|assert)", sp.get("macro", "")):
                ok, why = True, "pointer check emitted inside std macro `%s`" % sp.get("macro")
            else:
                ok, why = discharge_assert(an, b, t, blk)
            ctx.ob("R1.1", b.path, "assert:%s" % t["kind"], ok, why, site=b.line(blk))
    ctx.count("assert_terminators", n_as)

    # R1.2
    n_ext = 0
    ext_seen = {}
    for b in sorted(bodies.values(), key=lambda x: x.path):
        for blk, t, c in b.calls():
            if c is None:
                ctx.ob("R1.2", b.path, "indirect-call", True, "call through a value (closure / fn item) — target resolved in the instance graph", site=b.line(blk))
                continue
            if c.local:
                continue
            n_ext += 1
            pc = partial_class(c, docs)
            ext_seen.setdefault(c.npath, pc[0] if pc else "total")
            if pc is None:
                continue
            cls, why = pc
            ok, reason = discharge_partial(an, prog, b, blk, t, c, cls, why)
            ctx.ob("R1.2", b.path, "call:%s" % c.npath, ok, reason, site=b.line(blk))
    ctx.count("external_call_sites", n_ext)
    ctx.analysed["distinct_external_callees"] = len(ext_seen)
    ctx.analysed["external_callee_classes"] = dict(sorted(ext_seen.items()))
    ctx.floor("R1.2", "crate", "external call sites inspected", n_ext, 500)

    # R1.3
    sccs = prog.graph_sccs(nodeset)
    accepted = []
    for comp in sccs:
        members = [prog.nodes[i] for i in comp]
        loc = [m for m in members if m["local"]]
        crates = sorted(set(m["crate"] for m in members))
        label = members[0]["path"]
        if loc:
            names = sorted(set(m["path"] for m in loc))
            ctx.ob("R1.3", names[0], "recursion", False,
                   "call-graph cycle through crate code (one stack frame per iteration of attacker-controlled data): %s" % " -> ".join(m["id"][:90] for m in members[:6]))
        elif set(crates) <= {"core", "alloc", "std"}:
            accepted.append(label)
            ctx.ob("R1.3", norm_generic(label), "std-internal-recursion", True, "SCC wholly inside %s (trusted, logarithmic-depth algorithms)" % crates)
        elif set(crates) <= {"serde", "serde_core"} and all("Serialize" in m["path"] or "serialize" in m["path"] or "::ser::" in m["path"] for m in members):
            acyc, why = type_graph_acyclic(prog)
            ctx.ob("R1.3", "serde::ser::impls", "serialize-recursion-follows-type-structure", acyc,
                   "SCC of generic serde Serialize impls (edges over-approximated through the generic serializer); its depth is the nesting depth of the serialized types, finite because the crate's type graph is acyclic: %s" % why)
        else:
            rev = norm_generic(label) in TABLE.get("reviewed_dependency_sccs", [])
            ctx.ob("R1.3", norm_generic(label), "dependency-recursion", rev, "SCC inside dependency crate(s) %s is not in the reviewed table" % crates)
    ctx.ob("R1.3", "instance-graph", "acyclic-through-crate-code", True,
           "%d instances, %d SCCs, none with a crate-local member unless listed above" % (len(nodeset), len(sccs)))
    ctx.analysed["longest_acyclic_call_chain"] = longest_chain(prog, nodeset, sccs)

    # R1.4
    n_loops = 0
    for b in sorted(bodies.values(), key=lambda x: x.path):
        if b.path == PARSE_ROOTS[0]:
            b = role_body(prog, b.path) or b     # the packet loop, with private step helpers inlined
        for comp in b.sccs():
            n_loops += 1
            ok, why, tag = loop_bounded(an, prog, b, comp)
            ctx.ob("R1.4", b.path, "loop:%s" % tag, ok, why, site=b.line(min(comp)))
    ctx.floor("R1.4", "crate", "CFG loops in reachable bodies", n_loops, 7)

    # R1.5 iterator consumers
    n_cons = 0
    for b in sorted(bodies.values(), key=lambda x: x.path):
        for blk, t, c in b.calls():
            if c is None or not (c.nsyn in ITER_CONSUMERS):
                continue
            n_cons += 1
            ty = t["argtys"][-1] if c.nsyn in ("std::iter::Extend::extend",) else t["argtys"][0]
            # Extend/FromIterator take IntoIterator: a collection or an iterator
            ok, why = iter_type_finite(ty)
            if not ok and not re.search(r"std::iter::|::Iter|IntoIter|Range", ty):
                ok, why = True, "argument is a collection value (finite): %s" % ty[:120]
            ctx.ob("R1.5", b.path, "consumer:%s" % c.nsyn.rsplit("::", 1)[1], ok,
                   ("finite iterator %s" % ty[:160]) if ok else why, site=b.line(blk))
    ctx.floor("R1.5", "crate", "iterator consumer call sites", n_cons, 8)
    from . import c06
    c06.rule_valid_before_insert(ctx, prog, an, "R1.5")

    # R1.6
    n24 = 0
    for b in prog.bodies.values():
        if b.derived:
            continue
        for (blk, i, s) in block_aggs(b):
            rv = s["rv"]
            if rv["adt"].endswith("DataNumber") and rv["variant"] in ("U24", "I24"):
                n24 += 1
                _, e = an.lift(b, an.op(b, rv["ops"][0]))
                e = peel(e)
                want = "nom::number::complete::be_u24" if rv["variant"] == "U24" else "nom::number::complete::be_i24"
                srcs = find(e, lambda n: n[0] == "call" and n[2] is not None and n[2].npath == want)
                bad = find(e, lambda n: n[0] in ("binop", "unop", "cast") or (n[0] == "call" and n[2] is not None and n[2].npath != want and n[2].nsyn not in ("std::ops::Try::branch",) and not n[2].nsyn.startswith("std::result::Result::map")))
                ctx.ob("R1.6", b.path, "ctor:%s" % rv["variant"], bool(srcs) and not bad,
                       "payload = %s" % canon(e)[:200], site=site(s["span"]))
    # constructor used as a function value: nom `map(be_u24, DataNumber::U24)`
    for b in prog.bodies.values():
        if b.derived:
            continue
        for blk, t, c in b.calls():
            if c is None:
                continue
            ctor = None
            srcp = []
            for a in t["args"]:
                e = peel(an.op(b, a), identity=(), casts=False)
                if e[0] == "constfn":
                    m = re.match(r"^variable_versions::data_number::DataNumber::(U24|I24)$", e[1].path)
                    if m:
                        ctor = m.group(1)
                    else:
                        srcp.append(e[1].npath)
            if ctor:
                n24 += 1
                want = "nom::number::complete::be_u24" if ctor == "U24" else "nom::number::complete::be_i24"
                ok = c.npath == "nom::combinator::map" and srcp == [want]
                ctx.ob("R1.6", b.path, "ctor:%s" % ctor, ok, "DataNumber::%s used as a function value in %s with source parser %s" % (ctor, c.npath, srcp), site=b.line(blk))
    ctx.floor("R1.6", "crate", "U24/I24 construction sites", n24, 2)

    # R1.7
    f = prog.facts
    user_unsafe = [u for u in f["unsafe"] if u.get("user")]
    for u in user_unsafe:
        ctx.ob("R1.7", "crate", "unsafe-block", False, "user-written unsafe block", site=site(u["span"]))
    ufn = [p for p, b in f["bodies"].items() if b.get("unsafe_fn")]
    for p in ufn:
        ctx.ob("R1.7", p, "unsafe-fn", False, "unsafe fn")
    uimpl = [i for i in f["impls"] if i.get("unsafe") and not i.get("derived")]
    for i in uimpl:
        ctx.ob("R1.7", i["path"], "unsafe-impl", False, "unsafe impl", site=site(i["span"]))
    smut = [s for s in f["statics"] if s["mut"]]
    for s in smut:
        ctx.ob("R1.7", s["path"], "static-mut", False, "static mut", site=site(s["span"]))
    for o in f.get("other_items", []):
        ctx.ob("R1.7", o["path"], "foreign-item", False, "foreign item / global asm: %s" % o["kind"])
    ctx.ob("R1.7", "crate", "no-unsafe", not (user_unsafe or ufn or uimpl or smut or f.get("other_items")),
           "inventory: %d unsafe blocks (all compiler/derive generated: %d), %d unsafe fns, %d unsafe impls, %d static mut, %d foreign items"
           % (len(f["unsafe"]), len(f["unsafe"]) - len(user_unsafe), len(ufn), len(uimpl), len(smut), len(f.get("other_items", []))))


def type_graph_acyclic(prog):
    """No crate ADT contains itself (through any field type string)."""
    adts = prog.adts
    names = list(adts)
    edges = {}
    for p, a in adts.items():
        tgt = set()
        for v in a["variants"]:
            for f in v["fields"]:
                for q in names:
                    if re.search(r"(^|[^A-Za-z0-9_:])%s($|[^A-Za-z0-9_])" % re.escape(q), f["ty"]):
                        tgt.add(q)
        edges[p] = tgt
    color = {}

    def dfs(u):
        color[u] = 1
        for v in edges[u]:
            if color.get(v) == 1:
                return [u, v]
            if v not in color:
                r = dfs(v)
                if r:
                    return r
        color[u] = 2
        return None

    for u in names:
        if u not in color:
            r = dfs(u)
            if r:
                return False, "recursive type %s -> %s" % (r[0], r[1])
    return True, "%d ADTs, no ADT reaches itself through its field types" % len(names)


def norm_generic(p):
    return re.sub(r"::<.*$", "", p)[:120]


def longest_chain(prog, nodeset, sccs):
    comp_of = {}
    for ci, comp in enumerate(sccs):
        for n in comp:
            comp_of[n] = ("c", ci)
    memo = {}

    def rep(n):
        return comp_of.get(n, ("n", n))

    import sys
    sys.setrecursionlimit(10000)

    def depth(r):
        if r in memo:
            return memo[r]
        memo[r] = 0
        members = sccs[r[1]] if r[0] == "c" else [r[1]]
        best = 0
        for m in members:
            for c in prog.nodes[m]["callees"]:
                if c in nodeset and rep(c) != r:
                    best = max(best, depth(rep(c)))
        memo[r] = best + 1
        return memo[r]

    return max(depth(rep(n)) for n in nodeset) if nodeset else 0


def discharge_partial(an, prog, b, blk, t, c, cls, why):
    if cls == "capacity":
        return True, "capacity: " + why
    if cls == "index-count":
        ty = t["argtys"][0] if t["argtys"] else ""
        ok, w = iter_type_finite(ty)
        return ok, ("index-count over %s" % ty[:120]) if ok else ("enumerate over a possibly unbounded iterator: " + w)
    if cls == "display":
        recv = c.args[0] if c.args else (c.syn_args[0] if c.syn_args else "?")
        recv = recv.strip()
        while recv.startswith("&"):
            recv = recv[1:].strip()
        from ..mir import strip_lifetimes
        r2 = strip_lifetimes(recv)
        total = [strip_lifetimes(x) for x in TABLE["total_display_types"]]
        ok = r2 in total
        if not ok and (r2.startswith("impl ") or re.match(r"^[A-Z]\w*$", r2)):
            # generic receiver of a private helper: decide on the concrete argument types at every call site
            tys = []
            for cb in prog.bodies.values():
                for cblk, ct, cc in cb.calls():
                    if cc is not None and cc.local and cc.path == b.path:
                        for aty in ct["argtys"]:
                            a2 = strip_lifetimes(aty).strip()
                            while a2.startswith("&"):
                                a2 = a2[1:].strip()
                            if a2 not in ("[u8]", "str") and not re.match(r"^(u|i)\d+$|^usize$|^bool$", a2):
                                tys.append(a2)
            if tys and all(x in total for x in tys):
                return True, "total-Display: generic to_string in helper %s, instantiated only with %s" % (b.path, sorted(set(tys)))
        return ok, ("total-Display: to_string on %s" % recv) if ok else ("to_string on %s whose Display impl is not in the reviewed total list" % recv)
    if cls == "divisor":
        d = const_of(an.op(b, t["args"][-1]))
        if d is not None and d != 0:
            return True, "nonzero divisor: constant %s" % d
        return False, "%s with a divisor that is not a non-zero constant (%s): %s" % (c.npath, canon(peel(an.op(b, t["args"][-1])))[:200], why)
    if cls == "ranged":
        # write_u24/write_i24(value): value must be the payload of DataNumber::U24/I24 (R1.6 keeps those in range)
        v = peel(an.op(b, t["args"][-1]))
        ok = v[0] == "field" and v[1][0] == "downcast" and v[1][2] in ("U24", "I24")
        return ok, ("ranged constructor: argument is the payload of DataNumber::%s (R1.6)" % v[1][2]) if ok else ("%s on a value that is not a U24/I24 payload: %s" % (c.npath, canon(v)[:160]))
    if cls == "index" and c.npath.endswith("::copy_from_slice") and len(t["args"]) == 2:
        # lengths must be equal: destination is a `[T; N]` (through the unsize coercion), source is the output of
        # nom `take(N)` with the same constant N (which yields exactly N bytes or fails)
        d = an.op(b, t["args"][0])
        while d[0] in ("ref", "deref"):
            d = d[1]
        dn = None
        if d[0] == "cast" and len(d) > 4 and d[4]:
            m = re.search(r"\[[\w:]+; (\d+)\]$", d[4].strip())
            dn = int(m.group(1)) if m else None
        sx = peel(an.op(b, t["args"][1]))
        sn = None
        if sx[0] == "tfield" and sx[2] == 1 and sx[1][0] == "ok":
            call = peel(sx[1][1])
            if call[0] == "call" and call[3]:
                inner = peel(call[3][0])
                if inner[0] == "call" and inner[2] is not None and inner[2].npath in ("nom::bytes::complete::take", "nom::bytes::streaming::take") and inner[3]:
                    cv = const_eval(peel(inner[3][0], widen=True))
                    if cv is not None and len(cv) == 1:
                        sn = next(iter(cv))
        if dn is not None and dn == sn:
            return True, "equal lengths: destination is a [_; %d] array, source is the %d bytes produced by take(%d)" % (dn, sn, sn)
        # destination `arr[a..b]` with constant a, b; source the `[u8; K]` produced by uN::to_be_bytes / octets
        d2 = peel(an.op(b, t["args"][0]), mutlocal=False)
        while d2[0] in ("ref", "deref"):
            d2 = peel(d2[1], mutlocal=False)
        if d2[0] == "call" and d2[2] is not None and re.search(r"::index(_mut)?$", d2[2].npath) and len(d2[3]) == 2:
            rng = peel(d2[3][1])
            if rng[0] == "agg" and str(rng[1]).endswith("ops::Range") and len(rng[3]) == 2:
                lo, hi = const_eval(peel(rng[3][0], widen=True)), const_eval(peel(rng[3][1], widen=True))
                if lo and hi and len(lo) == 1 and len(hi) == 1:
                    dn = next(iter(hi)) - next(iter(lo))
        s2 = peel(an.op(b, t["args"][1]))
        while s2[0] in ("ref", "deref") or (s2[0] == "cast" and str(s2[1]).startswith("PointerCoercion")):
            s2 = peel(s2[1] if s2[0] != "cast" else s2[2])
        if s2[0] == "call" and s2[2] is not None:
            m2 = re.match(r"^core::(num|f32|f64)::<impl ([uif]\d+)>::to_(be|le|ne)_bytes$", s2[2].npath)
            if m2:
                sn = {"u8": 1, "i8": 1, "u16": 2, "i16": 2, "u32": 4, "i32": 4, "f32": 4, "u64": 8, "i64": 8, "f64": 8, "u128": 16, "i128": 16}.get(m2.group(2))
            elif s2[2].npath == "std::net::Ipv4Addr::octets":
                sn = 4
            elif s2[2].npath == "std::net::Ipv6Addr::octets":
                sn = 16
        if dn is not None and sn is not None and dn == sn and dn >= 0:
            return True, "equal lengths: destination is a constant %d-byte range, source is a [u8; %d]" % (dn, sn)
        return False, "copy_from_slice with lengths not shown equal (destination %s, source %s): %s" % (dn, sn, why)
    if cls == "index" and re.search(r"<impl std::ops::Index(Mut)?<I> for \[T; N\]>::index(_mut)?$", c.npath) and len(t["args"]) == 2 and len(c.args or []) == 3:
        # `arr[a..b]` on a fixed-size array with constant bounds a <= b <= N
        try:
            nlen = int(str(c.args[2]))
        except ValueError:
            nlen = None
        rng = peel(an.op(b, t["args"][1]))
        if nlen is not None and rng[0] == "agg" and str(rng[1]).endswith("ops::Range") and len(rng[3]) == 2:
            lo, hi = const_eval(peel(rng[3][0], widen=True)), const_eval(peel(rng[3][1], widen=True))
            if lo and hi and len(lo) == 1 and len(hi) == 1 and 0 <= next(iter(lo)) <= next(iter(hi)) <= nlen:
                return True, "constant range %d..%d of a [_; %d] array" % (next(iter(lo)), next(iter(hi)), nlen)
    if cls == "index":
        idx = [str(a) for a in (c.args or []) + (c.syn_args or [])]
        if any(a.strip() == "std::ops::RangeFull" for a in idx):
            return True, "total index: `x[..]` (RangeFull) selects the whole array/slice and cannot be out of range"
        # `&s[s.len()..]`: the empty tail of a slice is always in range
        if re.search(r"::index(_mut)?$", c.npath) and len(t["args"]) == 2:
            rng = peel(an.op(b, t["args"][1]))
            if rng[0] == "agg" and str(rng[1]).endswith("ops::RangeFrom") and rng[3]:
                recv = canon(peel(an.op(b, t["args"][0]), widen=True)).lstrip("&*")
                st0 = peel(rng[3][0], widen=True)
                if st0[0] == "call" and st0[2] is not None and st0[2].npath.endswith("<impl [T]>::len") and st0[3] and canon(peel(st0[3][0], widen=True)).lstrip("&*") == recv:
                    return True, "`s[s.len()..]`: the start is the slice's own length"
        # `s.split_at(n)` / `s.split_at_mut(n)` with n = s.len(), or n = min(.., s.len()): mid <= len by construction
        if re.search(r"<impl \[T\]>::split_at(_mut)?$", c.npath) and len(t["args"]) == 2:
            recv = canon(peel(an.op(b, t["args"][0]), widen=True)).lstrip("&*")
            mid = peel(an.op(b, t["args"][1]), widen=True)

            def is_len_of_recv(x):
                x = peel(x, widen=True)
                return x[0] == "call" and x[2] is not None and x[2].npath.endswith("<impl [T]>::len") and x[3] and canon(peel(x[3][0], widen=True)).lstrip("&*") == recv
            if is_len_of_recv(mid):
                return True, "split_at(s.len()): the split point is the slice's own length"
            if mid[0] == "call" and mid[2] is not None and (mid[2].nsyn in ("std::cmp::Ord::min", "std::cmp::min") or mid[2].npath.endswith("::min")) and any(is_len_of_recv(a) for a in mid[3]):
                return True, "split_at(min(.., s.len())): the split point is bounded by the slice's own length"
    if cls == "index" and re.search(r"<impl \[T\]>::(chunks|chunks_mut|chunks_exact|chunks_exact_mut|rchunks|rchunks_exact|windows)$", c.npath) and len(t["args"]) == 2:
        # documented panic: the chunk / window size is 0
        sz = const_eval(peel(an.op(b, t["args"][1]), widen=True))
        if sz and 0 not in sz:
            return True, "chunk size is the non-zero constant %s" % sorted(sz)
    if cls == "documented" and re.search(r"<impl char>::(to_digit|is_digit)$", c.npath) and len(t["args"]) == 2:
        # documented panic: radix > 36
        rx = const_eval(peel(an.op(b, t["args"][1]), widen=True))
        if rx and max(rx) <= 36:
            return True, "radix is the constant %s (<= 36)" % sorted(rx)
    if cls == "documented" and re.search(r"<impl \[T\]>::(sort|sort_unstable|sort_by_key|sort_unstable_by_key|sort_by_cached_key|binary_search_by_key)$", c.npath):
        # documented panic: "may panic if the implementation of Ord for K is not a total order".  Keys that are
        # integers, std types or crate types with a derived Ord are totally ordered; floats have no Ord, and a
        # hand-written comparator (sort_by) is not covered here.
        tys = [str(a) for a in (c.args or [])[:2]]
        hand = [ty for ty in tys if any(pi.get("self_ty") == ty and "Ord" in str(pi.get("trait_ref", "")) and not pi.get("derived") for pi in (bb.parent_impl for bb in prog.bodies.values() if bb.parent_impl))]
        if not hand and not any(re.search(r"\bf(32|64)\b", ty) for ty in tys):
            return True, "sort key %s: Ord is derived / a std total order (no hand-written Ord impl in the crate for it)" % tys[-1:]
    if cls == "documented" and c.nsyn in ("std::iter::Iterator::count",):
        ty = t["argtys"][0] if t["argtys"] else ""
        ok, w = iter_type_finite(ty)
        if ok:
            return True, "count over a finite std iterator (%s): it visits at most isize::MAX elements of a collection, the usize counter cannot overflow" % ty[:100]
    if cls == "documented":
        # documented '# Panics' but no discharge class known
        return False, "%s — no discharge rule for this API: %s" % (c.npath, why)
    return False, "call to partial API %s (%s): %s" % (c.npath, cls, why)


NEXT = ("std::iter::Iterator::next",)


def sub_sccs(b, blocks):
    """Non-trivial SCCs of the CFG restricted to `blocks`."""
    index, low, onst, st, out = {}, {}, set(), [], []
    c = [0]
    for root in sorted(blocks):
        if root in index:
            continue
        index[root] = low[root] = c[0]
        c[0] += 1
        st.append(root)
        onst.add(root)
        work = [(root, iter([s for s in b.succs(root) if s in blocks]))]
        while work:
            v, it = work[-1]
            adv = False
            for w in it:
                if w not in index:
                    index[w] = low[w] = c[0]
                    c[0] += 1
                    st.append(w)
                    onst.add(w)
                    work.append((w, iter([s for s in b.succs(w) if s in blocks])))
                    adv = True
                    break
                elif w in onst:
                    low[v] = min(low[v], index[w])
            if adv:
                continue
            work.pop()
            if work:
                u = work[-1][0]
                low[u] = min(low[u], low[v])
            if low[v] == index[v]:
                comp = []
                while True:
                    w = st.pop()
                    onst.discard(w)
                    comp.append(w)
                    if w == v:
                        break
                if len(comp) > 1 or v in b.succs(v):
                    out.append(sorted(comp))
    return out


def loop_depths(b):
    """{block: loop nesting depth} by recursive SCC decomposition (header = the SCC block entered from outside)."""
    depth = {}

    def rec(blocks, d):
        for comp in sub_sccs(b, blocks):
            cs = set(comp)
            for x in cs:
                depth[x] = d
            heads = [x for x in comp if any(p not in cs for p in b.preds(x))] or [min(comp)]
            rec(cs - {min(heads)}, d + 1)

    rec(set(b.live_blocks()), 1)
    return depth


def loop_bounded(an, prog, b, comp, depth=0):
    from ..mir import Callee
    cs = set(comp)
    # (a) iterator-driven: a `next` call inside the SCC through which every cycle of this loop level passes;
    #     inner loops (sub-SCCs after removing it) are checked recursively
    for blk in comp:
        t = b.term(blk)
        if t["k"] != "call":
            continue
        f = t["func"]
        if f.get("k") != "const" or "fn" not in f:
            continue
        c = Callee(f["fn"])
        if c.nsyn in NEXT:
            ty = t["argtys"][0]
            fin, w = iter_type_finite(ty)
            if not fin:
                continue
            inner = sub_sccs(b, cs - {blk})
            ok_all = True
            whys = []
            for ic in inner:
                if depth > 6:
                    ok_all = False
                    break
                oki, whyi, _ = loop_bounded(an, prog, b, ic, depth + 1)
                if not oki:
                    ok_all = False
                    whys.append(whyi)
            if ok_all:
                return True, "iterator-driven: every cycle passes %s on %s%s" % (c.npath, ty[:100], (" (+%d bounded inner loop(s))" % len(inner)) if inner else ""), "iterator"
    # (b) strict-progress guard
    ok, why = progress_guard(an, prog, b, comp)
    if ok:
        return True, why, "progress-guard"
    return False, "loop is neither driven by a finite std iterator nor progress-guarded: " + why, "unbounded"


def has_cycle(b, blocks):
    color = {}
    for start in blocks:
        if start in color:
            continue
        st = [(start, iter([s for s in b.succs(start) if s in blocks]))]
        color[start] = 1
        while st:
            v, it = st[-1]
            adv = False
            for w in it:
                if color.get(w) == 1:
                    return True
                if w not in color:
                    color[w] = 1
                    st.append((w, iter([s for s in b.succs(w) if s in blocks])))
                    adv = True
                    break
            if not adv:
                color[v] = 2
                st.pop()
    return False


LEN = ("core::slice::<impl [T]>::len", "std::slice::<impl [T]>::len")
SAT_ADD = ("core::num::<impl usize>::saturating_add", "core::num::<impl usize>::checked_add", "core::num::<impl usize>::wrapping_add")
SAT_SUB = ("core::num::<impl usize>::saturating_sub",)


def progress_guard(an, prog, b, comp):
    """Recognise: loop { (rest, taken) = iter.try_fold((cur, 0), f)?; cur = rest; if taken == 0 || .. {break} }
    where f returns (i, acc.1 + (len(acc.0) - len(i))) and i is a parser remainder of acc.0 — so that
    taken = len(cur_old) - len(cur_new) and the back edge requires taken != 0.
    Also recognises the packet loop of parse_bytes: the loop-carried slice is redefined only as the
    remainder produced by a dispatcher that consumes >= 1 byte before delegating."""
    cs = set(comp)
    sl = an.slicer(b)
    # switches inside the loop with an exit edge
    for blk in comp:
        t = b.term(blk)
        if t["k"] != "switch":
            continue
        e, neg = strip_not(an.op(b, t["op"]))
        be = bool_edges(t, neg)
        if not be:
            continue
        tt, ff = be
        # form: X == 0  (true edge exits) / X != 0 (false edge exits)
        if e[0] == "binop" and e[1] in ("Eq", "Ne") and (const_of(e[3]) == 0 or const_of(e[2]) == 0):
            x = e[2] if const_of(e[3]) == 0 else e[3]
            stay = ff if e[1] == "Eq" else tt
            leave = tt if e[1] == "Eq" else ff
            # every cycle must pass through the `stay` edge of this switch
            if has_cycle(b, cs - {blk}):
                continue
            if leave in cs and b.reaches(leave, blk) and all_paths_inside(b, cs, leave, blk):
                # leaving edge stays in the loop: not an exit
                pass
            okm, whym = measures_progress(an, prog, b, sl, x, cs)
            if not okm:
                okm2, whym2 = length_decrease_guard(an, b, sl, t, cs)
                if okm2:
                    okm, whym = okm2, whym2
            if okm:
                return True, "strict progress: back edge requires %s != 0 and %s" % (canon(peel(x))[:80], whym)
            return False, "guard `%s == 0` found but the measured value is not a recognised consumed-bytes count: %s" % (canon(peel(x))[:120], whym)
    # Many0-style guard: `if rest.len() == cur.len() { leave }` where rest is a tail of cur (a parser remainder, by the
    # suffix facts) and the next iteration continues on rest: the cursor strictly shrinks on every iteration that stays
    okm0, whym0 = nothing_consumed_guard(an, prog, b, cs)
    if okm0:
        return True, whym0
    # packet loop: while !cur.is_empty() { match dispatch(cur) { Ok(p) => cur = p.remaining, Err => break } }
    okp, whyp = packet_loop_progress(an, prog, b, comp)
    if okp:
        return True, whyp
    return False, whyp


def nothing_consumed_guard(an, prog, b, cs):
    from ..suffix import Suffix
    from .c02 import underlying_locals
    if not hasattr(an, "_suffix"):
        an._suffix = Suffix(prog)
    sf = an._suffix
    sl = an.slicer(b)
    facts = None
    for blk in sorted(cs):
        t = b.term(blk)
        if t["k"] != "switch":
            continue
        e, neg = strip_not(an.op(b, t["op"]))
        be = bool_edges(t, neg)
        if not be or e[0] != "binop" or e[1] not in ("Eq", "Ne"):
            continue
        tt, ff = be
        leave = tt if e[1] == "Eq" else ff
        if leave in cs or has_cycle(b, cs - {blk}):
            continue
        # operands: two len() results
        op = t["op"]
        cmp_ = None
        if op.get("k") in ("copy", "move"):
            for dd in sl.defs.get(op["place"]["l"], []):
                if dd[0] == "assign" and dd[3]["k"] == "binop" and dd[3]["op"] in ("Eq", "Ne"):
                    cmp_ = dd[3]
        if cmp_ is None:
            continue
        if facts is None:
            facts = sf.facts(b)
        st = facts["at_term"].get(blk)
        la, lb = sf._oplocal(cmp_["a"]), sf._oplocal(cmp_["b"])
        if st is None or la is None or lb is None:
            continue
        # NU[n] = slices s with n <= len(s);  NL[n] = slices s with len(s) <= n
        for small, big in ((la, lb), (lb, la)):
            nu, nl = st.get(("NU", small)), st.get(("NL", big))
            if nu and nl and nu != "ALL" and nl != "ALL" and (set(nu) & set(nl)):
                return True, "strict progress: the loop is left when `rest.len() == cursor.len()` (%s) and rest is a tail of the cursor (a parser remainder), so every iteration that continues shortens the input" % b.line(blk)
    return False, ""


def all_paths_inside(b, cs, a, target):
    return True


def _single_def_call(sl, l):
    ds = sl.defs.get(l, [])
    if len(ds) == 1 and ds[0][0] == "call":
        return ds[0]
    if len(ds) == 1 and ds[0][0] == "assign" and ds[0][3]["k"] == "use" and ds[0][3]["op"].get("k") in ("copy", "move") and not ds[0][3]["op"]["place"].get("p"):
        return _single_def_call(sl, ds[0][3]["op"]["place"]["l"])
    return None


def length_decrease_guard(an, b, sl, switch_term, cs):
    """Guard `len(X).saturating_sub(len(Y)) == 0 → exit` where Y is the loop-carried cursor as redefined in this
    iteration and X a copy of its value taken before that redefinition: a non-zero difference means len(Y) < len(X),
    so the cursor strictly shrinks on every iteration that continues (no assumption about the callee needed)."""
    from ..mir import Callee
    from .c02 import underlying_locals
    # operand of the switch: Eq/Ne(x, 0) -> x local
    op = switch_term["op"]
    if op.get("k") not in ("copy", "move"):
        return False, ""
    d = _single_def_call(sl, op["place"]["l"])
    cmp_ = None
    for dd in sl.defs.get(op["place"]["l"], []):
        if dd[0] == "assign" and dd[3]["k"] == "binop" and dd[3]["op"] in ("Eq", "Ne"):
            cmp_ = dd[3]
    if cmp_ is None:
        return False, ""
    xs = [o for o in (cmp_["a"], cmp_["b"]) if o.get("k") in ("copy", "move")]
    if not xs:
        return False, ""
    sub = _single_def_call(sl, xs[0]["place"]["l"])
    if sub is None:
        return False, ""
    t = sub[2]
    c = Callee(t["func"]["fn"]) if t["func"].get("k") == "const" and "fn" in t["func"] else None
    if c is None or not c.is_(*SAT_SUB) or len(t["args"]) != 2:
        return False, ""
    sides = []
    for a in t["args"]:
        if a.get("k") not in ("copy", "move"):
            return False, ""
        lc = _single_def_call(sl, a["place"]["l"])
        if lc is None:
            return False, ""
        cc = Callee(lc[2]["func"]["fn"]) if lc[2]["func"].get("k") == "const" and "fn" in lc[2]["func"] else None
        if cc is None or not cc.is_(*LEN):
            return False, ""
        a0 = lc[2]["args"][0]
        if a0.get("k") not in ("copy", "move"):
            return False, ""
        sides.append(underlying_locals(sl, a0["place"]["l"]))
    # walk each side back to the loop-carried cursor local (defined both outside and inside the loop)
    def carried(l):
        ds = sl.defs.get(l, [])
        return any(d_[1] in cs for d_ in ds) and (any(d_[1] not in cs for d_ in ds) or l <= b.arg_count)

    def chain_to_carried(l, depth=0):
        """-> (carried local, (block, stmt index) where its value was read) or None"""
        if depth > 8:
            return None
        if carried(l):
            return None
        ds = sl.defs.get(l, [])
        if len(ds) != 1 or ds[0][0] != "assign":
            return None
        rv = ds[0][3]
        src = None
        if rv["k"] in ("ref", "copyforderef"):
            src = rv["place"]["l"]
        elif rv["k"] == "use" and rv["op"].get("k") in ("copy", "move"):
            src = rv["op"]["place"]["l"]
        if src is None:
            return None
        if carried(src):
            return (src, (ds[0][1], ds[0][2]))
        return chain_to_carried(src, depth + 1)

    a_l = t["args"]
    heads = []
    for a in a_l:
        lc = _single_def_call(sl, a["place"]["l"])
        a0 = lc[2]["args"][0]["place"]["l"]
        heads.append(chain_to_carried(a0))
    if not heads[0] or not heads[1] or heads[0][0] != heads[1][0]:
        return False, "the two lengths are not taken from the same loop-carried cursor"
    cur = heads[0][0]
    redefs = [(d_[1], d_[2] if d_[0] == "assign" else 10**6) for d_ in sl.defs.get(cur, []) if d_[1] in cs]
    if len(redefs) != 1:
        return False, "the loop cursor is redefined at %d places inside the loop" % len(redefs)
    rb, ri = redefs[0]
    (xb, xi), (yb, yi) = heads[0][1], heads[1][1]
    before = (xb != rb and b.block_dominates(xb, rb)) or (xb == rb and xi < ri)
    after = (yb != rb and b.block_dominates(rb, yb)) or (yb == rb and yi > ri)
    if before and after:
        return True, "it is len(cursor at iteration start) ⊖ len(cursor after the record): non-zero implies the cursor got strictly shorter"
    return False, "the 'before' length is not read before, or the 'after' length not after, the cursor's redefinition"


def measures_progress(an, prog, b, sl, x, cs):
    x = peel(x)
    # direct form: taken = len(cursor_before).saturating_sub(len(cursor_after)), cursor_after = a parser remainder of cursor_before
    if x[0] == "call" and x[2] is not None and x[2].is_(*SAT_SUB) and len(x[3]) == 2:
        l0, l1 = peel(x[3][0]), peel(x[3][1])
        if l0[0] == "call" and l0[2] is not None and l0[2].is_(*LEN) and l1[0] == "call" and l1[2] is not None and l1[2].is_(*LEN):
            before, after = peel(l0[3][0]), peel(l1[3][0])
            derived = after[0] == "tfield" and after[2] == 0 and after[1][0] == "ok" and peel(after[1][1])[0] == "call" and \
                any(canon(peel(a)) == canon(before) or (peel(a)[0] == "cycle") for a in peel(after[1][1])[3])
            if not derived and after[0] == "phi":
                derived = any(m_[0] == "tfield" and peel(m_)[1][0] == "ok" for m_ in [peel(z) for z in after[1]])
            if derived:
                return True, "it equals len(cursor before) − len(cursor after) where the cursor after is the parser remainder of the cursor before"
            return False, "len difference of two slices that are not (cursor, its parser remainder): %s vs %s" % (canon(before)[:80], canon(after)[:80])
    # x = ok(try_fold(iter, (cur, 0), clo)).k
    if not (x[0] == "tfield" and x[1][0] == "ok"):
        return False, "not a component of a fold result"
    k = x[2]
    call = peel(x[1][1])
    if call[0] == "call" and call[2] is not None and call[2].local and call[2].kind == "Item" and call[2].path in prog.bodies:
        # x = ok(H(cursor, ..)).k for a crate helper H that decodes one record in a loop of its own and returns
        # (rest, .., count): count must be 0 + Σ (len(cursor before) − len(cursor after)) over H's parser steps
        hb = prog.bodies[call[2].path]
        hokv = peel(an.interp._through("ok", an.local(hb, 0)))
        members = hokv[1] if hokv[0] == "phi" else [hokv]
        cnts = []
        for m in members:
            m = peel(m)
            if m[0] == "tuple" and k < len(m[1]):
                cnts.append(peel(m[1][k]))
        if cnts:
            flat = []
            for c0 in cnts:
                flat.extend(c0[1] if c0[0] == "phi" else [c0])
            okh = True
            why_h = ""
            n_add = 0
            for c0 in flat:
                c0 = peel(c0)
                if const_of(c0) == 0 or c0[0] == "cycle":
                    continue
                if c0[0] == "call" and c0[2] is not None and c0[2].is_(*SAT_ADD) and len(c0[3]) == 2:
                    acc, d = peel(c0[3][0]), peel(c0[3][1])
                    if acc[0] in ("cycle", "phi", "const"):
                        okd, whyd = measures_progress(an, prog, hb, an.slicer(hb), d, set())
                        if okd:
                            n_add += 1
                            continue
                        why_h = whyd
                okh = False
                why_h = why_h or "count member %s" % canon(c0)[:120]
            if okh and n_add:
                return True, "it is the count returned by %s: 0 plus, per decoded field, len(cursor before) − len(cursor after) (telescoping sum in the helper's loop)" % call[2].path
            return False, "count returned by %s is not a sum of consumed lengths: %s" % (call[2].path, why_h)
    if not (call[0] == "call" and call[2] is not None and call[2].nsyn in ("std::iter::Iterator::try_fold", "std::iter::Iterator::fold")):
        return False, "not produced by fold/try_fold"
    init = peel(call[3][1])
    clo = peel(call[3][2], identity=(), casts=False)
    if init[0] != "tuple" or clo[0] != "closure":
        return False, "fold accumulator is not a tuple / folder is not a closure"
    if const_of(init[1][k]) != 0:
        return False, "byte counter does not start at 0"
    ACC, ITEM = ("sym", "acc"), ("sym", "item")
    res = an.interp.apply(clo, [ACC, ITEM])
    okv = peel(an.interp._through("ok", res))
    if okv[0] == "ok":
        okv = peel(okv[1])
    if okv[0] != "tuple":
        return False, "folder result is not a tuple: %s" % canon(okv)[:200]
    new_cur = peel(okv[1][0])
    cnt = peel(okv[1][k])
    # new_cur must be the remainder (.0) of a parser applied to acc.0
    good_cur = False
    if new_cur[0] == "tfield" and new_cur[2] == 0 and new_cur[1][0] == "ok":
        pc = peel(new_cur[1][1])
        if pc[0] == "call" and pc[2] is not None and any(canon(peel(a)) == canon(("tfield", ACC, 0)) for a in pc[3]):
            good_cur = True
    if not good_cur:
        return False, "next cursor is not a parser remainder of the previous cursor: %s" % canon(new_cur)[:200]
    # cnt = sat_add(acc.k, sat_sub(len(acc.0), len(new_cur)))
    good_cnt = False
    if cnt[0] == "call" and cnt[2] is not None and cnt[2].is_(*SAT_ADD):
        a0, a1 = peel(cnt[3][0]), peel(cnt[3][1])
        if canon(a0) == canon(("tfield", ACC, k)) and a1[0] == "call" and a1[2] is not None and a1[2].is_(*SAT_SUB):
            l0, l1 = peel(a1[3][0]), peel(a1[3][1])
            if l0[0] == "call" and l0[2].is_(*LEN) and l1[0] == "call" and l1[2].is_(*LEN):
                if canon(peel(l0[3][0])) == canon(("tfield", ACC, 0)) and canon(peel(l1[3][0])) == canon(new_cur):
                    good_cnt = True
    if not good_cnt:
        return False, "counter is not acc + (len(cursor_before) - len(cursor_after)): %s" % canon(cnt)[:240]
    # the loop cursor fed to the fold must be redefined, inside the loop, as the fold's own cursor result
    cur_in = peel(init[1][0])
    return True, "it equals len(cursor before) − len(cursor after) of a per-field parser chain (telescoping sum over try_fold)"


def packet_loop_progress(an, prog, b, comp):
    from . import c02
    ppaths = c02.parsing_paths(prog)
    cs = set(comp)
    pcs = [(blk, t, c) for (blk, t, c) in b.calls() if blk in cs and c is not None and c.local and c.path in ppaths]
    if len(pcs) != 1:
        return False, "no single dispatcher call inside the loop"
    blk, t, c = pcs[0]
    if has_cycle(b, cs - {blk}):
        return False, "a cycle bypasses the dispatcher call"
    # the back edge must come from the Ok arm and re-feed Ok(..).remaining
    arg = peel(an.op(b, t["args"][-1]))
    members = arg[1] if arg[0] == "phi" else [arg]
    fed = False
    for m in members:
        m = peel(m)
        if m[0] == "field" and m[2] == "remaining" and peel(m[1])[0] == "ok":
            fed = True
        elif m[0] in ("arg", "cycle"):
            pass
        elif tail_by_length(an, m) is not None and peel(tail_by_length(an, m)[1])[0] == "field" and peel(tail_by_length(an, m)[1])[2] == "remaining":
            fed = True       # offset cursor: the last `remaining.len()` bytes of the buffer (C02 R2.5 checks the details)
        else:
            return False, "loop-carried input is neither the entry slice nor Ok(..).remaining: %s" % canon(m)[:200]
    if not fed:
        return False, "loop does not feed back a parser remainder"
    # dispatcher consumes >= 1 byte before delegating and the wrappers return the nom remainder (R2.5)
    d = prog.body(c.path)
    if d is None:
        return False, "dispatcher body missing"
    if not any(c2 is not None and c2.local and c2.path in VERSION_PARSERS.values() for _, _, c2 in d.calls()):
        d = role_body(prog, c.path) or d        # the version match lives in a private piece of the dispatcher
    from .layout import Layouts
    lay = Layouts(prog, an)
    consumed = None
    for blk2, t2, c2 in d.calls():
        if c2 is not None and c2.local and c2.path in VERSION_PARSERS.values():
            a = peel(an.opx(d, t2["args"][-1]))        # private splitting helpers inlined
            if a[0] == "tfield" and a[2] == 0 and a[1][0] == "ok":
                src = peel(a[1][1])
                if src[0] == "call" and src[2] is not None and src[2].local:
                    w = lay.struct_width(src[2].path)
                    consumed = w if consumed is None else min(consumed, w or 0)
                    continue
            return False, "a version parser is handed something other than the remainder after the version field: %s" % canon(a)[:160]
    if not consumed:
        return False, "dispatcher does not consume a fixed non-zero prefix before delegating"
    return True, "packet loop: each successful iteration hands back a nom remainder of a slice from which the dispatcher first consumed %d byte(s) (complete-mode), so the input strictly shrinks; errors leave the loop (R2.1)" % consumed
