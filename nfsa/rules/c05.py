"""C05 — IPFIX sets decode exactly as RFC 7011 and the governing template say (DESIGN §4.5)."""
import re

from .common import *
from .layout import Layouts, term_s, rule_body_lengths
from . import c04

LEVEL = "other"
EXPLANATION = (
    "Structural clauses of IPFIX decoding, decided from MIR: message body = length−16 and set body = "
    "length−4 (saturating, constants equal the wire sizes of the enclosing headers incl. the 2 version "
    "bytes consumed by the dispatcher); set id 2 reaches the template parser, 3 the options-template "
    "parser, ids >= 255 neither; variable-length fields: only template length 65535 triggers the prefix, "
    "one be_u8, the 255 escape, then be_u16; the enterprise number is parsed iff the field type has bit "
    "15 set; every *_count / *_length header field delimits something; sets are visited by "
    "many0(complete(..)) inside the length-delimited message; records are decoded in template order "
    "with a threaded cursor; the IPFIX lookup table is self-consistent; width/type tables as in C04. "
    "Value-level agreement with RFC 7011 over all streams is not decided."
)
ASSUMPTIONS = ["nom primitives consume exactly their width and decode big-endian (nom contract)"]

IP = "variable_versions::ipfix::"


def set_id_dispatch_rule(ctx, prog, an, rid, only_data=False):
    """IPFIX set-id dispatch, evaluated path-sensitively for concrete ids: 2 reaches the template parser only, 3 the
    options-template parser only, 255 / 256 / 1000 / 65535 (data sets) neither - a data set is never read as a template
    record (shared: C05 R5.2; C06 R6.11, C07 R7.7, C10 R10.9 use the data-set half)."""
    fb = classifier_inlined(prog, IP + "FlowSetBody::parse")
    if not ctx.anchor(rid, IP + "FlowSetBody::parse", fb):
        return
    tpl = {"Template": "<%sTemplate as nom_derive::Parse" % IP, "OptionsTemplate": "<%sOptionsTemplate as nom_derive::Parse" % IP}
    table = ((2, {"Template"}), (3, {"OptionsTemplate"}), (255, set()), (256, set()), (1000, set()), (65535, set()))
    for idv, want in table:
        if only_data and want:
            continue
        r = reach_assuming(an, fb, {canon(("arg", 3)): idv})

        def tname(nd):
            for k, pre in tpl.items():
                if nd["path"].startswith(pre):
                    return k
            return None
        got = local_callees_reaching(prog, fb, r, tname)
        ctx.ob(rid, fb.path, "id=%d" % idv, got == want, "set id %d reaches template parsers %s, expected %s" % (idv, sorted(got), sorted(want)))


def validity_accepts_wellformed(ctx, prog, an, rid):
    """The IPFIX validity predicate (`is_valid`) that keeps a parsed template record out of the cache may examine
    the counts in the record header, but it must still accept every well-formed combination of them: decided by
    evaluating the predicate's branches (comparisons of `field_count` / `scope_field_count` with each other and with
    constants; private helpers inlined at CFG level) at the corner values RFC 7011 allows - everything that is not a
    comparison of these header fields is left unknown."""
    IPX = "variable_versions::ipfix::"
    COMBOS = {"Template": [{"field_count": 1}, {"field_count": 2}, {"field_count": 65535}],
              "OptionsTemplate": [{"field_count": 1, "scope_field_count": 1}, {"field_count": 2, "scope_field_count": 1},
                                  {"field_count": 2, "scope_field_count": 2}, {"field_count": 3, "scope_field_count": 1},
                                  {"field_count": 65535, "scope_field_count": 1}, {"field_count": 65535, "scope_field_count": 65535}]}
    n = 0
    from . import c06 as _c06p
    preds = _c06p.validity_predicates(prog, an)
    for tname, combos in sorted(COMBOS.items()):
        adt = IPX + tname
        cal = preds.get("templates" if tname == "Template" else "options_templates")
        path = None
        if cal is not None:
            meth = cal.path.rsplit("::", 1)[-1]
            own = [p for p, b in prog.bodies.items() if p.endswith("::" + meth) and not b.derived and (b.parent_impl or {}).get("self_ty") == adt]
            path = (own or ([cal.path] if cal.path in prog.bodies else []) or [None])[0]
        if not ctx.anchor(rid, adt + " validity predicate", path):
            continue

        def pred(q):
            cb = prog.bodies.get(q)
            return cb is not None and not cb.derived and cb.nblocks <= 120 and q.startswith(IPX)
        b = prog.inlined_body(path, pred, key="valid") or prog.bodies[path]
        for combo in combos:
            assume = {}
            for l in range(1, len(b.locals)):
                try:
                    e = peel(an.local(b, l), widen=True)
                except RecursionError:
                    continue
                if e[0] == "field" and e[2] in combo:
                    base = peel(e[1])
                    while base[0] in ("ref", "deref"):
                        base = peel(base[1])
                    if base[0] == "arg":
                        assume[canon(e)] = combo[e[2]]
            n += 1
            if not assume:
                ctx.ob(rid, path, "accepts:%s" % ",".join("%s=%d" % kv for kv in sorted(combo.items())), True, "the predicate does not examine the header counts")
                continue
            r = reach_assuming(an, b, assume)
            vals = []
            for blk in sorted(r):
                for st in b.blocks[blk]["stmts"]:
                    if st["k"] == "assign" and st["place"]["l"] == 0 and not st["place"].get("p"):
                        rv = st["rv"]
                        if rv["k"] == "use" and rv["op"].get("k") == "const":
                            vals.append(eval_assuming(an.op(b, rv["op"]), {}))
                        else:
                            v = eval_assuming(an.op(b, rv["op"]), assume) if rv["k"] == "use" else None
                            vals.append(v)
                t = b.blocks[blk]["term"]
                if t["k"] == "call" and t.get("dest") and t["dest"]["l"] == 0 and not t["dest"].get("p"):
                    vals.append(None)
            can_true = (not vals) or any(v is None or v for v in vals)
            ctx.ob(rid, path, "accepts:%s" % ",".join("%s=%d" % kv for kv in sorted(combo.items())), can_true,
                   ("is_valid cannot return true for a %s record with %s, which RFC 7011 allows: such a template is never cached and its data never decodes" % (tname, combo)) if not can_true
                   else "can be accepted (return values reachable under the assumption: %s)" % sorted(set("unknown" if v is None else bool(v) for v in vals), key=str), site=site(prog.bodies[path].span))
    ctx.floor(rid, "ipfix", "well-formed header-count combinations evaluated", n, 9)


def run(ctx, env):
    prog = env.prog("default")
    an = An(prog)
    ctx.rule("R4.10", "IPFIX templates: every parsed template reaches the cache by an overwriting write on every path, and the template reported in the result is the parsed one (shared with C06 R6.8)")
    from . import c06 as _c06
    _c06.rule_template_reaches_cache(ctx, prog, an, "R4.10", only_adt="variable_versions::ipfix::IPFixParser")
    lay = Layouts(prog, an)
    ctx.rule("R5.1", "IPFIX message body = header.length saturating-minus 16; set body = header.length saturating-minus 4 (constants = wire size of the enclosing headers)")
    ctx.rule("R5.7", "the IPFIX record loop hands bytes over as padding only when they cannot hold a record: its length guard compares the remainder with a lower bound of the record size under the template (fixed lengths + 1 per variable-length field), never with the size of the previous record")
    ctx.rule("R5.2", "set id 2 reaches Template::parse only, id 3 reaches OptionsTemplate::parse only, ids >= 255 reach neither")
    ctx.rule("R5.3", "variable-length encoding: only field_length 65535 reads a prefix; one be_u8; value 255 escapes to be_u16; otherwise the template length is used unchanged")
    ctx.rule("R5.4", "enterprise_number is parsed by cond(c, be_u32) with c equivalent to field_type_number >= 0x8000")
    ctx.rule("R5.5", "all sets inside the message are visited: many0(complete(FlowSet::parse)) over the take(length-16) body")
    ctx.rule("R5.6", "records are decoded in template order: try_fold over get_fields().iter().enumerate(), cursor threaded through the accumulator, values stored under the enumerate index with the field's own type")
    ctx.rule("R4.3", "every parsed *_count / *_length field delimits a repetition / take / decoder")
    ctx.rule("R4.7", "From<u16> for IPFixField: arm n -> variant with discriminant n (or catch-all); From<IPFixField> for FieldDataType switches on the discriminant")
    ctx.rule("R4.9", "every data-set decoder contains a record repetition")
    # R5.1
    saved = ctx.obls
    ctx.obls = []
    rule_body_lengths(ctx, prog, an, "R5.1")
    sub = ctx.obls
    ctx.obls = saved
    for o in sub:
        if "ipfix" in o["func"] or o["detail"].startswith("floor"):
            ctx.ob("R5.1", o["func"], o["detail"], o["status"] == "discharged", o["reason"], o["site"])
    # R5.2
    set_id_dispatch_rule(ctx, prog, an, "R5.2")
    # R5.8
    ctx.rule("R5.8", "a field value is reported as sent: in every arm of FieldValue::from_field_type (private helpers inlined) no arithmetic, clamping or narrowing cast is applied to a value read from the input bytes, and each dateTime kind gets its unit from the Duration constructor of that unit (shared with C04 R4.11)")
    from . import valuepath
    valuepath.rule(ctx, prog, an, "R5.8")
    ctx.rule("R5.10", "records are all-or-nothing: a decode step whose failure is tolerated (taken as the start of padding) has not appended anything to the reported collection by the time it fails - helpers that fill an out-parameter either have their failure propagated or insert only after their last fallible step")
    from . import consume as _cons
    _cons.partial_output_rule(ctx, prog, an, "R5.10", lambda b: b.path.startswith(("variable_versions::ipfix::", "variable_versions::data_number::")))
    ctx.rule("R5.13", "the IPFIX validity predicate accepts every well-formed template record: for the corner combinations of field_count / scope_field_count that RFC 7011 allows (scope = field_count, a single field, the maximum count) is_valid - evaluated at those values through its comparisons of the header counts - can still return true")
    validity_accepts_wellformed(ctx, prog, an, "R5.13")
    ctx.rule("R5.12", "a data set is decoded with the template in force at that point of the stream: every function that writes a template cache is reached from parse_bytes only through the per-flowset / per-set decode call of its protocol (FlowSet::parse), one flowset at a time and in order - no pre-pass over the packet learns templates ahead of the data that precedes them (shared with C06 R6.9)")
    from .cache import CacheAccess as _CA12
    from . import c06 as _c06s
    _c06s.rule_learned_in_stream_order(ctx, prog, _CA12(prog, an), "R5.12", only="IPFixParser")
    ctx.rule("R5.11", "the records a decoder reports are made by that decode alone: every element added to the reported collection derives from the input slice, and the collection itself is created by the call - not the drained / taken content of storage kept in the parser object (a reusable buffer that a failed decode leaves half-filled would surface in a later packet) (shared with C02 R2.10)")
    _cons.foreign_rule(ctx, prog, an, "R5.11", lambda b: b.path.startswith(("variable_versions::ipfix::", "variable_versions::data_number::")), floor=0)
    # R5.9
    ctx.rule("R5.9", "integers are decoded by DataNumber::parse: (width, signedness) -> a big-endian primitive of exactly that width and the like-named variant, sign-extended for signed kinds, without a narrowing cast; unsupported widths are rejected (shared with C04 R4.6: the IPFIX and V9 decoders use the same table)")
    from . import c04 as _c04
    _c04.dn_width_table_rule(ctx, prog, an, "R5.9")
    # R5.7
    from . import records as _rec0
    _rec0.record_stop_rule(ctx, prog, an, "R5.7", IP + "Data::parse_be", "ipfix-data")
    # R5.3 (role-based: the IPFIX per-field decoder and the private helpers it calls, whatever they are named)
    from . import records as _rec
    from .layout import prim_of
    Rx = _rec.Records(prog, an, IP + "Data::parse_be")
    if not Rx.ok:
        ctx.ob("R5.3", IP + "Data", "field-decoder", False, Rx.why)
    else:
        _, _, fdc = Rx.site()
        fd_bodies = []
        seen_p = set()
        st_ = [fdc.path]
        while st_:
            pth = st_.pop()
            if pth in seen_p or pth not in prog.bodies or pth == c04.FFT:
                continue
            seen_p.add(pth)
            bb = prog.bodies[pth]
            fd_bodies.append(classifier_inlined(prog, pth) or bb)     # pure predicates (`is_variable_length()`) inlined
            for blk, t, c in bb.calls():
                if c is not None and c.local and c.path.startswith(IP):
                    st_.append(c.path)
        # a helper that was inlined into its caller is analysed there, not a second time on its own
        absorbed = set(x for bb in fd_bodies for x in getattr(bb, "inlined", []))
        fd_bodies = [bb for bb in fd_bodies if bb.path not in absorbed]
        FL = canon(("field", ("arg", 1), "field_length", IP + "TemplateField"))
        FL2 = canon(("field", ("deref", ("arg", 1)), "field_length", IP + "TemplateField"))

        def reads_under(assume):
            if FL in assume:
                assume = dict(assume)
                assume[FL2] = assume[FL]
            out = []
            for bb in fd_bodies:
                r = reach_assuming(an, bb, assume)
                for blk, t, c in bb.calls():
                    if blk in r and c is not None and prim_of(c):
                        out.append((bb, blk, prim_of(c), t))
            return out

        # the byte read as the short length
        all_reads = reads_under({})
        ctx.ob("R5.3", fdc.path, "prefix-primitives", sorted(p[2][2] for p in all_reads) == [1, 2] and all(p[2][3] == "be" for p in all_reads),
               "length-prefix reads in the field decoder: %s" % [p[2][1] for p in all_reads])
        for v in (0, 1, 4, 255, 256, 65534):
            ps = reads_under({FL: v})
            ctx.ob("R5.3", fdc.path, "fixed-length:%d" % v, not ps, "template length %d reads %s from the data before the value" % (v, [p[2][1] for p in ps] or "nothing"))
        ps = reads_under({FL: 65535})
        ctx.ob("R5.3", fdc.path, "variable-length:65535", sorted(p[2][2] for p in ps) == [1, 2], "template length 65535 can read %s" % [p[2][1] for p in ps])
        u8s = [p for p in all_reads if p[2][2] == 1]
        if u8s:
            bb, blk, pr, t = u8s[0]
            BYTE = canon(("tfield", ("ok", an.simp(an.slicer(bb).call_expr(blk, bb.term(blk)))), 1))
            for bv, want in ((0, [1]), (1, [1]), (254, [1]), (255, [1, 2])):
                ps2 = reads_under({FL: 65535, BYTE: bv})
                ctx.ob("R5.3", fdc.path, "short-length-byte:%d" % bv, sorted(p[2][2] for p in ps2) == want,
                       "first length byte %d -> reads of width %s (expected %s)" % (bv, sorted(p[2][2] for p in ps2), want))
    # R5.4
    Lt = lay.parser_layout(c04.pe_path(IP + "TemplateField"))
    if ctx.anchor("R5.4", c04.pe_path(IP + "TemplateField"), prog.body(c04.pe_path(IP + "TemplateField"))) and Lt["ok"]:
        cs = [s for s in Lt["steps"] if s["term"][0] == "cond"]
        ok = False
        why = "no cond(..) step"
        if len(cs) == 1:
            c = peel(an.simp(cs[0]["term"][1]))
            inner = cs[0]["term"][2]
            prim_ok = inner[0] == "prim" and inner[2] == 4 and inner[3] == "be"
            # the condition, as a function of the raw first u16 of the specifier, must be exactly "bit 15 is set":
            # decided by evaluating the extracted expression on every u16 value (any spelling: > 32767, >= 0x8000,
            # & 0x8000 != 0, >> 15 == 1, ..)
            cok = False
            first = Lt["steps"][0]
            raw = ("tfield", ("ok", first["call"]), 1)
            f = compile_scalar(c, canon(peel(raw)))
            if f is None:
                f = compile_scalar(c, canon(raw))
            if f is not None and find(c, lambda n: n[0] == "ok" and peel(n[1])[0] == "call" and peel(n[1])[1] == first["block"]):
                try:
                    cok = all(f(x) == (1 if x >= 32768 else 0) for x in range(65536))
                except Exception:
                    cok = False
            ok = bool(prim_ok and cok and cs[0]["fields"] == ["enterprise_number"])
            why = "enterprise_number = cond(%s, %s)" % (canon(c)[:120], term_s(inner)[:60])
        ctx.ob("R5.4", IP + "TemplateField", "enterprise-bit-condition", ok, why)
    # R5.5 (shape shared with C07 R7.4; located anywhere on the parse path)
    from . import c07 as _c07
    ok55, why55 = _c07.ipfix_sets_many0_complete(prog, an, reach_bodies(prog, PARSE_ROOTS))
    ctx.ob("R5.5", IP + "IPFix", "sets-by-many0(complete(FlowSet::parse))", ok55, why55)
    # R5.6 (form-independent, see records.py)
    from . import records
    Rd = records.decode_order_rule(ctx, prog, an, "R5.6", IP + "Data::parse_be", "ipfix")
    Ro = records.decode_order_rule(ctx, prog, an, "R5.6", IP + "OptionsData::parse_be", "ipfix-options")
    # R4.3 on IPFIX
    n = 0
    for adt in (IP + "Header", IP + "FlowSetHeader", IP + "Template", IP + "OptionsTemplate", IP + "TemplateField"):
        n += c04.count_length_rule(ctx, prog, an, lay, "R4.3", adt)
    ctx.floor("R4.3", "ipfix", "count/length fields", n, 6)
    # R4.7
    n7 = c04.lookup_table_rule(ctx, an, prog, "R4.7", "variable_versions::ipfix_lookup::IPFixField", "<variable_versions::ipfix_lookup::IPFixField as std::convert::From<u16>>::from", {"Unknown", "Enterprise", "AssignedforNetFlowv9compatibility", "Reserved"})
    c04.datatype_scrutinee_rule(ctx, an, prog, "R4.7", "", "variable_versions::ipfix_lookup::IPFixField")
    ctx.floor("R4.7", "ipfix", "lookup arms", n7, 400)
    # R4.9
    records.record_repetition_rule(ctx, prog, an, "R4.9", IP + "Data::parse_be", Rd)
    records.record_repetition_rule(ctx, prog, an, "R4.9", IP + "OptionsData::parse_be", Ro)
