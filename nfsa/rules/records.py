"""Form-independent analysis of the data-record decoders (v9::Data, ipfix::Data, ipfix::OptionsData).

Everything is located by *role*, never by the name of a private function:
  - the records parser F = the function behind the `fields` step of the decoder's nom-derive parser;
  - the per-field decode site S = the unique call, in F or in the closures / private helpers below it, of a
    function that reaches the public `FieldValue::from_field_type`;
  - repetition levels between F's entry and S: CFG loops containing the call chain and closures handed to
    iterator consumers (fold / try_fold / for_each / map) — so `for` loops and iterator chains are equivalent.
"""
import re

from .common import *
from .layout import Layouts
from .cache import uses_of_local
from .c01 import loop_depths

FFT = "variable_versions::data_number::FieldValue::from_field_type"
CONSUMERS = ("std::iter::Iterator::fold", "std::iter::Iterator::try_fold", "std::iter::Iterator::for_each", "std::iter::Iterator::map",
             "std::iter::Iterator::try_for_each", "std::iter::Iterator::flat_map", "std::iter::Iterator::filter_map",
             "std::iter::Iterator::map_while", "std::iter::Iterator::scan")
BAD_ADAPTORS = re.compile(r"std::iter::(Rev|Skip|StepBy|Filter|Take|SkipWhile|TakeWhile|Zip|Chain|Cycle)\b")


def records_parser_of(lay, decoder_path):
    L = lay.parser_layout(decoder_path)
    if not L["ok"]:
        return None
    for s in L["steps"]:
        if "fields" in s["fields"]:
            t = s["term"]
            while t[0] in ("closure",):
                t = t[2]
            if t[0] == "struct":
                return t[2]
    return None


class Records:
    def __init__(self, prog, an, decoder_path):
        self.prog = prog
        self.an = an
        self.decoder = decoder_path
        self.lay = Layouts(prog, an)
        self.F = records_parser_of(self.lay, decoder_path)
        self.ok = False
        self.why = ""
        self.chain = []   # [(body, call_block)] from F down to the body containing S; last = (B_s, S block)
        if self.F is None or prog.body(self.F) is None:
            self.why = "cannot identify the records parser behind the `fields` step of %s" % decoder_path
            return
        self._reaches_fft = self._compute_reach()
        self._find_site()

    # ---- call graph helpers -------------------------------------------------
    def _compute_reach(self):
        """Set of local def paths (incl. closures) that can reach from_field_type."""
        prog = self.prog
        rev = {}
        for i, n in enumerate(prog.nodes):
            for c in n["callees"]:
                rev.setdefault(c, []).append(i)
        targets = [i for i, n in enumerate(prog.nodes) if n["path"] == FFT]
        seen = set(targets)
        st = list(targets)
        while st:
            x = st.pop()
            for p in rev.get(x, []):
                if p not in seen:
                    seen.add(p)
                    st.append(p)
        return set(prog.nodes[i]["path"] for i in seen if prog.nodes[i]["local"])

    def _children(self, body):
        """(block, kind, child body) for calls in `body` that lead towards S: local callees reaching FFT,
        and closures (defined in body) reaching FFT that are handed to an iterator consumer / called."""
        out = []
        for blk, t, c in body.calls():
            if c is None:
                continue
            if c.local and c.path in self._reaches_fft and c.path != FFT and c.path in self.prog.bodies and c.path != body.path:
                out.append((blk, "call", self.prog.bodies[c.path], c))
            for a in t["args"]:
                e = peel(self.an.op(body, a), identity=(), casts=False)
                if e[0] == "closure" and e[1] in self._reaches_fft and e[1] in self.prog.bodies:
                    kind = "consumer" if (c.nsyn in CONSUMERS) else "closure-arg"
                    out.append((blk, kind, self.prog.bodies[e[1]], c))
        return out

    def _find_site(self):
        prog = self.prog
        Fb = prog.body(self.F)
        # DFS from F to the body that directly calls a function whose next hop is from_field_type-level decoding.
        # S = a call site whose callee reaches FFT but which has no further repetition below it that is part of
        # the decoder: we take the deepest chain of (body, block) until the callee is outside the decoder's module.
        mod = self.F.rsplit("::", 2)[0]
        sites = []

        def rec(body, chain, depth):
            if depth > 8:
                return
            kids = self._children(body)
            for blk, kind, child, c in kids:
                if kind == "call" and not child.path.startswith(mod):
                    sites.append(chain + [(body, blk, "site", c)])
                    continue
                if kind == "call" and self._is_field_decoder(child):
                    sites.append(chain + [(body, blk, "site", c)])
                    continue
                rec(child, chain + [(body, blk, kind, c)], depth + 1)

        rec(Fb, [], 0)
        # unique per-field decode site
        uniq = {}
        for ch in sites:
            b, blk, _, c = ch[-1]
            uniq[(b.path, blk)] = ch
        if len(uniq) != 1:
            self.why = "expected exactly one per-field decode site below %s, found %d: %s" % (self.F, len(uniq), sorted(uniq))
            return
        self.chain = list(uniq.values())[0]
        self.ok = True

    def _is_field_decoder(self, body):
        """A function that decodes ONE field: takes the input slice and reaches from_field_type without any repetition of its own."""
        if body.sccs():
            return False
        for blk, t, c in body.calls():
            if c is not None and c.nsyn in CONSUMERS:
                return False
        return True

    # ---- derived facts ---------------------------------------------------------
    def site(self):
        b, blk, _, c = self.chain[-1]
        return b, blk, c

    def levels(self):
        """Repetition levels from F's entry down to S: list of (body path, what)."""
        out = []
        for (b, blk, kind, c) in self.chain:
            d = loop_depths(b).get(blk, 0)
            for i in range(d):
                out.append((b.path, "loop"))
            if kind == "consumer":
                out.append((b.path, "closure:%s" % c.nsyn.rsplit("::", 1)[1]))
        return out

    def depth_in_chain(self, body, blk):
        """Repetition depth of a block of one of the chain's bodies, counted from F's entry."""
        d = 0
        for (b, cb, kind, c) in self.chain:
            if b.path == body.path:
                return d + loop_depths(b).get(blk, 0)
            d += loop_depths(b).get(cb, 0)
            if kind == "consumer":
                d += 1
        # body below the chain's last element (e.g. closure = B_s itself is in chain) -> unknown
        return None

    def iterator_types(self):
        """Iterator type strings that drive the repetition level immediately enclosing S."""
        b, blk, c = self.site()
        tys = []
        # for-loop form: a `next` call in B_s whose loop contains S
        for comp in b.sccs():
            if blk in comp:
                for x in comp:
                    t = b.term(x)
                    if t["k"] == "call" and t["func"].get("k") == "const" and "fn" in t["func"]:
                        cc = Callee(t["func"]["fn"])
                        if cc.nsyn == "std::iter::Iterator::next":
                            tys.append(t["argtys"][0])
        # closure form: B_s is a closure handed to a consumer in its parent
        if len(self.chain) >= 2:
            pb, pblk, kind, pc = self.chain[-2]
            if kind == "consumer":
                tys.append(pb.term(pblk)["argtys"][0])
        return tys


def decode_order_rule(ctx, prog, an, rule, decoder_path, label):
    R = Records(prog, an, decoder_path)
    if not R.ok:
        ctx.ob(rule, decoder_path, "per-field-decode-site", False, R.why)
        return R
    b, blk, c = R.site()
    ctx.ob(rule, decoder_path, "per-field-decode-site", True, "fields are decoded by %s, called from %s" % (c.path, b.path), site=b.line(blk))
    # (1) iteration over the template's fields, in order
    tys = R.iterator_types()
    okt = bool(tys) and all("std::iter::Enumerate<std::slice::Iter<" in t and not BAD_ADAPTORS.search(t) for t in tys)
    ctx.ob(rule, decoder_path, "fields-in-template-order", okt, "field repetition driven by %s" % [t[:110] for t in tys])
    # source of the enumerate()
    srcs = []
    for (bb, _, _, _) in R.chain:
        for bk, t, cc in bb.calls():
            if cc is not None and cc.npath == "std::iter::Iterator::enumerate":
                src = peel(an.op(bb, t["args"][0]), identity=())
                srcs.append(src)
    oks = False
    why = "no enumerate() over the template's fields"
    def lift_arg(bb, e):
        """If e is a parameter of a helper on the chain, replace it by the caller's argument."""
        e = peel(e)
        guard = 0
        while e[0] == "arg" and guard < 4:
            guard += 1
            parent = None
            for idx, (pb, pblk, kind, c) in enumerate(R.chain):
                if idx + 1 < len(R.chain) and R.chain[idx + 1][0].path == bb.path and kind == "call":
                    parent = (pb, pblk)
            if parent is None:
                break
            pb, pblk = parent
            args = pb.term(pblk)["args"]
            if e[1] - 1 >= len(args):
                break
            e = peel(an.op(pb, args[e[1] - 1]))
            bb = pb
        return e

    src_bodies = []
    for (bb, _, _, _) in R.chain:
        for bk, t, cc in bb.calls():
            if cc is not None and cc.npath == "std::iter::Iterator::enumerate":
                src_bodies.append(bb)
    for src, sbb in zip(srcs, src_bodies):
        if src[0] == "call" and src[2] is not None and src[2].npath.endswith("<impl [T]>::iter"):
            inner = lift_arg(sbb, src[3][0])

            def fields_accessor(c):
                """A crate (trait) method that hands out the template's `fields` (every implementation returns
                `self.fields`); its name and the trait's name are free."""
                if c is None or not c.local:
                    return False
                method = c.syn_path.rsplit("::", 1)[-1]
                impls = []
                if c.trait:
                    impls = [hb for hp, hb in prog.bodies.items() if hb.parent_impl and (hb.parent_impl.get("trait") or "") == c.trait and hp.endswith("::" + method)]
                elif c.path in prog.bodies:
                    impls = [prog.bodies[c.path]]
                if not impls:
                    return False
                for hb in impls:
                    r = peel(an.local(hb, 0))
                    if not (r[0] == "field" and r[2] == "fields" and peel(r[1]) == ("arg", 1)):
                        return False
                return True

            def is_fields(x):
                x = peel(x)
                return (x[0] == "field" and x[2] == "fields") or (x[0] == "call" and fields_accessor(x[2]))
            isf = is_fields(inner)
            if not isf and inner[0] == "arg":
                # the records parser receives the field list itself (`&[TemplateField]`): every caller must pass the
                # fields of a (cached) template — looked at with closure captures and private helpers resolved
                outs = []
                for cb in prog.bodies.values():
                    for cblk, ct, cc in cb.calls():
                        if cc is not None and cc.local and cc.path == sbb.path and inner[1] - 1 < len(ct["args"]):
                            ex = an.op(cb, ct["args"][inner[1] - 1])
                            if cb.kind == "Closure":
                                _, ex = an.lift(cb, ex)
                            ex = an.expand(ex)
                            outs.append(bool(find(ex, lambda n: is_fields(n) if n[0] in ("field", "call") else False)))
                isf = bool(outs) and all(outs)
            oks = oks or isf
            why = "enumerate source = %s" % canon(src)[:140]
    ctx.ob(rule, decoder_path, "iterates-template-fields", oks, why)
    # (2) insert(index, (field_type, value))
    ins = [(bk, t) for bk, t, cc in b.calls() if cc is not None and cc.npath == "std::collections::BTreeMap::insert"]
    entries = map_entries(an, b)
    okk = False
    why = "no BTreeMap::insert (or BTreeMap::from([(k, v)])) next to the field decode"
    if ins or entries:
        if ins:
            key = peel(an.op(b, ins[0][1]["args"][1]))
            val = peel(an.op(b, ins[0][1]["args"][2]))
            kty = ins[0][1]["argtys"][1]
        else:
            key, val, kty = entries[0][1], entries[0][2], "usize"
        ins = ins or [(entries[0][0], {"argtys": ["", kty]})]
        kok = key[0] == "tfield" and key[2] == 0 and (is_element_expr(key[1]) or True) and "usize" in kty
        kok = kok and bool(find(key, lambda n: n[0] == "arg" or (n[0] == "some")))
        vok = val[0] == "tuple" and len(val[1]) == 2 and peel(val[1][0])[0] == "field" and peel(val[1][0])[2] == "field_type"
        vv = peel(val[1][1]) if val[0] == "tuple" and len(val[1]) == 2 else ("opaque",)
        v2 = vv[0] == "tfield" and vv[2] == 1 and vv[1][0] == "ok" and peel(vv[1][1])[0] == "call" and peel(vv[1][1])[1] == blk
        okk = bool(kok and vok and v2)
        why = "insert(%s, %s)" % (canon(key)[:80], canon(val)[:160])
    ctx.ob(rule, decoder_path, "insert(index,(field_type,value))", okk, why)
    # (3) cursor threading
    t = b.term(blk)
    cur_ops = [a for a, ty in zip(t["args"], t["argtys"]) if ty.replace("'_ ", "") in ("&[u8]",) or ty.endswith("[u8]")]
    okc = False
    why = "decode call has no byte-slice input"
    if cur_ops:
        cur = an.op(b, cur_ops[0])
        mem = peel(cur)
        members = mem[1] if mem[0] == "phi" else [mem]
        kinds = []
        for m in members:
            m = peel(m)
            if m[0] == "arg":
                kinds.append("entry")
            elif m[0] == "tfield" and m[2] == 0 and peel(m[1])[0] == "arg":
                kinds.append("accumulator")
            elif m[0] == "tfield" and m[2] == 0 and m[1][0] == "ok":
                kinds.append("remainder")
            elif m[0] == "cycle":
                kinds.append("remainder")
            else:
                kinds.append("other:" + canon(m)[:60])
        okc = set(kinds) <= {"entry", "remainder", "accumulator"} and ("remainder" in kinds or "accumulator" in kinds)
        why = "cursor members: %s" % kinds
    ctx.ob(rule, decoder_path, "cursor-threaded", okc, why)
    return R


def map_entries(an, b):
    """[(block, key expr, value expr)] for maps built as `BTreeMap::from([(k, v), ..])`."""
    out = []
    for bk, t, cc in b.calls():
        if cc is not None and cc.nsyn in ("std::convert::From::from", "std::iter::FromIterator::from_iter") and "std::collections::BTreeMap<" in (cc.id if cc.resolved else "") :
            arr = peel(an.op(b, t["args"][0]))
            if arr[0] == "array":
                for el in arr[1]:
                    el = peel(el)
                    if el[0] == "tuple" and len(el[1]) == 2:
                        out.append((bk, peel(el[1][0]), peel(el[1][1])))
    return out


def is_element_expr(e):
    e = peel(e)
    return e[0] in ("arg", "some", "cycle", "tfield")


def record_repetition_rule(ctx, prog, an, rule, decoder_path, R=None):
    """The decoder repeats 'one pass over the template's fields' once per record: the per-field decode site sits
    under at least two repetition levels (records x fields)."""
    R = R or Records(prog, an, decoder_path)
    adt = decoder_path.rsplit("::", 1)[0]
    if not R.ok:
        ctx.ob(rule, adt, "iterates-records", False, "no per-field decode site: %s" % R.why)
        return R
    lv = R.levels()
    ctx.ob(rule, adt, "iterates-records", len(lv) >= 2,
           "repetition levels above the field decode: %s%s" % (lv, "" if len(lv) >= 2 else " — fields are walked once, further records land in padding"))
    return R


def one_map_per_record_rule(ctx, prog, an, rule, decoder_path, label, R=None):
    R = R or Records(prog, an, decoder_path)
    if not R.ok:
        ctx.ob(rule, label, "one-map-per-record", False, R.why)
        return
    b, blk, c = R.site()
    ins = [bk for bk, t, cc in b.calls() if cc is not None and cc.npath == "std::collections::BTreeMap::insert"]
    ent = map_entries(an, b)
    if not ins and ent:
        # `BTreeMap::from([(index, value)])` next to the field decode: a fresh single-entry map per field
        d = R.depth_in_chain(b, ent[0][0])
        ctx.ob(rule, label, "one-map-per-record", False,
               "a fresh map is created for every field (BTreeMap::from([(k, v)]) at repetition depth %s, next to the field decode): the decoder yields one single-entry map per field, so the common view reports one 'flow' per field" % d,
               site=b.line(ent[0][0]))
        return
    if not ins:
        ctx.ob(rule, label, "one-map-per-record", False, "no BTreeMap::insert next to the field decode (unrecognised shape)")
        return
    d_ins = R.depth_in_chain(b, ins[0])
    # the map inserted into: its creation site
    news = []
    for (bb, _, _, _) in R.chain:
        for bk, t, cc in bb.calls():
            if cc is not None and cc.npath == "std::collections::BTreeMap::new":
                news.append((bb, bk, R.depth_in_chain(bb, bk)))
    ok = bool(news) and all(d is not None and d_ins is not None and d < d_ins for (_, _, d) in news)
    ctx.ob(rule, label, "one-map-per-record", ok,
           ("the record map is created at repetition depth %s and filled at depth %s (once per record, one insert per field)" % ([d for _, _, d in news], d_ins)) if ok else
           ("a fresh map is created at the same repetition depth as the insert (%s vs %s): the decoder yields one single-entry map per field, so the common view reports one 'flow' per field" % ([d for _, _, d in news], d_ins)),
           site=b.line(ins[0]))


def cursor_rule(ctx, prog, an, rule, decoder_path, R=None):
    """If a field-decode failure can be swallowed (the decoder still returns Ok), the swallowed unit must be a whole
    record: the call whose Err is handled sits at record level (depth 1) in the records parser and the returned
    remainder is only assigned there — otherwise bytes of a half-decoded record are lost (neither fields nor padding)."""
    R = R or Records(prog, an, decoder_path)
    if not R.ok:
        ctx.ob(rule, decoder_path, "record-cursor", False, R.why)
        return
    # what the records parser returns as the rest (it becomes `padding`) is, link by link, a parser's remainder:
    # records cut out by hand (`chunks_exact(size)`, `&input[n * size..]`) drop whatever a record leaves unread
    from .loopexit import cursor_integrity
    if R.F in prog.bodies:
        cursor_integrity(ctx, prog, an, rule, R.F, "records:" + decoder_path.rsplit("::", 2)[-2])
    swallowed = []
    for (b, blk, kind, c) in R.chain:
        t = b.term(blk)
        if t["k"] != "call" or t["dest"].get("p"):
            continue
        uses = uses_of_local(b, t["dest"]["l"])
        only_q = len(uses) >= 1 and all(u[0] == "callarg" and u[2][0]["func"].get("k") == "const" and Callee(u[2][0]["func"]["fn"]).nsyn == "std::ops::Try::branch" for u in uses)
        if kind in ("consumer", "closure-arg"):
            # result of fold/try_fold: look at what consumes it the same way
            pass
        if not only_q:
            swallowed.append((b, blk, c))
    if not swallowed:
        ctx.ob(rule, decoder_path, "record-cursor", True, "a field that fails to decode aborts the decoder with Err (`?` at every level): no partially consumed record can be returned")
        return
    from .c02 import underlying_locals
    for (b, blk, c) in swallowed:
        depths = loop_depths(b)
        d = depths.get(blk, 0)
        sl = an.slicer(b)
        # returned remainder local(s) of b
        cur_locals = set()
        for bk, i, s in b.stmts():
            if s["k"] == "assign" and s["place"]["l"] == 0 and s["rv"]["k"] == "aggregate" and s["rv"].get("variant") == "Ok":
                o = s["rv"]["ops"][0]
                if o.get("k") in ("copy", "move"):
                    for dd in sl.defs.get(o["place"]["l"], []):
                        if dd[0] == "assign" and dd[3]["k"] == "aggregate" and dd[3]["agg"] == "tuple":
                            c0 = dd[3]["ops"][0]
                            if c0.get("k") in ("copy", "move"):
                                cur_locals |= underlying_locals(sl, c0["place"]["l"])
        cur_locals = set(l for l in cur_locals if l > b.arg_count)
        base = min(depths.values()) if depths else 0
        deep = [(l, dd[1]) for l in cur_locals for dd in sl.defs.get(l, []) if depths.get(dd[1], 0) > base]
        ok = d <= base and not deep
        # ... and what is returned as the remainder (it becomes `padding`) is the cursor the failing call was given:
        # a remainder computed beforehand (`split_at(records * size)`) loses the bytes of the record that failed
        call_t = b.term(blk)
        carg = None
        for a, ty in zip(call_t["args"], call_t.get("argtys") or []):
            if ty.startswith("&") and ty.replace("&", "").replace("'", "").split(" ")[-1] == "[u8]" and a.get("k") in ("copy", "move"):
                carg = a["place"]["l"]
                break
        if carg is not None and cur_locals:
            fed = underlying_locals(sl, carg)
            # compare the values, not just the locals (two parts of one tuple share their local)
            okv = peel(an.interp._through("ok", an.local(b, 0)))
            rcs = []
            for m in (okv[1] if okv[0] == "phi" else [okv]):
                m = peel(m)
                if m[0] == "tuple" and m[1]:
                    rcs.append(peel(m[1][0]))
            ca = None
            for a, ty in zip(call_t["args"], call_t.get("argtys") or []):
                if a.get("k") in ("copy", "move") and a["place"]["l"] == carg:
                    ca = peel(an.op(b, a))

            def members(x):
                x = peel(x)
                return [peel(y) for y in x[1]] if x[0] == "phi" else [x]
            cam = set(canon(y) for y in members(ca)) if ca is not None else set()
            same = bool(rcs) and all(canon(rc) == canon(ca) or any(canon(y) in cam or y[0] == "cycle" for y in members(rc)) for rc in rcs)
            ctx.ob(rule, decoder_path, "returned-remainder-is-the-record-cursor", same,
                   "the remainder returned by %s %s the cursor handed to the record decoder" % (b.path, "is" if same else "is NOT (locals %s vs %s): bytes of a record that fails to decode are in neither `fields` nor `padding`" % (sorted(cur_locals), sorted(fed))),
                   site=b.line(blk))
        ctx.ob(rule, decoder_path, "record-cursor", ok,
               ("a failing %s is handled at record level in %s and the returned remainder only advances there" % (c.path.rsplit("::", 1)[-1], b.path)) if ok else
               ("a decode failure is swallowed at repetition depth %d in %s while the returned remainder is assigned at depth(s) %s: a record that fails mid-way loses the bytes already consumed (record loop depth %d)"
                % (d, b.path, sorted(set(depths.get(x[1], 0) for x in deep)) or [d], base)),
               site=b.line(blk))


# ---------------------------------------------------------------------------
# record-loop stop criterion (R5.7)

def _len_of(e):
    e = peel(e, widen=True)
    if e[0] == "call" and e[2] is not None and e[2].npath.endswith("<impl [T]>::len") and e[3]:
        return peel(e[3][0])
    return None


def _mentions_consumption(e):
    """Does e depend on what the previous record consumed (a difference of slice lengths / the per-record fold)?"""
    def hit(n):
        if n[0] == "call" and n[2] is not None:
            nn = n[2].npath
            if nn.endswith("::saturating_sub") or nn.endswith("::wrapping_sub") or nn.endswith("::checked_sub"):
                return any(_len_of(a) is not None for a in n[3])
            if n[2].nsyn in ("std::iter::Iterator::try_fold",):
                return True
        if n[0] == "binop" and n[1].replace("WithOverflow", "") == "Sub":
            return _len_of(n[2]) is not None or _len_of(n[3]) is not None
        return False
    return bool(find(e, hit))


def _template_min_sum(an, prog, e, depth=0):
    """If e is a sum over the template's fields of a per-field contribution (fold with an additive closure, or
    map + sum), return (closure body, accumulate call block) so that the contribution can be evaluated; else None."""
    e = peel(e, widen=True)
    if e[0] != "call" or e[2] is None or depth > 3:
        return None
    def fn_body(x):
        x = peel(x, identity=(), casts=False)
        while x[0] == "cast" and str(x[1]).startswith("PointerCoercion"):
            x = peel(x[2], identity=(), casts=False)
        if x[0] == "closure" and x[1] in prog.bodies:
            return prog.bodies[x[1]]
        if x[0] == "constfn" and x[1].local and x[1].path in prog.bodies:
            return prog.bodies[x[1].path]
        return None
    if e[2].nsyn == "std::iter::Iterator::fold" and len(e[3]) == 3:
        init = const_eval(e[3][1])
        clo = peel(e[3][2], identity=(), casts=False)
        if init == {0} and clo[0] == "closure" and clo[1] in prog.bodies:
            return prog.bodies[clo[1]]
        # `.map(per_field).fold(0, usize::saturating_add)`
        if init == {0} and clo[0] == "constfn" and clo[1].npath.endswith("::saturating_add"):
            it = peel(e[3][0], identity=())
            if it[0] == "call" and it[2] is not None and it[2].nsyn == "std::iter::Iterator::map" and len(it[3]) == 2:
                return fn_body(it[3][1])
    if e[2].nsyn == "std::iter::Iterator::sum" and e[3]:
        it = peel(e[3][0], identity=())
        if it[0] == "call" and it[2] is not None and it[2].nsyn == "std::iter::Iterator::map" and len(it[3]) == 2:
            return fn_body(it[3][1])
    return None


def _contribution_table(an, prog, cb):
    """Evaluate the per-field contribution of closure body cb as a function of `field_length` on a set of lengths that
    covers every constant the closure compares against (±1) and the extremes: {L: contribution or None}.
    The contribution is the non-accumulator operand of the closure's additive call, or its returned value."""
    # pure predicates / accessors the contribution is written with (`field.is_variable_length()`) are inlined
    cb = classifier_inlined(prog, cb.path) or cb
    # locals that hold <field>.field_length
    fl_locals = []
    sl = an.slicer(cb)
    for l in range(1, len(cb.locals)):
        try:
            x = peel(an.local(cb, l), widen=False)
        except RecursionError:
            continue
        if x[0] == "field" and x[2] == "field_length":
            fl_locals.append(l)
    # ... and the places that read it in place (`match self.field_length { .. }`)
    from ..mir import _placeref
    fl_places = set()

    def scan(x):
        if isinstance(x, dict):
            pr = x.get("p")
            if "l" in x and pr and pr[-1].get("k") == "field" and pr[-1].get("name") == "field_length":
                r = _placeref(x)
                if r is not None and r[0] == "p":
                    fl_places.add(r)
            for v in x.values():
                scan(v)
        elif isinstance(x, list):
            for v in x:
                scan(v)
    scan(cb.blocks)
    if not fl_locals and not fl_places:
        return None
    consts = set([0, 1, 2, 255, 256, 65534, 65535])
    for blk in range(cb.nblocks):
        t = cb.blocks[blk]["term"]
        if t["k"] == "switch":
            for v, _ in t["targets"]:
                if isinstance(v, int):
                    consts |= {v - 1, v, v + 1}
        for st in cb.blocks[blk]["stmts"]:
            if st["k"] == "assign" and st["rv"]["k"] == "binop":
                for o in (st["rv"]["a"], st["rv"]["b"]):
                    if o.get("k") == "const" and isinstance(o.get("val"), int):
                        consts |= {o["val"] - 1, o["val"], o["val"] + 1}
    consts = sorted(c for c in consts if 0 <= c <= 65535)
    # the additive call (acc.saturating_add(x) / acc + x) or the return value for map closures
    add_sites = []
    for blk, t, c in cb.calls():
        if c is not None and re.search(r"::(saturating_add|wrapping_add|checked_add)$", c.npath) and len(t["args"]) == 2:
            add_sites.append((blk, t["args"][1]))
    table = {}
    for L in consts:
        seen = []

        def obs(bk, env, L=L):
            for (ab, op) in add_sites:
                if bk == ab:
                    if op.get("k") == "const" and "val" in op:
                        seen.append(op["val"])
                    elif op.get("k") in ("copy", "move") and not op["place"].get("p"):
                        seen.append(env.get(op["place"]["l"]))
                    else:
                        seen.append(None)
            if not add_sites and cb.term(bk)["k"] == "return":
                seen.append(env.get(0))
        asm = {l: L for l in fl_locals}
        asm.update({r: L for r in fl_places})
        cb.reachable_cp(0, assume=asm, observe=obs)
        vals = set(seen)
        table[L] = next(iter(vals)) if len(vals) == 1 else None
    return table


def record_stop_rule(ctx, prog, an, rule, decoder_path, label):
    """The data-record loop may hand the rest of the set over as padding only when what is left cannot hold a record:
    its length guard must compare the remainder with a LOWER BOUND of every record's wire size under the template,
    M = sum over the template's fields of (1 for a variable-length field (65535), else its declared length) — or with
    min(M, anything).  A guard that compares with the size of the previous record drops a complete variable-length
    record that is shorter than its predecessor."""
    lay = Layouts(prog, an)
    F = records_parser_of(lay, decoder_path)
    b = prog.body(F) if F else None
    if not ctx.anchor(rule, decoder_path + " → records parser", b):
        return
    # every way out of the record loop towards the success value must be of an approved kind
    from . import loopexit
    bi = classifier_inlined(prog, b.path) or b
    dsite = None
    for blk, t, c in bi.calls():
        if c is None:
            continue
        if (c.local and c.kind == "Item" and blk in set(x for comp in bi.sccs() for x in comp)) or c.nsyn in ("std::iter::Iterator::try_fold",):
            if any(blk in comp for comp in bi.sccs()):
                dsite = blk
                break
    if dsite is not None:
        edges = loopexit.finishing_edges(an, bi, dsite)
        approved = ("zero-progress", "len-vs-expr", "len-vs-len", "result-err", "iter-exhausted", "empty")
        bad = [(u, v, k, w) for (u, v, k, w) in edges if k not in approved]
        ctx.ob(rule, b.path, "loop-exits:%s" % label, not bad,
               ("the record loop can hand the rest over as padding under a condition that is neither `shorter than any record`, `nothing consumed` nor `record failed`: %s"
                % [(k, bi.line(u)) for (u, v, k, w) in bad]) if bad else "exits of the record loop: %s" % sorted(set(k for (_, _, k, _) in edges)),
               site=bi.line(dsite))
        b = bi
    loops = [set(c) for c in b.sccs()]
    guards = []
    for blk in sorted(b.live_blocks()):
        if not any(blk in c for c in loops):
            continue
        t = b.term(blk)
        if t["k"] != "switch":
            continue
        e, neg = strip_not(an.op(b, t["op"]))
        e = peel(e)
        if e[0] != "binop" or e[1] not in ("Lt", "Le", "Gt", "Ge"):
            continue
        a, c = e[2], e[3]
        if _len_of(a) is not None and _len_of(c) is None:
            guards.append((blk, c, e[1]))
        elif _len_of(c) is not None and _len_of(a) is None:
            guards.append((blk, a, {"Lt": "Gt", "Le": "Ge", "Gt": "Lt", "Ge": "Le"}[e[1]]))
    if not guards:
        ctx.ob(rule, b.path, "stop-criterion:%s" % label, True, "no length guard in the record loop: the loop ends only by a failed / empty record (record-boundary atomicity is R9.4 / R10.6)")
        return
    for blk, X, op in guards:
        Xe = an.expand(X)
        core = peel(Xe, widen=True)
        bound = core
        via_min = False
        if core[0] == "call" and core[2] is not None and re.search(r"(::min|Ord::min)$", core[2].nsyn + "|" + core[2].npath.split("|")[0]) and len(core[3]) == 2:
            cands = [peel(x, widen=True) for x in core[3]]
            tm = [x for x in cands if _template_min_sum(an, prog, x) is not None]
            if tm:
                bound = tm[0]
                via_min = True
        cb = _template_min_sum(an, prog, bound)
        if cb is None:
            dep = _mentions_consumption(Xe)
            ctx.ob(rule, b.path, "stop-criterion:%s" % label, False,
                   "the record loop stops when the remainder is shorter than %s — %s, not a lower bound of the record size under the template: a complete variable-length record shorter than its predecessor is reported as padding"
                   % (canon(core)[:140], "the size of the previous record" if dep else "an unrecognised quantity"), site=b.line(blk))
            continue
        tab = _contribution_table(an, prog, cb)
        okc = tab is not None and all((v == (1 if L == 65535 else L)) for L, v in tab.items())
        bad = {L: v for L, v in (tab or {}).items() if v != (1 if L == 65535 else L)}
        ctx.ob(rule, b.path, "stop-criterion:%s" % label, bool(okc),
               "stop when remainder < %sΣ contribution(field_length) over the template's fields; contribution evaluated on %d lengths covering every constant the closure tests: %s"
               % ("min(.., " if via_min else "", len(tab or {}), "L for fixed lengths and 1 for 65535 — the smallest record the template allows" if okc else "differs from (L | 1 for 65535) at %s" % dict(list(bad.items())[:5])),
               site=b.line(blk))
