"""Shared rules for C09 / C10: reader/writer table agreement for the template-based protocols."""
import re

from .common import *
from .layout import Layouts, term_s
from .export import Exporter
from . import c04


def field_class(L):
    """field -> ("identity"|"transformed"|"derived", source step index or None)"""
    steps = L["steps"]
    by_block = {s["block"]: i for i, s in enumerate(steps)}
    out = {}
    for f, fi in (L.get("fields") or {}).items():
        if fi["identity"]:
            i = by_block.get(fi["src"])
            if i is not None and steps[i]["term"][0] == "value":
                out[f] = ("derived", i)
            else:
                out[f] = ("identity", i)
            continue
        used = [by_block[b] for b in fi["uses"] if b in by_block]
        wire = [i for i in used if steps[i]["term"][0] != "value"]
        through_value = [i for i in used if steps[i]["term"][0] == "value"]
        if through_value:
            # computed from an injected (zero-width) value: carries no wire bytes of its own
            out[f] = ("derived", min(through_value))
        elif wire:
            out[f] = ("transformed", min(wire))
        else:
            out[f] = ("derived", min(used) if used else None)
    return out


def struct_wire_fields(lay, path):
    """Ordered [(field, kind, width)] of the fields a nom-derive struct parser fills, in wire order.
    kind: atom / <term kind> for identity fields, "transformed" for post-processed wire values, "derived" for zero-width ones."""
    L = lay.parser_layout(path)
    if not L["ok"]:
        return None, L
    cls = field_class(L)
    out = []
    for i, s in enumerate(L["steps"]):
        t = s["term"]
        w = lay.width(t)
        here = [f for f, (k, si) in cls.items() if si == i]
        if not here and t[0] != "value":
            out.append(("∅@%s" % s["site"], t[0], w))
        for f in sorted(here):
            k = cls[f][0]
            if k == "derived":
                out.append((f, "derived", 0))
            elif k == "transformed":
                out.append((f, "transformed", w))
            else:
                kind = "atom" if w is not None and t[0] in ("prim", "map") else t[0]
                out.append((f, kind, w))
    for f, (k, si) in cls.items():
        if si is None and f not in [x[0] for x in out]:
            out.append((f, "derived", 0))
    return out, L


def coverage_rule(ctx, prog, an, rule, exporter_path, structs, variant_of, label):
    """Every wire-bearing field of every struct the parser fills is emitted, in wire order, under the right
    FlowSetBody variant; derived (zero-width) fields are not emitted."""
    lay = Layouts(prog, an)
    b = prog.body(exporter_path)
    if not ctx.anchor(rule, exporter_path, b):
        return None, None
    ex = Exporter(prog, an, b)
    flat = ex.flat()
    if flat is None:
        ctx.ob(rule, exporter_path, "result-buffer", False, "cannot identify the returned byte buffer")
        return None, None
    # events per owner struct: atoms/bytes by owner; loops by the owner of their source collection
    events = {}
    for i, (lp, cd, c) in enumerate(flat):
        if c[0] in ("atom", "bytes") and c[-1] and c[-1][0]:
            adt, fld = c[-1]
            events.setdefault(adt, []).append((i, fld.split(".")[0] if adt.endswith("ScopeDataField") else fld, cd, c, lp[-1] if lp else None))
        for src in lp:
            ow = ex._loop_owner.get(src, (None, None))
            if ow[0]:
                lst = events.setdefault(ow[0], [])
                if not any(e[1] == ow[1] and e[3][0] == "loop" and e[4] == (lp[lp.index(src) - 1] if lp.index(src) > 0 else None) for e in lst):
                    lst.append((i, ow[1], cd, ("loop", src), lp[lp.index(src) - 1] if lp.index(src) > 0 else None))
        if c[0] == "enc":
            pass
        if c[0] == "unknown":
            ctx.ob(rule, exporter_path, "unrecognised-emission:%d" % i, False, "exporter emits something the layout analysis cannot classify: %s" % (c[1],))
    total = 0
    for adt, ppath in structs:
        wf, L = struct_wire_fields(lay, ppath)
        if wf is None:
            ctx.ob(rule, ppath, "layout", False, "parser layout not recoverable: %s" % L["why"])
            continue
        ev = sorted(events.get(adt, []), key=lambda x: x[0])
        emitted = []
        for (i, fld, cd, c, grp) in ev:
            if fld not in emitted:
                emitted.append(fld)
        # every place where this struct is written (each enclosing iteration) must write all of its wire fields
        groups = {}
        containers = [fld for (i, fld, cd, c, grp) in ev if c[0] == "loop"]
        for (i, fld, cd, c, grp) in ev:
            if c[0] != "loop":
                groups.setdefault(grp, []).append(fld)
        for g in groups:
            groups[g] += containers
        expect = [f for (f, kind, w) in wf if kind != "derived" and not f.startswith("∅")]
        derived = [f for (f, kind, w) in wf if kind == "derived"]
        for f in expect:
            total += 1
            missing_in = [g for g, fl in groups.items() if f not in fl] if groups else [None]
            ok = f in emitted and not missing_in
            ctx.ob(rule, adt, "emitted:%s" % f, ok,
                   "%s.%s is %s by %s" % (adt.rsplit("::", 1)[1], f, "emitted" if ok else ("parsed from the wire but not written%s" % ((" when iterating %s" % missing_in) if f in emitted else "")), exporter_path.rsplit("::", 2)[-2] + "::to_be_bytes"))
        for f in derived:
            # `version` is injected by the parser but was consumed from the wire by the dispatcher: must be emitted
            if f == "version":
                ctx.ob(rule, adt, "emitted:version", f in emitted, "version (consumed by the dispatcher) is %s" % ("emitted" if f in emitted else "missing"))
                continue
            ctx.ob(rule, adt, "derived-not-emitted:%s" % f, f not in emitted, "derived field %s.%s %s" % (adt.rsplit("::", 1)[1], f, "is not emitted" if f not in emitted else "is emitted although it carries no wire bytes"))
        # order
        em_order = [f for f in emitted if f in expect]
        ex_order = [f for f in expect if f in emitted]
        ctx.ob(rule, adt, "wire-order", em_order == ex_order, "emission order %s; wire order %s" % (em_order, ex_order))
        # variant condition
        want = variant_of.get(adt)
        if want:
            for (i, fld, cd, c, grp) in ev:
                vs = [v for (p, v) in cd if p.endswith(".body") or p.endswith("body")]
                ok = bool(vs) and all(v in want for v in vs)
                if not ok:
                    ctx.ob(rule, adt, "under-variant:%s" % fld, False, "%s.%s is emitted under condition %s, expected FlowSetBody::%s" % (adt.rsplit("::", 1)[1], fld, cd, sorted(want)))
        # plain field encoders (no recomputation): atoms must be to_be_bytes/octets of the field itself
        for (i, fld, cd, c, grp) in ev:
            if c[0] == "atom":
                wmap = {f: w for (f, k, w) in wf if k != "derived"}
                if fld in wmap and wmap[fld] is not None:
                    ctx.ob(rule, adt, "width:%s" % fld, c[2] == wmap[fld], "emits %s bytes, parser reads %s" % (c[2], wmap[fld]))
    ctx.count("wire_fields_compared_%s" % label, total)
    return ex, flat


# ---------------------------------------------------------------------------
# value codec table (R9.2 / R10.3)

FV = "variable_versions::data_number::FieldValue"
DN = "variable_versions::data_number::DataNumber"

LOSSLESS_DECODE = {
    "std::convert::From::from_PLACEHOLDER",
    "std::slice::<impl [T]>::to_vec", "std::result::Result::map", "std::ops::Try::branch", "std::ops::FromResidual::from_residual",
    "<std::net::Ipv4Addr as std::convert::From<u32>>::from", "<std::net::Ipv6Addr as std::convert::From<u128>>::from",
    "nom::bytes::complete::take", "std::ops::Fn::call", "std::ops::FnMut::call_mut", "std::ops::FnOnce::call_once",
    "nom::combinator::map",
}
INVERSE_OF = {
    "<std::net::Ipv4Addr as std::convert::From<u32>>::from": "std::net::Ipv4Addr::octets",
    "<std::net::Ipv6Addr as std::convert::From<u128>>::from": "std::net::Ipv6Addr::octets",
}


def arm_calls(an, body, sw_block, target):
    out = []
    for blk, t, c in body.calls():
        if c is not None and body.edge_dominates((sw_block, target), blk):
            out.append((blk, t, c))
    return out


def encoder_arms(an, prog):
    """FieldValue variant -> description of FieldValue::to_be_bytes' arm; DataNumber variant -> emitted width."""
    out = {}
    dn = {}

    def switch_on(body, adtn):
        """Blocks of `body` that switch on the discriminant of a value of type adtn."""
        res = []
        sl = an.slicer(body)
        for blk in sorted(body.live_blocks()):
            t = body.term(blk)
            if t["k"] != "switch" or t["op"].get("k") not in ("copy", "move"):
                continue
            for d in sl.defs.get(t["op"]["place"]["l"], []):
                if d[0] == "assign" and d[3]["k"] == "discriminant":
                    pl = d[3]["place"]
                    ty = (pl.get("ty") or body.local_ty(pl["l"])).replace("&mut ", "").replace("&", "").strip()
                    if ty == adtn:
                        res.append(blk)
        return res

    def encoder_body(start, adtn):
        """The function that holds the per-variant encoding of adtn: `start` itself or a private function it
        delegates to (`to_be_bytes` as a thin wrapper around `write_be_bytes(&self, &mut Vec<u8>)`)."""
        seen = set()
        work = [(start, 0)]
        while work:
            p, dep = work.pop(0)
            if p in seen or p not in prog.bodies:
                continue
            seen.add(p)
            bb = prog.bodies[p]
            # a size helper (`fn encoded_len(&self) -> usize { match self {..} }`) also matches on the variants but
            # emits nothing: the encoder is the body that produces / fills bytes
            if switch_on(bb, adtn) and not re.match(r"^(usize|u\d+|i\d+|bool)$", bb.local_ty(0)):
                return bb
            if dep < 3:
                for _, _, c2 in bb.calls():
                    if c2 is not None and c2.local and c2.kind == "Item":
                        work.append((c2.path, dep + 1))
        return None

    b = encoder_body(FV + "::to_be_bytes", FV)
    db = encoder_body(b.path, DN) if b is not None else prog.body(DN + "::to_be_bytes")
    def fill(body, table, adtn, depth=0):
        adt = prog.adts[adtn]
        for blk in switch_on(body, adtn)[:1]:
            t = body.term(blk)
            for v, tb in t["targets"]:
                name = [x["name"] for x in adt["variants"] if x["vi"] == v]
                if not name or name[0] in table:
                    continue
                calls = arm_calls(an, body, blk, tb)
                names = [c.nsyn for _, _, c in calls]
                width = None
                for _, tt, c in calls:
                    m = re.match(r"^core::(num|f32|f64)::<impl ([uif]\d+)>::to_be_bytes$", c.npath)
                    if m:
                        width = int(m.group(2)[1:]) // 8        # `<impl iN / uN / fN>::to_be_bytes` writes N / 8 bytes
                    if c.npath in ("std::net::Ipv4Addr::octets",):
                        width = 4
                    if c.npath in ("std::net::Ipv6Addr::octets",):
                        width = 16
                    if c.npath.endswith("write_u24") or c.npath.endswith("write_i24"):
                        width = 3
                    if c.npath == "std::vec::Vec::push" and width is None and tt["argtys"][-1:] == ["u8"]:
                        width = 1
                fallible = any(n in ("std::convert::TryFrom::try_from", "std::result::Result::map_err") or "try_from" in n for n in names)
                table[name[0]] = {"calls": names, "width": width, "fallible": fallible}
            # the variants left to the default arm (`_ => { let mut out = ..; self.append_be_bytes(&mut out)?; .. }`)
            # are encoded by the private function that arm delegates to
            if depth < 3 and len(table) < len(adt["variants"]):
                for _, _, c2 in arm_calls(an, body, blk, t["otherwise"]):
                    if c2 is not None and c2.local and c2.kind == "Item" and c2.path != body.path:
                        nb = encoder_body(c2.path, adtn)
                        if nb is not None and nb.path != body.path:
                            fill(nb, table, adtn, depth + 1)

    for body, table, adtn in ((b, out, FV), (db, dn, DN)):
        if body is None:
            continue
        fill(body, table, adtn)
    return out, dn


def decoder_transforms(an, prog):
    """FieldDataType kind -> [non-plumbing calls made in from_field_type's arm] (transform chain)."""
    b = prog.body(c04.FFT)
    out = {}
    if b is None:
        return out
    adt = prog.adts["variable_versions::data_number::FieldDataType"]
    for blk in sorted(b.live_blocks()):
        t = b.term(blk)
        if t["k"] == "switch" and peel(an.op(b, t["op"]))[0] == "discr" and find(an.op(b, t["op"]), lambda n: n == ("arg", 2)):
            for v, tb in t["targets"]:
                name = [x["name"] for x in adt["variants"] if x["vi"] == v]
                if not name:
                    continue
                names = []

                def add_calls(body, calls, depth):
                    for c in calls:
                        if c.local and c.kind == "Item" and not c.trait and c.path in prog.bodies and c.path != c04.DN_PARSE and depth < 3:
                            # private helper: its own calls (and those of the helpers it delegates to) are the chain
                            add_calls(prog.bodies[c.path], [hc for _, _, hc in prog.bodies[c.path].calls() if hc is not None], depth + 1)
                            continue
                        names.append(c.npath if (c.npath in INVERSE_OF or not c.trait) else c.nsyn)
                add_calls(b, [c for _, tt, c in arm_calls(an, b, blk, tb)], 0)
                out[name[0]] = names
            break
    return out


def codec_rule(ctx, prog, an, rule):
    from . import c13
    prod, wt = c13.produced_kinds(an, prog)
    arms, fftb = c04.fft_arms(an, prog)
    enc, dnenc = encoder_arms(an, prog)
    trans = decoder_transforms(an, prog)
    if not ctx.anchor(rule, FV + "::to_be_bytes", enc):
        return
    n = 0
    for kind in sorted(arms):
        cons = [c for c in arms[kind] if c[0] in ("prim", "take", "datanumber", "unknown-helper")]
        variants = sorted(prod.get(kind, []))
        if cons and not variants and all(c[0] == "unknown-helper" for c in cons):
            # feature-off configuration: the helper of the Unknown arm builds no value at all (C17 R17.4), so nothing of
            # this kind is ever decoded and there is nothing to re-export
            n += 1
            ctx.ob(rule, c04.FFT, "codec:%s" % kind, True, "FieldDataType::%s is never decoded in this configuration (its helper returns no value): nothing to pair" % kind)
            continue
        if not cons or len(variants) != 1:
            ctx.ob(rule, c04.FFT, "codec:%s" % kind, False, "cannot pair decoder and encoder for FieldDataType::%s (consumers %s, variants %s)" % (kind, cons, variants))
            continue
        var = variants[0]
        e = enc.get(var)
        if e is None:
            ctx.ob(rule, FV + "::to_be_bytes", "codec:%s" % kind, False, "no encoder arm for FieldValue::%s" % var)
            continue
        c = cons[0]
        dec_calls = [x for x in trans.get(kind, []) if x not in LOSSLESS_DECODE and not x.startswith("nom::") and not x.startswith("nom_derive::")
                     and "DataNumber::parse" not in x and x not in ("nom::error::Error::new", "nom::error::make_error")]
        if c[0] == "datanumber":
            # numeric kinds: per width
            signed = c[2] == {1}
            if var == "DataNumber":
                for L in (1, 2, 3, 4, 8, 16):
                    n += 1
                    dv = wt.get((L, signed))
                    ew = dnenc.get(dv, {}).get("width")
                    ok = dv is not None and ew == L
                    ctx.ob(rule, DN + "::to_be_bytes", "codec:%s:%d" % (kind, L), ok,
                           "%d-byte %s field decodes to DataNumber::%s which is written as %s byte(s)" % (L, "signed" if signed else "unsigned", dv, ew))
            else:
                # Duration kinds: decoded from field_length bytes through DataNumber, stored as Duration
                n += 1
                ctx.ob(rule, FV + "::to_be_bytes", "codec:%s" % kind, False,
                       "decoded from 1..16 bytes via %s into FieldValue::%s; encoder writes %s byte(s) via %s%s — width and unit are not recoverable"
                       % ([x.rsplit("::", 1)[1] for x in dec_calls], var, e["width"], [x.rsplit("::", 1)[1] for x in e["calls"] if "Duration" in x or "try_from" in x], ", and can fail" if e["fallible"] else ""))
            continue
        n += 1
        if c[0] == "prim":
            okw = e["width"] == c[1]
            inv_ok = all(INVERSE_OF.get(x) in e["calls"] for x in trans.get(kind, []) if x in INVERSE_OF)
            lossy = [x for x in dec_calls if x not in INVERSE_OF]
            ctx.ob(rule, FV + "::to_be_bytes", "codec:%s" % kind, okw and inv_ok and not lossy,
                   "decoder reads %s bytes%s; encoder for FieldValue::%s writes %s bytes via %s" % (c[1], (" then " + str(lossy)) if lossy else "", var, e["width"], [x.rsplit("::", 1)[1] for x in e["calls"]][:3]))
        else:
            # take(n)-based kinds: stored payload must be the taken bytes themselves
            lossy = [x for x in dec_calls]
            enc_lossy = [x for x in e["calls"] if x not in ("std::clone::Clone::clone", "std::slice::<impl [T]>::to_vec", "std::vec::Vec::as_slice", "std::ops::Deref::deref")]
            if lossy == [] and var in ("Vec", "Unknown"):
                pass
            ok = not lossy and not enc_lossy and e["width"] is None
            ctx.ob(rule, FV + "::to_be_bytes", "codec:%s" % kind, ok,
                   "decoder takes %s byte(s)%s into FieldValue::%s; encoder writes %s" % (c[1], (" then applies " + str([x.rsplit("::", 1)[-1] for x in lossy])) if lossy else "", var,
                                                                                      ("the stored bytes" if not enc_lossy and e["width"] is None else "%s via %s" % (e["width"], [x.rsplit("::", 1)[-1] for x in e["calls"]]))))
    ctx.floor(rule, "codec", "value kinds x widths paired", n, 20)


# ---------------------------------------------------------------------------
# record cursor atomicity (R9.4 / R10.6 / R4.4)

def records_parser_of(lay, decoder_path):
    """The function that decodes the records of a data flowset: the parser behind the `fields` step."""
    L = lay.parser_layout(decoder_path)
    if not L["ok"]:
        return None
    for s in L["steps"]:
        if "fields" in s["fields"]:
            t = s["term"]
            while t[0] in ("closure",):
                t = t[2]
            if t[0] == "struct":
                return t[2]
    return None


def cursor_atomicity_rule(ctx, prog, an, rule, decoder_path):
    """The remainder returned by the record decoder (it becomes `padding`) may only advance once per complete
    record: inside the record loop the returned cursor is (re)assigned at the record loop's own nesting level,
    never inside a nested per-field repetition — otherwise the bytes of a half-decoded record are in neither
    `fields` nor `padding` and a re-export is shorter than the input."""
    from .c01 import loop_depths
    from .c02 import underlying_locals
    lay = Layouts(prog, an)
    fn = records_parser_of(lay, decoder_path)
    b = prog.body(fn) if fn else None
    if not ctx.anchor(rule, decoder_path + " → records parser", b):
        return
    sl = an.slicer(b)
    # local returned as the remainder: _0 = Ok((cursor, fields))
    cur_locals = set()
    for blk, i, s in b.stmts():
        if s["k"] == "assign" and s["place"]["l"] == 0 and s["rv"]["k"] == "aggregate" and s["rv"].get("variant") == "Ok":
            o = s["rv"]["ops"][0]
            if o.get("k") in ("copy", "move"):
                tl = o["place"]["l"]
                for d in sl.defs.get(tl, []):
                    if d[0] == "assign" and d[3]["k"] == "aggregate" and d[3]["agg"] == "tuple":
                        c0 = d[3]["ops"][0]
                        if c0.get("k") in ("copy", "move"):
                            cur_locals |= underlying_locals(sl, c0["place"]["l"])
    cur_locals = set(l for l in cur_locals if l > b.arg_count)
    depths = loop_depths(b)
    n = 0
    for l in sorted(cur_locals):
        defs = [d for d in sl.defs.get(l, []) if d[1] in depths]
        if not defs:
            continue
        base = min(depths.values())  # the outermost loop of the records parser is the record repetition
        for d in defs:
            n += 1
            ok = depths[d[1]] == base
            ctx.ob(rule, b.path, "cursor-advances-per-record", ok,
                   "returned remainder local _%d is assigned at loop depth %d (record loop depth %d)%s" % (l, depths[d[1]], base, "" if ok else " — it advances inside a nested per-field repetition, so a record failing mid-way loses the bytes already consumed"),
                   site=b.line(d[1]))
    ctx.ob(rule, b.path, "cursor-definitions-inspected", n > 0, "%d in-loop definition(s) of the returned remainder inspected" % n)
