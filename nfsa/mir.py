"""Program model over the exported facts: bodies, CFG utilities (A1), call
sites with resolved callees, instance call graph (A2), switch tables (A5)."""
import re


def norm_path(p):
    """Drop turbofish generic lists (`::<..>`) from a def path, keep `<impl T>` and
    `<X as Trait>` heads.  `std::vec::Vec::<T, A>::push` -> `std::vec::Vec::push`."""
    p = p.replace("_::_serde::", "serde::")
    out = []
    i = 0
    n = len(p)
    while i < n:
        if p.startswith("::<", i) and not p.startswith("::<impl", i):
            depth = 0
            j = i + 2
            while j < n:
                c = p[j]
                if c == "<":
                    depth += 1
                elif c == ">" and p[j - 1] != "-":
                    depth -= 1
                    if depth == 0:
                        break
                j += 1
            i = j + 1
            continue
        out.append(p[i])
        i += 1
    return "".join(out)


_LT = re.compile(r"'[a-z_][a-z0-9_]*\s?")


def strip_lifetimes(s):
    return _LT.sub("", s)


def span_line(sp):
    """'src/lib.rs:330:5: 341:6' -> ('src/lib.rs', 330)"""
    if not sp:
        return ("?", 0)
    s = sp.get("call") or sp.get("s") or ""
    m = re.match(r"^(.*?):(\d+):\d+", s)
    if not m:
        return (s, 0)
    return (m.group(1), int(m.group(2)))


def site(sp):
    f, l = span_line(sp)
    return "%s:%d" % (f, l)


INT_TY = re.compile(r"^(u8|u16|u32|u64|u128|usize|i8|i16|i32|i64|i128|isize)$")


def _opref(o):
    if o.get("k") == "const" and "val" in o:
        return ("c", o["val"])
    if o.get("k") in ("copy", "move") and not o["place"].get("p"):
        return ("l", o["place"]["l"])
    if o.get("k") in ("copy", "move"):
        return _placeref(o["place"])
    return None


def _placeref(pl):
    """("p", local, (proj, ..)) for places built from deref / field / downcast projections only."""
    pr = []
    for e in pl.get("p") or []:
        if e["k"] == "deref":
            pr.append(("deref",))
        elif e["k"] == "field":
            pr.append(("field", e["i"]))
        elif e["k"] == "downcast":
            pr.append(("downcast", e["vi"]))
        else:
            return None
    if not pr:
        return ("l", pl["l"])
    return ("p", pl["l"], tuple(pr))


def _ref_locals(r):
    if r is None:
        return []
    if r[0] in ("l", "p"):
        return [r[1]]
    return []


def _val_of(r, e, depth=0):
    """Abstract value of an operand/place reference under environment e (None = unknown).
    Values: int | ("V", variant index, discriminant value, (field values..)) | ("R", local)."""
    if r is None:
        return None
    if r[0] == "c":
        return r[1]
    v = e.get(r[1])
    if r[0] == "l":
        return v
    for pr in r[2]:
        if v is None:
            return None
        if pr[0] == "deref":
            if isinstance(v, tuple) and v[0] == "R" and depth < 4:
                v = e.get(v[1])
            else:
                return None
        elif pr[0] == "field":
            if isinstance(v, tuple) and v[0] == "V" and pr[1] < len(v[3]):
                v = v[3][pr[1]]
            else:
                return None
        elif pr[0] == "downcast":
            if not (isinstance(v, tuple) and v[0] == "V" and v[1] == pr[1]):
                return None
    return v


def _eval_eff(v, e):
    def val(r):
        x = _val_of(r, e)
        return x if isinstance(x, int) else None
    k = v[0]
    if k == "copyof":
        return e.get(v[1])
    if k == "copyval":
        return val(v[1])
    if k == "useplace":
        x = _val_of(v[1], e)
        return x if x is not None else e.get(("place",) + tuple(v[1][1:])) if v[1][0] == "p" else x
    if k == "refof":
        return ("R", v[1])
    if k == "agg":
        return ("V", v[1], v[2], tuple(_val_of(r, e) for r in v[3]))
    if k == "discr":
        x = _val_of(v[1], e)
        return x[2] if isinstance(x, tuple) and x[0] == "V" else None
    if k == "branch":
        # <Result/Option as Try>::branch: Ok(v)/Some(v) -> Continue(v) ; Err(e)/None -> Break(residual)
        x = _val_of(v[2], e)
        if not (isinstance(x, tuple) and x[0] == "V"):
            return None
        if v[1] == "Result":
            return ("V", 0, 0, x[3]) if x[1] == 0 else ("V", 1, 1, (x,))
        return ("V", 0, 0, x[3]) if x[1] == 1 else ("V", 1, 1, (x,))
    if k == "not":
        x = val(v[1])
        return None if x is None else (0 if x else 1)
    if k == "binop":
        a, b = val(v[2]), val(v[3])
        if a is None or b is None:
            return None
        op = v[1]
        if op in ("Eq", "Ne", "Lt", "Le", "Gt", "Ge"):
            return int({"Eq": a == b, "Ne": a != b, "Lt": a < b, "Le": a <= b, "Gt": a > b, "Ge": a >= b}[op])
        if op == "BitAnd":
            return a & b
        if op == "BitOr":
            return a | b
        if op == "BitXor":
            return a ^ b
        return None
    return None


class Callee:
    """Identity of a call target (syntactic + resolved)."""

    def __init__(self, fnj):
        self.raw = fnj
        self.syn_path = fnj["path"]
        self.syn_args = fnj["args"]
        self.trait = fnj.get("trait")
        r = fnj.get("resolved")
        self.resolved = r if isinstance(r, dict) else None
        if self.resolved:
            self.path = self.resolved["path"]
            self.args = self.resolved["args"]
            self.local = self.resolved["local"]
            self.crate = self.resolved["crate"]
            self.kind = self.resolved["kind"]
            self.id = self.resolved["id"]
        else:
            self.path = self.syn_path
            self.args = self.syn_args
            self.local = fnj["local"]
            self.crate = fnj["crate"]
            self.kind = "Unresolved"
            self.id = "%s%s" % (self.syn_path, self.syn_args)
        self.npath = strip_lifetimes(norm_path(self.path))
        self.nsyn = strip_lifetimes(norm_path(self.syn_path))

    def is_(self, *names):
        return self.npath in names or self.nsyn in names

    def __repr__(self):
        return "Callee(%s)" % self.id


class Body:
    def __init__(self, path, j, promoted_of=None):
        self.path = path
        self.j = j
        self.mir = j["mir"] if "mir" in j else j
        self.blocks = self.mir["blocks"]
        self.nblocks = len(self.blocks)
        self.arg_count = self.mir["arg_count"]
        self.locals = self.mir["locals"]
        self.kind = j.get("kind", "Promoted")
        self.span = j.get("span")
        self.parent_impl = j.get("parent_impl")
        self.derived = bool(self.parent_impl and self.parent_impl.get("derived"))
        self.file = span_line(self.span)[0] if self.span else "?"
        self._succ = None
        self._pred = None
        self._dom = None
        self._reach = None

    # ---- CFG -------------------------------------------------------------
    def term(self, b):
        return self.blocks[b]["term"]

    def succs(self, b):
        if self._succ is None:
            self._succ = [self._succs(i) for i in range(self.nblocks)]
        return self._succ[b]

    def _succs(self, b):
        t = self.blocks[b]["term"]
        k = t["k"]
        if k == "goto":
            return [t["t"]]
        if k == "switch":
            out = []
            for _, tb in t["targets"]:
                if tb not in out:
                    out.append(tb)
            if t["otherwise"] not in out:
                out.append(t["otherwise"])
            return out
        if k in ("call", "assert", "drop"):
            return [t["t"]] if t.get("t") is not None else []
        return []

    def preds(self, b):
        if self._pred is None:
            self._pred = [[] for _ in range(self.nblocks)]
            for i in range(self.nblocks):
                if self.blocks[i]["cleanup"]:
                    continue
                for s in self.succs(i):
                    self._pred[s].append(i)
        return self._pred[b]

    def reachable(self, start=0, without_edge=None, without_blocks=()):
        seen = set()
        stack = [start]
        wb = set(without_blocks)
        if start in wb:
            return seen
        while stack:
            b = stack.pop()
            if b in seen:
                continue
            seen.add(b)
            for s in self.succs(b):
                if without_edge and (b, s) == without_edge:
                    continue
                if s in wb:
                    continue
                if s not in seen:
                    stack.append(s)
        return seen

    def _const_assigns(self):
        """Per block: ordered list of (local, value|None) effects on whole locals (None = unknown / killed)."""
        if getattr(self, "_ca", None) is not None:
            return self._ca
        borrowed = set()
        for b in range(self.nblocks):
            for s in self.blocks[b]["stmts"]:
                if s["k"] == "assign" and s["rv"]["k"] in ("ref", "rawptr") and s["rv"].get("bk", "mut") == "mut":
                    pr = s["rv"]["place"].get("p") or []
                    # a mutable borrow of the local or of a part of it (not through a pointer it merely holds)
                    if not any(e["k"] == "deref" for e in pr):
                        borrowed.add(s["rv"]["place"]["l"])
        discr_of = getattr(self, "discr_of", None) or (lambda adt, vi: vi)
        ca = []
        for b in range(self.nblocks):
            eff = []
            for s in self.blocks[b]["stmts"]:
                if s["k"] == "setdiscr":
                    eff.append((s["place"]["l"], None))
                    continue
                if s["k"] != "assign":
                    continue
                if s["place"].get("p"):
                    # a write into a part of a local (not through a pointer): the whole local becomes unknown
                    if not any(e["k"] == "deref" for e in s["place"]["p"]):
                        eff.append((s["place"]["l"], None))
                    continue
                l = s["place"]["l"]
                rv = s["rv"]
                if rv["k"] == "use" and rv["op"].get("k") == "const" and "val" in rv["op"] and l not in borrowed:
                    eff.append((l, rv["op"]["val"]))
                elif rv["k"] == "use" and rv["op"].get("k") in ("copy", "move") and not rv["op"]["place"].get("p") and l not in borrowed:
                    eff.append((l, ("copyof", rv["op"]["place"]["l"])))
                elif rv["k"] == "use" and rv["op"].get("k") in ("copy", "move") and l not in borrowed and _placeref(rv["op"]["place"]) is not None:
                    eff.append((l, ("useplace", _placeref(rv["op"]["place"]))))
                elif rv["k"] == "copyforderef" and l not in borrowed and _placeref(rv["place"]) is not None:
                    eff.append((l, ("useplace", _placeref(rv["place"]))))
                elif rv["k"] == "ref" and rv.get("bk") != "mut" and not rv["place"].get("p") and l not in borrowed and rv["place"]["l"] not in borrowed:
                    eff.append((l, ("refof", rv["place"]["l"])))
                elif rv["k"] == "aggregate" and rv.get("agg") in ("adt", "tuple") and l not in borrowed:
                    vi = rv.get("vi", 0) or 0
                    eff.append((l, ("agg", vi, discr_of(rv.get("adt"), vi), tuple(_opref(o) for o in rv["ops"]))))
                elif rv["k"] == "discriminant" and l not in borrowed and _placeref(rv["place"]) is not None:
                    eff.append((l, ("discr", _placeref(rv["place"]))))
                elif rv["k"] == "binop" and l not in borrowed:
                    eff.append((l, ("binop", rv["op"], _opref(rv["a"]), _opref(rv["b"]))))
                elif rv["k"] == "unop" and rv["op"] == "Not" and l not in borrowed:
                    eff.append((l, ("not", _opref(rv["a"]))))
                elif rv["k"] == "cast" and rv["kind"] == "IntToInt" and l not in borrowed:
                    eff.append((l, ("copyval", _opref(rv["op"]))))
                else:
                    eff.append((l, None))
            t = self.blocks[b]["term"]
            if t["k"] == "call":
                dl = t["dest"]["l"]
                f = t["func"]
                fp = f["fn"]["path"] if f.get("k") == "const" and "fn" in f else ""
                if fp.endswith("ops::Try::branch") and not t["dest"].get("p") and dl not in borrowed and len(t["args"]) == 1:
                    aty = (t.get("argtys") or [""])[0]
                    kind = "Result" if aty.startswith(("std::result::Result<", "core::result::Result<")) else ("Option" if aty.startswith(("std::option::Option<", "core::option::Option<")) else None)
                    eff.append((dl, ("branch", kind, _opref(t["args"][0])) if kind else None, "term"))
                elif fp.endswith(("convert::From::from", "convert::Into::into")) and not t["dest"].get("p") and dl not in borrowed and len(t["args"]) == 1 \
                        and INT_TY.match((t.get("argtys") or [""])[0] or "") and INT_TY.match(self.local_ty(dl) or ""):
                    # lossless integer widening (`usize::from(x)`, `x.into()`): the value is unchanged
                    eff.append((dl, ("copyval", _opref(t["args"][0])), "term"))
                elif not t["dest"].get("p") or not any(e["k"] == "deref" for e in t["dest"]["p"]):
                    eff.append((dl, None, "term"))
            elif t["k"] == "drop" and not t["place"].get("p"):
                pass
            ca.append(eff)
        self._ca = ca
        return ca

    def reachable_cp(self, start=0, env=None, without_edge=None, without_blocks=(), limit=4000, assume=None, switch_eval=None,
                     observe=None):
        """Path-sensitive reachability: constants assigned to whole locals are propagated along each path and a
        switch on a local with a known constant follows only the matching edge (drop flags, `matches!` temporaries)."""
        ca = self._const_assigns()
        wb = set(without_blocks)
        seen_states = set()
        out = set()
        st = [(start, tuple(sorted((env or {}).items(), key=repr)))]
        n = 0
        while st:
            b, envt = st.pop()
            if b in wb or (b, envt) in seen_states:
                continue
            n += 1
            if n > limit:
                return self.reachable(start, without_edge, without_blocks)
            seen_states.add((b, envt))
            out.add(b)
            e = dict(envt)
            if assume and b == start:
                for al, av in assume.items():
                    if isinstance(al, tuple):
                        e[("place",) + tuple(al[1:])] = av      # assumption about a part of a value (see _placeref)
                    elif al <= self.arg_count:
                        e[al] = av
            t = self.blocks[b]["term"]
            effs = ca[b]
            nstm = len(effs) - (1 if (t["k"] == "call" and effs and effs[-1][0] == t["dest"]["l"] and len(effs[-1]) == 3) else 0)
            for idx, eff in enumerate(effs):
                if idx == nstm and observe is not None:
                    observe(b, e)
                l, v = eff[0], eff[1]
                if isinstance(v, tuple):
                    v = _eval_eff(v, e)
                if assume and not isinstance(l, tuple) and l in assume:
                    v = assume[l]
                if v is None:
                    e.pop(l, None)
                else:
                    e[l] = v
            if observe is not None and nstm == len(effs):
                observe(b, e)
            nxt = self.succs(b)
            if t["k"] == "switch" and t["op"].get("k") in ("copy", "move") and not t["op"]["place"].get("p"):
                v = e.get(t["op"]["place"]["l"])
                if not isinstance(v, int):
                    v = None
                if v is None and switch_eval is not None:
                    v = switch_eval(b)
                if v is not None:
                    tgt = t["otherwise"]
                    for val, tb in t["targets"]:
                        if val == v:
                            tgt = tb
                    nxt = [tgt]
            elif t["k"] == "switch" and t["op"].get("k") in ("copy", "move") and _placeref(t["op"]["place"]) is not None \
                    and (isinstance(_val_of(_placeref(t["op"]["place"]), e), int) or (assume and _placeref(t["op"]["place"]) in assume)):
                # a switch straight on a part of a value (`match self.field_length`, `match (*x).kind`)
                r = _placeref(t["op"]["place"])
                v = _val_of(r, e)
                if not isinstance(v, int):
                    v = assume[r]
                tgt = t["otherwise"]
                for val, tb in t["targets"]:
                    if val == v:
                        tgt = tb
                nxt = [tgt]
            elif t["k"] == "switch" and switch_eval is not None:
                v = switch_eval(b)
                if v is not None:
                    tgt = t["otherwise"]
                    for val, tb in t["targets"]:
                        if val == v:
                            tgt = tb
                    nxt = [tgt]
            # only keep knowledge about locals that are switched on somewhere (bounds the state space)
            keep = self._switch_locals()
            if assume or observe is not None:
                et = tuple(sorted(e.items(), key=repr))
            else:
                et = tuple(sorted((k, v) for k, v in e.items() if k in keep))
            for s in nxt:
                if without_edge and ((b, s) == without_edge or (isinstance(without_edge, (set, frozenset)) and (b, s) in without_edge)):
                    continue
                st.append((s, et))
        return out

    def _switch_locals(self):
        if getattr(self, "_swl", None) is None:
            sw = set()
            for b in range(self.nblocks):
                t = self.blocks[b]["term"]
                if t["k"] == "switch" and t["op"].get("k") in ("copy", "move") and not t["op"]["place"].get("p"):
                    sw.add(t["op"]["place"]["l"])
            # and locals copied into them
            changed = True
            ca = self._const_assigns()

            def mentioned(v):
                k = v[0]
                if k in ("copyof", "refof"):
                    return [v[1]]
                if k in ("copyval", "not"):
                    return _ref_locals(v[1])
                if k in ("useplace", "discr"):
                    return _ref_locals(v[1])
                if k == "binop":
                    return _ref_locals(v[2]) + _ref_locals(v[3])
                if k == "agg":
                    return [x for r in v[3] for x in _ref_locals(r)]
                if k == "branch":
                    return _ref_locals(v[2])
                return []
            while changed:
                changed = False
                for eff in ca:
                    for x in eff:
                        l, v = x[0], x[1]
                        if l in sw and isinstance(v, tuple):
                            for m in mentioned(v):
                                if m not in sw:
                                    sw.add(m)
                                    changed = True
            self._swl = sw
        return self._swl

    def live_blocks(self):
        if self._reach is None:
            self._reach = self.reachable(0)
        return self._reach

    def edge_dominates(self, edge, b):
        """Every path entry -> b uses CFG edge `edge` (exact: b unreachable without it)."""
        if b not in self.live_blocks():
            return True
        if b not in self.reachable(0, without_edge=edge):
            return True
        # paths that exist in the CFG but contradict the constants / enum variants established along them
        # (`helper()?` after the helper's Err return, drop flags, `matches!` temporaries) are not executions
        return b not in self._reach_cp_without_edge(edge)

    def _reach_cp_without_edge(self, edge):
        if not hasattr(self, "_rcwe"):
            self._rcwe = {}
        if edge not in self._rcwe:
            self._rcwe[edge] = self.reachable_cp(0, without_edge=edge)
        return self._rcwe[edge]

    def block_dominates(self, a, b):
        if a == b:
            return True
        if b not in self.live_blocks():
            return True
        if b not in self.reachable(0, without_blocks=(a,)):
            return True
        return b not in self.reachable_cp(0, without_blocks=(a,))

    def reaches(self, a, b, without_blocks=()):
        """Is there a path a ->+ b (at least one edge)?"""
        seen = set()
        stack = [s for s in self.succs(a) if s not in without_blocks]
        while stack:
            x = stack.pop()
            if x in seen:
                continue
            seen.add(x)
            if x == b:
                return True
            for s in self.succs(x):
                if s not in seen and s not in without_blocks:
                    stack.append(s)
        return False

    def reaching(self, target, without_blocks=()):
        """Blocks from which `target` is reachable (target included), never passing through without_blocks."""
        wb = set(without_blocks)
        seen = set()
        st = [target]
        while st:
            x = st.pop()
            if x in seen or x in wb:
                continue
            seen.add(x)
            for p in self.preds(x):
                if p not in seen and p not in wb and p in self.live_blocks():
                    st.append(p)
        return seen

    def between(self, a, b):
        """Blocks on some path a -> b that does not revisit a (a excluded, b included)."""
        fwd = set()
        st = [s for s in self.succs(a) if s != a]
        while st:
            x = st.pop()
            if x in fwd:
                continue
            fwd.add(x)
            for s in self.succs(x):
                if s != a and s not in fwd:
                    st.append(s)
        return fwd & self.reaching(b, without_blocks=(a,))

    def sccs(self):
        """Non-trivial strongly connected components of the live CFG (loops)."""
        live = self.live_blocks()
        index = {}
        low = {}
        onst = set()
        st = []
        out = []
        counter = [0]
        # iterative Tarjan
        for root in sorted(live):
            if root in index:
                continue
            work = [(root, iter(self.succs(root)))]
            index[root] = low[root] = counter[0]
            counter[0] += 1
            st.append(root)
            onst.add(root)
            while work:
                v, it = work[-1]
                adv = False
                for w in it:
                    if w not in live:
                        continue
                    if w not in index:
                        index[w] = low[w] = counter[0]
                        counter[0] += 1
                        st.append(w)
                        onst.add(w)
                        work.append((w, iter(self.succs(w))))
                        adv = True
                        break
                    elif w in onst:
                        low[v] = min(low[v], index[w])
                if adv:
                    continue
                work.pop()
                if work:
                    u = work[-1][0]
                    low[u] = min(low[u], low[v])
                if low[v] == index[v]:
                    comp = []
                    while True:
                        w = st.pop()
                        onst.discard(w)
                        comp.append(w)
                        if w == v:
                            break
                    if len(comp) > 1 or v in self.succs(v):
                        out.append(sorted(comp))
        return out

    # ---- statements / calls ---------------------------------------------
    def calls(self):
        """[(block, term, Callee|None)] for all live call terminators."""
        out = []
        for b in sorted(self.live_blocks()):
            t = self.blocks[b]["term"]
            if t["k"] in ("call", "tailcall"):
                f = t["func"]
                c = Callee(f["fn"]) if f.get("k") == "const" and "fn" in f else None
                out.append((b, t, c))
        return out

    def stmts(self):
        for b in sorted(self.live_blocks()):
            for i, s in enumerate(self.blocks[b]["stmts"]):
                yield b, i, s

    def line(self, b):
        return site(self.blocks[b]["tspan"])

    def local_ty(self, l):
        return self.locals[l]["ty"]


def _renumber(x, loff, top=True):
    """Deep copy of a MIR JSON fragment with every local index shifted by loff."""
    if isinstance(x, dict):
        out = {}
        for k, v in x.items():
            if k == "l" and isinstance(v, int) and (("k" not in x) or x.get("k") == "index"):
                out[k] = v + loff
            else:
                out[k] = _renumber(v, loff, False)
        return out
    if isinstance(x, list):
        return [_renumber(v, loff, False) for v in x]
    return x


def _retarget(term, boff):
    k = term["k"]
    if k in ("goto", "call", "assert", "drop") and term.get("t") is not None:
        term["t"] += boff
    elif k == "switch":
        term["targets"] = [[v, t + boff] for v, t in term["targets"]]
        term["otherwise"] += boff
    return term


def inline_calls(prog, body, should_inline, maxdepth=3, _stack=()):
    """CFG-level inlining: a new Body (same path) in which every live call to a crate function selected by
    `should_inline(path)` is replaced by the callee's blocks (locals and blocks renumbered, parameters assigned from
    the argument operands, each `return` replaced by `dest = move _0; goto <continuation>`). Recursion is cut by the
    call stack; callees are themselves inlined first (up to maxdepth). Returns `body` itself when nothing changes."""
    import copy
    targets = []
    for blk, t, c in body.calls():
        if c is None or not c.local or c.kind != "Item" or t["k"] != "call":
            continue
        cb = prog.bodies.get(c.path)
        if cb is None or cb.kind == "Closure" or c.path == body.path or c.path in _stack or not should_inline(c.path):
            continue
        if len(t["args"]) != cb.arg_count:
            continue
        targets.append((blk, c.path))
    if not targets:
        return body
    mir = copy.deepcopy(body.mir)
    blocks = mir["blocks"]
    locs = mir["locals"]
    inlined = []
    for blk, cpath in targets:
        cb = prog.bodies[cpath]
        if maxdepth > 1:
            cb = inline_calls(prog, cb, should_inline, maxdepth - 1, _stack + (body.path,))
        loff = len(locs)
        boff = len(blocks)
        locs.extend(copy.deepcopy(cb.mir["locals"]))
        t = blocks[blk]["term"]
        cont = t.get("t")
        tspan = blocks[blk]["tspan"]
        for cblk in cb.mir["blocks"]:
            nb = _renumber(cblk, loff)
            term = nb["term"]
            if term["k"] == "return":
                nb["stmts"].append({"k": "assign", "place": copy.deepcopy(t["dest"]), "rv": {"k": "use", "op": {"k": "move", "place": {"l": loff}}}, "span": tspan})
                nb["term"] = {"k": "goto", "t": cont} if cont is not None else {"k": "unreachable"}
            else:
                _retarget(term, boff)
            blocks.append(nb)
        for i, a in enumerate(t["args"]):
            blocks[blk]["stmts"].append({"k": "assign", "place": {"l": loff + i + 1}, "rv": {"k": "use", "op": copy.deepcopy(a)}, "span": tspan})
        blocks[blk]["term"] = {"k": "goto", "t": boff}
        inlined.append(cpath)
    j = dict(body.j)
    if "mir" in j:
        j["mir"] = mir
    else:
        j = dict(mir)
    nbdy = Body(body.path, j)
    nbdy.discr_of = prog._discr_of
    nbdy.inlined = sorted(set(inlined + list(getattr(body, "inlined", []))))
    return nbdy


class Program:
    def __init__(self, facts):
        self.facts = facts
        self.bodies = {}
        for p, j in facts["bodies"].items():
            self.bodies[p] = Body(p, j)
            self.bodies[p].discr_of = self._discr_of
        self.promoted = {}
        for p, lst in facts.get("promoted", {}).items():
            self.promoted[p] = [Body("%s::promoted[%d]" % (p, i), m) for i, m in enumerate(lst)]
        # constant items: path -> Body of the CTFE body; (trait item path, self type) -> impl const path
        self.consts = {}
        self.trait_consts = {}
        for p, j in facts.get("consts", {}).items():
            if "mir" in j:
                self.consts[p] = Body(p, {"mir": j["mir"], "kind": "Const", "span": j.get("span")})
            if j.get("trait_item") and j.get("self_ty"):
                self.trait_consts[(j["trait_item"], j["self_ty"])] = p
        self.adts = facts["adts"]
        self.nodes = facts["graph"]["nodes"]
        self.roots = {}
        self.missing_roots = []
        for r in facts["graph"]["roots"]:
            if r.get("missing"):
                self.missing_roots.append(r["root"])
            else:
                self.roots[r["root"]] = r["node"]
        self._reach = {}

    def resolve_trait_call(self, c, tmap):
        """`<S as Trait>::method` with S a type parameter instantiated by tmap -> Callee of the crate impl's method."""
        if c.kind != "Unresolved" or not c.trait or not c.syn_args:
            return None
        st = str(c.syn_args[0]).lstrip("&").strip()
        if st not in tmap:
            return None
        self_ty = tmap[st]
        method = c.syn_path.rsplit("::", 1)[-1]
        b = self.impl_fn(self_ty, c.trait, method)
        if b is None:
            return None
        fnj = {"path": b.path, "args": [], "local": True, "crate": c.crate, "trait": c.trait,
               "resolved": {"path": b.path, "args": [], "local": True, "crate": c.crate, "kind": "Item", "id": b.path}}
        return Callee(fnj)

    def _discr_of(self, adt, vi):
        """Discriminant value of variant index vi of an ADT (explicit discriminants of crate enums; else the index)."""
        a = self.facts["adts"].get(adt) if adt else None
        if a:
            for v in a["variants"]:
                if v.get("vi") == vi and v.get("discr") is not None:
                    try:
                        return int(v["discr"])
                    except (TypeError, ValueError):
                        return vi
        return vi

    def body(self, path):
        b = self.bodies.get(path)
        if b is None and isinstance(path, str) and path.endswith("::parse_be"):
            # a nom-derive decoder rewritten by hand has no `parse_be`: its `parse` is the decoder
            hb = self.bodies.get(path[:-len("_be")])
            if hb is not None and not hb.derived:
                return hb
        return b

    def inlined_body(self, path, should_inline, key=None):
        """Body of `path` with the selected private callees inlined at CFG level (cached per key)."""
        b = self.bodies.get(path)
        if b is None:
            return None
        if not hasattr(self, "_inl"):
            self._inl = {}
        k = (path, key)
        if k not in self._inl:
            self._inl[k] = inline_calls(self, b, should_inline)
        return self._inl[k]

    def impl_fn(self, self_ty, trait_ref_substr, method):
        """Body of `method` in the impl of a trait (trait_ref contains the substring) for self_ty, wherever it is defined."""
        for p, b in self.bodies.items():
            pi = b.parent_impl
            if pi and pi.get("self_ty") == self_ty and trait_ref_substr in pi.get("trait_ref", "") and p.endswith("::" + method) and b.kind != "Closure":
                return b
        return None

    def find_bodies(self, pred):
        return [b for b in self.bodies.values() if pred(b)]

    # ---- instance graph --------------------------------------------------
    def reach(self, root):
        """Set of node indices reachable from root (root name)."""
        if root in self._reach:
            return self._reach[root]
        if root not in self.roots:
            return None
        seen = set()
        st = [self.roots[root]]
        while st:
            n = st.pop()
            if n in seen:
                continue
            seen.add(n)
            st.extend(self.nodes[n]["callees"])
        self._reach[root] = seen
        return seen

    def reach_many(self, roots):
        out = set()
        for r in roots:
            s = self.reach(r)
            if s is None:
                return None
            out |= s
        return out

    def local_bodies_in(self, nodeset):
        """Body objects for the local Item/closure instances in nodeset."""
        out = {}
        for n in nodeset:
            nd = self.nodes[n]
            if nd["local"] and nd["path"] in self.bodies:
                out[nd["path"]] = self.bodies[nd["path"]]
        return out

    def graph_sccs(self, nodeset=None):
        nodes = self.nodes
        allowed = nodeset if nodeset is not None else set(range(len(nodes)))
        index = {}
        low = {}
        onst = set()
        st = []
        out = []
        c = [0]
        for root in sorted(allowed):
            if root in index:
                continue
            index[root] = low[root] = c[0]
            c[0] += 1
            st.append(root)
            onst.add(root)
            work = [(root, iter(nodes[root]["callees"]))]
            while work:
                v, it = work[-1]
                adv = False
                for w in it:
                    if w not in allowed:
                        continue
                    if w not in index:
                        index[w] = low[w] = c[0]
                        c[0] += 1
                        st.append(w)
                        onst.add(w)
                        work.append((w, iter(nodes[w]["callees"])))
                        adv = True
                        break
                    elif w in onst:
                        low[v] = min(low[v], index[w])
                if adv:
                    continue
                work.pop()
                if work:
                    u = work[-1][0]
                    low[u] = min(low[u], low[v])
                if low[v] == index[v]:
                    comp = []
                    while True:
                        w = st.pop()
                        onst.discard(w)
                        comp.append(w)
                        if w == v:
                            break
                    if len(comp) > 1 or v in nodes[v]["callees"]:
                        out.append(sorted(comp))
        return out

    def node_dominated_by(self, root, target_pred, dom_pred):
        """Call-graph dominance: every path root -> node satisfying target_pred passes
        through a node satisfying dom_pred.  Returns list of offending target nodes."""
        if root not in self.roots:
            return None
        seen = set()
        st = [self.roots[root]]
        bad = []
        while st:
            n = st.pop()
            if n in seen:
                continue
            seen.add(n)
            nd = self.nodes[n]
            if dom_pred(nd):
                continue
            if target_pred(nd):
                bad.append(nd)
            st.extend(nd["callees"])
        return bad

    def path_to(self, root, target_pred, avoid_pred=None):
        """One call-graph path root -> first node satisfying target_pred (BFS)."""
        if root not in self.roots:
            return None
        from collections import deque
        start = self.roots[root]
        prev = {start: None}
        dq = deque([start])
        while dq:
            n = dq.popleft()
            nd = self.nodes[n]
            if target_pred(nd) and n != start:
                path = []
                while n is not None:
                    path.append(self.nodes[n]["id"])
                    n = prev[n]
                return list(reversed(path))
            if avoid_pred and avoid_pred(nd) and n != start:
                continue
            for c in nd["callees"]:
                if c not in prev:
                    prev[c] = n
                    dq.append(c)
        return None
