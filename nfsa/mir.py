"""Program model over the exported facts: bodies, CFG utilities (A1), call
sites with resolved callees, instance call graph (A2), switch tables (A5)."""
import re


def norm_path(p):
    """Drop turbofish generic lists (`::<..>`) from a def path, keep `<impl T>` and
    `<X as Trait>` heads.  `std::vec::Vec::<T, A>::push` -> `std::vec::Vec::push`."""
    p = p.replace("_::_serde::", "serde::")
    out = []
    i = 0
    n = len(p)
    while i < n:
        if p.startswith("::<", i) and not p.startswith("::<impl", i):
            depth = 0
            j = i + 2
            while j < n:
                c = p[j]
                if c == "<":
                    depth += 1
                elif c == ">" and p[j - 1] != "-":
                    depth -= 1
                    if depth == 0:
                        break
                j += 1
            i = j + 1
            continue
        out.append(p[i])
        i += 1
    return "".join(out)


_LT = re.compile(r"'[a-z_][a-z0-9_]*\s?")


def strip_lifetimes(s):
    return _LT.sub("", s)


def span_line(sp):
    """'src/lib.rs:330:5: 341:6' -> ('src/lib.rs', 330)"""
    if not sp:
        return ("?", 0)
    s = sp.get("call") or sp.get("s") or ""
    m = re.match(r"^(.*?):(\d+):\d+", s)
    if not m:
        return (s, 0)
    return (m.group(1), int(m.group(2)))


def site(sp):
    f, l = span_line(sp)
    return "%s:%d" % (f, l)


def _opref(o):
    if o.get("k") == "const" and "val" in o:
        return ("c", o["val"])
    if o.get("k") in ("copy", "move") and not o["place"].get("p"):
        return ("l", o["place"]["l"])
    return None


def _eval_eff(v, e):
    def val(r):
        if r is None:
            return None
        return r[1] if r[0] == "c" else e.get(r[1])
    k = v[0]
    if k == "copyof":
        return e.get(v[1])
    if k == "copyval":
        return val(v[1])
    if k == "not":
        x = val(v[1])
        return None if x is None else (0 if x else 1)
    if k == "binop":
        a, b = val(v[2]), val(v[3])
        if a is None or b is None:
            return None
        op = v[1]
        if op in ("Eq", "Ne", "Lt", "Le", "Gt", "Ge"):
            return int({"Eq": a == b, "Ne": a != b, "Lt": a < b, "Le": a <= b, "Gt": a > b, "Ge": a >= b}[op])
        if op == "BitAnd":
            return a & b
        if op == "BitOr":
            return a | b
        if op == "BitXor":
            return a ^ b
        return None
    return None


class Callee:
    """Identity of a call target (syntactic + resolved)."""

    def __init__(self, fnj):
        self.raw = fnj
        self.syn_path = fnj["path"]
        self.syn_args = fnj["args"]
        self.trait = fnj.get("trait")
        r = fnj.get("resolved")
        self.resolved = r if isinstance(r, dict) else None
        if self.resolved:
            self.path = self.resolved["path"]
            self.args = self.resolved["args"]
            self.local = self.resolved["local"]
            self.crate = self.resolved["crate"]
            self.kind = self.resolved["kind"]
            self.id = self.resolved["id"]
        else:
            self.path = self.syn_path
            self.args = self.syn_args
            self.local = fnj["local"]
            self.crate = fnj["crate"]
            self.kind = "Unresolved"
            self.id = "%s%s" % (self.syn_path, self.syn_args)
        self.npath = strip_lifetimes(norm_path(self.path))
        self.nsyn = strip_lifetimes(norm_path(self.syn_path))

    def is_(self, *names):
        return self.npath in names or self.nsyn in names

    def __repr__(self):
        return "Callee(%s)" % self.id


class Body:
    def __init__(self, path, j, promoted_of=None):
        self.path = path
        self.j = j
        self.mir = j["mir"] if "mir" in j else j
        self.blocks = self.mir["blocks"]
        self.nblocks = len(self.blocks)
        self.arg_count = self.mir["arg_count"]
        self.locals = self.mir["locals"]
        self.kind = j.get("kind", "Promoted")
        self.span = j.get("span")
        self.parent_impl = j.get("parent_impl")
        self.derived = bool(self.parent_impl and self.parent_impl.get("derived"))
        self.file = span_line(self.span)[0] if self.span else "?"
        self._succ = None
        self._pred = None
        self._dom = None
        self._reach = None

    # ---- CFG -------------------------------------------------------------
    def term(self, b):
        return self.blocks[b]["term"]

    def succs(self, b):
        if self._succ is None:
            self._succ = [self._succs(i) for i in range(self.nblocks)]
        return self._succ[b]

    def _succs(self, b):
        t = self.blocks[b]["term"]
        k = t["k"]
        if k == "goto":
            return [t["t"]]
        if k == "switch":
            out = []
            for _, tb in t["targets"]:
                if tb not in out:
                    out.append(tb)
            if t["otherwise"] not in out:
                out.append(t["otherwise"])
            return out
        if k in ("call", "assert", "drop"):
            return [t["t"]] if t.get("t") is not None else []
        return []

    def preds(self, b):
        if self._pred is None:
            self._pred = [[] for _ in range(self.nblocks)]
            for i in range(self.nblocks):
                if self.blocks[i]["cleanup"]:
                    continue
                for s in self.succs(i):
                    self._pred[s].append(i)
        return self._pred[b]

    def reachable(self, start=0, without_edge=None, without_blocks=()):
        seen = set()
        stack = [start]
        wb = set(without_blocks)
        if start in wb:
            return seen
        while stack:
            b = stack.pop()
            if b in seen:
                continue
            seen.add(b)
            for s in self.succs(b):
                if without_edge and (b, s) == without_edge:
                    continue
                if s in wb:
                    continue
                if s not in seen:
                    stack.append(s)
        return seen

    def _const_assigns(self):
        """Per block: ordered list of (local, value|None) effects on whole locals (None = unknown / killed)."""
        if getattr(self, "_ca", None) is not None:
            return self._ca
        borrowed = set()
        for b in range(self.nblocks):
            for s in self.blocks[b]["stmts"]:
                if s["k"] == "assign" and s["rv"]["k"] in ("ref", "rawptr") and s["rv"].get("bk", "mut") == "mut" and not s["rv"]["place"].get("p"):
                    borrowed.add(s["rv"]["place"]["l"])
        ca = []
        for b in range(self.nblocks):
            eff = []
            for s in self.blocks[b]["stmts"]:
                if s["k"] != "assign" or s["place"].get("p"):
                    continue
                l = s["place"]["l"]
                rv = s["rv"]
                if rv["k"] == "use" and rv["op"].get("k") == "const" and "val" in rv["op"] and l not in borrowed:
                    eff.append((l, rv["op"]["val"]))
                elif rv["k"] == "use" and rv["op"].get("k") in ("copy", "move") and not rv["op"]["place"].get("p") and l not in borrowed:
                    eff.append((l, ("copyof", rv["op"]["place"]["l"])))
                elif rv["k"] == "binop" and l not in borrowed:
                    eff.append((l, ("binop", rv["op"], _opref(rv["a"]), _opref(rv["b"]))))
                elif rv["k"] == "unop" and rv["op"] == "Not" and l not in borrowed:
                    eff.append((l, ("not", _opref(rv["a"]))))
                elif rv["k"] == "cast" and rv["kind"] == "IntToInt" and l not in borrowed:
                    eff.append((l, ("copyval", _opref(rv["op"]))))
                else:
                    eff.append((l, None))
            t = self.blocks[b]["term"]
            if t["k"] == "call" and not t["dest"].get("p"):
                eff.append((t["dest"]["l"], None))
            ca.append(eff)
        self._ca = ca
        return ca

    def reachable_cp(self, start=0, env=None, without_edge=None, without_blocks=(), limit=4000, assume=None, switch_eval=None):
        """Path-sensitive reachability: constants assigned to whole locals are propagated along each path and a
        switch on a local with a known constant follows only the matching edge (drop flags, `matches!` temporaries)."""
        ca = self._const_assigns()
        wb = set(without_blocks)
        seen_states = set()
        out = set()
        st = [(start, tuple(sorted((env or {}).items())))]
        n = 0
        while st:
            b, envt = st.pop()
            if b in wb or (b, envt) in seen_states:
                continue
            n += 1
            if n > limit:
                return self.reachable(start, without_edge, without_blocks)
            seen_states.add((b, envt))
            out.add(b)
            e = dict(envt)
            if assume and b == start:
                for al, av in assume.items():
                    if al <= self.arg_count:
                        e[al] = av
            for (l, v) in ca[b]:
                if isinstance(v, tuple):
                    v = _eval_eff(v, e)
                if assume and l in assume:
                    v = assume[l]
                if v is None:
                    e.pop(l, None)
                else:
                    e[l] = v
            t = self.blocks[b]["term"]
            nxt = self.succs(b)
            if t["k"] == "switch" and t["op"].get("k") in ("copy", "move") and not t["op"]["place"].get("p"):
                v = e.get(t["op"]["place"]["l"])
                if v is None and switch_eval is not None:
                    v = switch_eval(b)
                if v is not None:
                    tgt = t["otherwise"]
                    for val, tb in t["targets"]:
                        if val == v:
                            tgt = tb
                    nxt = [tgt]
            elif t["k"] == "switch" and switch_eval is not None:
                v = switch_eval(b)
                if v is not None:
                    tgt = t["otherwise"]
                    for val, tb in t["targets"]:
                        if val == v:
                            tgt = tb
                    nxt = [tgt]
            # only keep knowledge about locals that are switched on somewhere (bounds the state space)
            keep = self._switch_locals()
            if assume:
                et = tuple(sorted(e.items()))
            else:
                et = tuple(sorted((k, v) for k, v in e.items() if k in keep))
            for s in nxt:
                if without_edge and (b, s) == without_edge:
                    continue
                st.append((s, et))
        return out

    def _switch_locals(self):
        if getattr(self, "_swl", None) is None:
            sw = set()
            for b in range(self.nblocks):
                t = self.blocks[b]["term"]
                if t["k"] == "switch" and t["op"].get("k") in ("copy", "move") and not t["op"]["place"].get("p"):
                    sw.add(t["op"]["place"]["l"])
            # and locals copied into them
            changed = True
            ca = self._const_assigns()
            while changed:
                changed = False
                for eff in ca:
                    for (l, v) in eff:
                        if l in sw and isinstance(v, tuple) and v[1] not in sw:
                            sw.add(v[1])
                            changed = True
            self._swl = sw
        return self._swl

    def live_blocks(self):
        if self._reach is None:
            self._reach = self.reachable(0)
        return self._reach

    def edge_dominates(self, edge, b):
        """Every path entry -> b uses CFG edge `edge` (exact: b unreachable without it)."""
        if b not in self.live_blocks():
            return True
        return b not in self.reachable(0, without_edge=edge)

    def block_dominates(self, a, b):
        if a == b:
            return True
        if b not in self.live_blocks():
            return True
        return b not in self.reachable(0, without_blocks=(a,))

    def reaches(self, a, b, without_blocks=()):
        """Is there a path a ->+ b (at least one edge)?"""
        seen = set()
        stack = [s for s in self.succs(a) if s not in without_blocks]
        while stack:
            x = stack.pop()
            if x in seen:
                continue
            seen.add(x)
            if x == b:
                return True
            for s in self.succs(x):
                if s not in seen and s not in without_blocks:
                    stack.append(s)
        return False

    def reaching(self, target, without_blocks=()):
        """Blocks from which `target` is reachable (target included), never passing through without_blocks."""
        wb = set(without_blocks)
        seen = set()
        st = [target]
        while st:
            x = st.pop()
            if x in seen or x in wb:
                continue
            seen.add(x)
            for p in self.preds(x):
                if p not in seen and p not in wb and p in self.live_blocks():
                    st.append(p)
        return seen

    def between(self, a, b):
        """Blocks on some path a -> b that does not revisit a (a excluded, b included)."""
        fwd = set()
        st = [s for s in self.succs(a) if s != a]
        while st:
            x = st.pop()
            if x in fwd:
                continue
            fwd.add(x)
            for s in self.succs(x):
                if s != a and s not in fwd:
                    st.append(s)
        return fwd & self.reaching(b, without_blocks=(a,))

    def sccs(self):
        """Non-trivial strongly connected components of the live CFG (loops)."""
        live = self.live_blocks()
        index = {}
        low = {}
        onst = set()
        st = []
        out = []
        counter = [0]
        # iterative Tarjan
        for root in sorted(live):
            if root in index:
                continue
            work = [(root, iter(self.succs(root)))]
            index[root] = low[root] = counter[0]
            counter[0] += 1
            st.append(root)
            onst.add(root)
            while work:
                v, it = work[-1]
                adv = False
                for w in it:
                    if w not in live:
                        continue
                    if w not in index:
                        index[w] = low[w] = counter[0]
                        counter[0] += 1
                        st.append(w)
                        onst.add(w)
                        work.append((w, iter(self.succs(w))))
                        adv = True
                        break
                    elif w in onst:
                        low[v] = min(low[v], index[w])
                if adv:
                    continue
                work.pop()
                if work:
                    u = work[-1][0]
                    low[u] = min(low[u], low[v])
                if low[v] == index[v]:
                    comp = []
                    while True:
                        w = st.pop()
                        onst.discard(w)
                        comp.append(w)
                        if w == v:
                            break
                    if len(comp) > 1 or v in self.succs(v):
                        out.append(sorted(comp))
        return out

    # ---- statements / calls ---------------------------------------------
    def calls(self):
        """[(block, term, Callee|None)] for all live call terminators."""
        out = []
        for b in sorted(self.live_blocks()):
            t = self.blocks[b]["term"]
            if t["k"] in ("call", "tailcall"):
                f = t["func"]
                c = Callee(f["fn"]) if f.get("k") == "const" and "fn" in f else None
                out.append((b, t, c))
        return out

    def stmts(self):
        for b in sorted(self.live_blocks()):
            for i, s in enumerate(self.blocks[b]["stmts"]):
                yield b, i, s

    def line(self, b):
        return site(self.blocks[b]["tspan"])

    def local_ty(self, l):
        return self.locals[l]["ty"]


class Program:
    def __init__(self, facts):
        self.facts = facts
        self.bodies = {}
        for p, j in facts["bodies"].items():
            self.bodies[p] = Body(p, j)
        self.promoted = {}
        for p, lst in facts.get("promoted", {}).items():
            self.promoted[p] = [Body("%s::promoted[%d]" % (p, i), m) for i, m in enumerate(lst)]
        # constant items: path -> Body of the CTFE body; (trait item path, self type) -> impl const path
        self.consts = {}
        self.trait_consts = {}
        for p, j in facts.get("consts", {}).items():
            if "mir" in j:
                self.consts[p] = Body(p, {"mir": j["mir"], "kind": "Const", "span": j.get("span")})
            if j.get("trait_item") and j.get("self_ty"):
                self.trait_consts[(j["trait_item"], j["self_ty"])] = p
        self.adts = facts["adts"]
        self.nodes = facts["graph"]["nodes"]
        self.roots = {}
        self.missing_roots = []
        for r in facts["graph"]["roots"]:
            if r.get("missing"):
                self.missing_roots.append(r["root"])
            else:
                self.roots[r["root"]] = r["node"]
        self._reach = {}

    def body(self, path):
        return self.bodies.get(path)

    def impl_fn(self, self_ty, trait_ref_substr, method):
        """Body of `method` in the impl of a trait (trait_ref contains the substring) for self_ty, wherever it is defined."""
        for p, b in self.bodies.items():
            pi = b.parent_impl
            if pi and pi.get("self_ty") == self_ty and trait_ref_substr in pi.get("trait_ref", "") and p.endswith("::" + method) and b.kind != "Closure":
                return b
        return None

    def find_bodies(self, pred):
        return [b for b in self.bodies.values() if pred(b)]

    # ---- instance graph --------------------------------------------------
    def reach(self, root):
        """Set of node indices reachable from root (root name)."""
        if root in self._reach:
            return self._reach[root]
        if root not in self.roots:
            return None
        seen = set()
        st = [self.roots[root]]
        while st:
            n = st.pop()
            if n in seen:
                continue
            seen.add(n)
            st.extend(self.nodes[n]["callees"])
        self._reach[root] = seen
        return seen

    def reach_many(self, roots):
        out = set()
        for r in roots:
            s = self.reach(r)
            if s is None:
                return None
            out |= s
        return out

    def local_bodies_in(self, nodeset):
        """Body objects for the local Item/closure instances in nodeset."""
        out = {}
        for n in nodeset:
            nd = self.nodes[n]
            if nd["local"] and nd["path"] in self.bodies:
                out[nd["path"]] = self.bodies[nd["path"]]
        return out

    def graph_sccs(self, nodeset=None):
        nodes = self.nodes
        allowed = nodeset if nodeset is not None else set(range(len(nodes)))
        index = {}
        low = {}
        onst = set()
        st = []
        out = []
        c = [0]
        for root in sorted(allowed):
            if root in index:
                continue
            index[root] = low[root] = c[0]
            c[0] += 1
            st.append(root)
            onst.add(root)
            work = [(root, iter(nodes[root]["callees"]))]
            while work:
                v, it = work[-1]
                adv = False
                for w in it:
                    if w not in allowed:
                        continue
                    if w not in index:
                        index[w] = low[w] = c[0]
                        c[0] += 1
                        st.append(w)
                        onst.add(w)
                        work.append((w, iter(nodes[w]["callees"])))
                        adv = True
                        break
                    elif w in onst:
                        low[v] = min(low[v], index[w])
                if adv:
                    continue
                work.pop()
                if work:
                    u = work[-1][0]
                    low[u] = min(low[u], low[v])
                if low[v] == index[v]:
                    comp = []
                    while True:
                        w = st.pop()
                        onst.discard(w)
                        comp.append(w)
                        if w == v:
                            break
                    if len(comp) > 1 or v in nodes[v]["callees"]:
                        out.append(sorted(comp))
        return out

    def node_dominated_by(self, root, target_pred, dom_pred):
        """Call-graph dominance: every path root -> node satisfying target_pred passes
        through a node satisfying dom_pred.  Returns list of offending target nodes."""
        if root not in self.roots:
            return None
        seen = set()
        st = [self.roots[root]]
        bad = []
        while st:
            n = st.pop()
            if n in seen:
                continue
            seen.add(n)
            nd = self.nodes[n]
            if dom_pred(nd):
                continue
            if target_pred(nd):
                bad.append(nd)
            st.extend(nd["callees"])
        return bad

    def path_to(self, root, target_pred, avoid_pred=None):
        """One call-graph path root -> first node satisfying target_pred (BFS)."""
        if root not in self.roots:
            return None
        from collections import deque
        start = self.roots[root]
        prev = {start: None}
        dq = deque([start])
        while dq:
            n = dq.popleft()
            nd = self.nodes[n]
            if target_pred(nd) and n != start:
                path = []
                while n is not None:
                    path.append(self.nodes[n]["id"])
                    n = prev[n]
                return list(reversed(path))
            if avoid_pred and avoid_pred(nd) and n != start:
                continue
            for c in nd["callees"]:
                if c not in prev:
                    prev[c] = n
                    dq.append(c)
        return None
