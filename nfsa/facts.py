"""Fact acquisition: run the rustc_private driver on /repo's *current working
tree* (never a snapshot), cache by content hash, load JSON.

Nothing here executes netflow_parser code: the driver stops after analysis
(`cargo check`), it only reads the compiler's MIR / type tables.
"""
import fcntl
import hashlib
import json
import os
import subprocess
import sys
import time

VERIF = os.path.dirname(os.path.dirname(os.path.abspath(__file__)))
REPO = os.environ.get("NFSA_REPO", "/repo")
CACHE = os.path.join(VERIF, ".cache")
DRIVER_DIR = os.path.join(VERIF, "driver")
DRIVER_BIN = os.path.join(DRIVER_DIR, "target", "release", "nfsa-driver")

ROOTS = [
    "NetflowParser::parse_bytes",
    "NetflowParser::parse_bytes_as_netflow_common_flowsets",
    "NetflowPacket::as_netflow_common",
    "static_versions::v5::V5::to_be_bytes",
    "static_versions::v7::V7::to_be_bytes",
    "variable_versions::v9::V9::to_be_bytes",
    "variable_versions::ipfix::IPFix::to_be_bytes",
    "variable_versions::data_number::FieldValue::to_be_bytes",
    "@serde::ser::Serialize|NetflowPacket|serialize",
]

# configuration name -> (cargo args, extra rustflags)
CONFIGS = {
    "default": ([], ""),
    "nofeat": (["--no-default-features"], ""),
    "default-nochecks": ([], "-Coverflow-checks=off -Cdebug-assertions=off"),
    "nofeat-nochecks": (["--no-default-features"], "-Coverflow-checks=off -Cdebug-assertions=off"),
}


class FactsError(Exception):
    def __init__(self, msg, log=""):
        Exception.__init__(self, msg)
        self.log = log


def _sha_files(root, rels):
    h = hashlib.sha256()
    for rel in sorted(rels):
        p = os.path.join(root, rel)
        h.update(rel.encode())
        h.update(b"\0")
        try:
            with open(p, "rb") as f:
                h.update(f.read())
        except OSError:
            h.update(b"<missing>")
        h.update(b"\0")
    return h.hexdigest()


def tree_files(repo=None):
    repo = repo or REPO
    rels = []
    for top in ("Cargo.toml", "Cargo.lock", "build.rs", "rust-toolchain.toml", "rust-toolchain"):
        if os.path.exists(os.path.join(repo, top)):
            rels.append(top)
    for sub in ("src", ".cargo"):
        base = os.path.join(repo, sub)
        for dp, dn, fn in os.walk(base):
            dn.sort()
            for f in fn:
                rels.append(os.path.relpath(os.path.join(dp, f), repo))
    return rels


def tree_hash(repo=None):
    repo = repo or REPO
    return _sha_files(repo, tree_files(repo))[:20]


def driver_hash():
    rels = []
    for dp, dn, fn in os.walk(os.path.join(DRIVER_DIR, "src")):
        for f in fn:
            rels.append(os.path.relpath(os.path.join(dp, f), DRIVER_DIR))
    rels += ["Cargo.toml", "run.sh"]
    return _sha_files(DRIVER_DIR, rels)[:12]


def ensure_driver():
    """Build the driver if its binary is missing or older than its sources."""
    stamp = os.path.join(DRIVER_DIR, "target", "release", ".nfsa-src-hash")
    want = driver_hash()
    try:
        have = open(stamp).read().strip()
    except OSError:
        have = ""
    if os.path.exists(DRIVER_BIN) and have == want:
        return
    env = dict(os.environ, CARGO_NET_OFFLINE="true")
    r = subprocess.run(
        ["cargo", "build", "--release", "--offline"],
        cwd=DRIVER_DIR, env=env, stdout=subprocess.PIPE, stderr=subprocess.STDOUT, text=True,
    )
    if r.returncode != 0 or not os.path.exists(DRIVER_BIN):
        raise FactsError("driver build failed", r.stdout)
    with open(stamp, "w") as f:
        f.write(want)


def _nightly_sysroot():
    r = subprocess.run(["rustc", "+nightly", "--print", "sysroot"], stdout=subprocess.PIPE, text=True)
    return r.stdout.strip()


def _prune_cache(keep=None):
    # the self-validation runs (hundreds of scratch trees) set NFSA_CACHE_KEEP higher so that they do not evict one another
    if keep is None:
        try:
            keep = int(os.environ.get("NFSA_CACHE_KEEP", "120"))
        except ValueError:
            keep = 120
    try:
        for f in os.listdir(CACHE):
            if f.startswith(".lock-"):
                fp = os.path.join(CACHE, f)
                try:
                    if time.time() - os.path.getmtime(fp) > 3600:
                        os.unlink(fp)
                except OSError:
                    pass
        ents = [os.path.join(CACHE, f) for f in os.listdir(CACHE) if f.startswith("facts-")]
    except OSError:
        return
    def mt(p):
        try:
            return os.path.getmtime(p)
        except OSError:
            return 0
    ents.sort(key=mt, reverse=True)
    now = time.time()
    for p in ents[keep:]:
        # never remove an entry another process may be about to read
        if now - mt(p) < 900:
            continue
        try:
            os.unlink(p)
        except OSError:
            pass


def extract(repo, cfg, out, roots=None):
    """Run the driver once; returns (ok, log)."""
    cargo_args, extra_flags = CONFIGS[cfg]
    ensure_driver()
    env = dict(os.environ)
    env["NFSA_ROOTS"] = ";".join(roots or ROOTS)
    env["NFSA_RUSTFLAGS"] = extra_flags
    env["CARGO_NET_OFFLINE"] = "true"
    env.pop("RUSTC_WRAPPER", None)
    if os.path.exists(out):
        os.unlink(out)
    r = subprocess.run(
        [os.path.join(DRIVER_DIR, "run.sh"), repo, out] + cargo_args,
        env=env, stdout=subprocess.PIPE, stderr=subprocess.STDOUT, text=True,
    )
    ok = r.returncode == 0 and os.path.exists(out)
    return ok, r.stdout


def get(cfg="default", repo=None, use_cache=True):
    """Facts for /repo's current working tree in configuration `cfg`.

    Raises FactsError when the crate does not compile in that configuration.
    """
    repo = repo or REPO
    os.makedirs(CACHE, exist_ok=True)
    th = tree_hash(repo)
    key = "facts-%s-%s-%s" % (th, cfg, driver_hash())
    path = os.path.join(CACHE, key + ".json")
    fail = os.path.join(CACHE, key + ".fail")
    lock = open(os.path.join(CACHE, ".lock-" + key), "w")
    fcntl.flock(lock, fcntl.LOCK_EX)
    try:
        if use_cache and os.path.exists(path):
            pass
        elif use_cache and os.path.exists(fail):
            raise FactsError("crate does not compile in configuration %s" % cfg, open(fail).read())
        else:
            t0 = time.time()
            tmp = path + ".tmp.%d" % os.getpid()
            ok, log = extract(repo, cfg, tmp)
            if not ok:
                with open(fail, "w") as f:
                    f.write(log)
                raise FactsError("crate does not compile in configuration %s" % cfg, log)
            os.rename(tmp, path)
            sys.stderr.write("[nfsa] extracted facts cfg=%s tree=%s in %.1fs\n" % (cfg, th, time.time() - t0))
            _prune_cache()
        with open(path) as f:
            facts = json.load(f)
    finally:
        fcntl.flock(lock, fcntl.LOCK_UN)
        lock.close()
    facts["_tree_hash"] = th
    facts["_cfg"] = cfg
    os.utime(path, None)
    return facts
