"""Forward must-analysis: which byte-slice values are tails of which others ("suffix facts").

A nom parser returns the *remaining* input: a tail of what it was given.  The analysis tracks that relation through one
MIR body: copies and reborrows (equal), the remainder component of a parser result through `?` / `Try::branch` /
downcasts / tuple fields, `&s[n..]`, and `len()` of related slices.  Crate-local parsers (functions and closures whose
return type is `Result<(&[u8], T), nom::Err<_>>`) are not trusted but summarised by the same analysis
(`tail_params`: the parameters the returned remainder is always a tail of); external parsers are nom's, whose
combinators return a tail provided the parsers handed to them do - every crate-local parser mentioned in the callee's
type is therefore summarised first.  Used to discharge `a.len() - b.len()` when b is a tail of a.

Abstract state: {(kind, local): frozenset(tokens) | ALL}
  kinds  S  the local is a &[u8]; it is a tail of every token
         T  tuple whose .0 is such a slice;  R  Result whose Ok.0.0 is;  C  ControlFlow whose Continue.0.0 is
         NU integer n <= len(token) for every token;  NL len(token) <= n for every token
         TC tuple components (tuple of local numbers), for argument tuples of Fn::call
  tokens: a local number (its current value) or ("p", i) (the value parameter i had on entry; never killed)
Join = intersection; ALL (no constraint: an Err / Break value, or an unvisited predecessor) is its identity.
"""
import re
from .mir import Callee

ALL = "ALL"
SLICE_RE = re.compile(r"^&('\w+ )?(mut )?\[u8\]$")
PARSER_RE = re.compile(r"^std::result::Result<\(&('\w+ )?\[u8\], .*\), nom::Err<")
TUPLE0_RE = re.compile(r"^\(&('\w+ )?\[u8\],")
TRUSTED_CRATES = ("nom", "nom_derive")
FN_CALLS = ("std::ops::Fn::call", "std::ops::FnMut::call_mut", "std::ops::FnOnce::call_once")
LEN = ("core::slice::<impl [T]>::len",)


def is_slice(ty):
    return bool(SLICE_RE.match(ty or ""))


def is_parser_ret(ty):
    return bool(PARSER_RE.match(ty or ""))


def _join(a, b):
    if a is None:
        return b
    if b is None:
        return a
    out = {}
    for k in set(a) & set(b):
        x, y = a[k], b[k]
        if x == ALL:
            out[k] = y
        elif y == ALL:
            out[k] = x
        elif k[0] == "TC":
            if x == y:
                out[k] = x
        else:
            out[k] = x & y
    # a key missing on one side means "no fact" there, except ALL-valued carriers which only exist where assigned
    return out


class Suffix:
    def __init__(self, prog):
        self.prog = prog
        self._facts = {}
        self._summary = {}
        self._in_progress = set()
        self._by_closure_ty = None

    # ---- summaries ---------------------------------------------------------------------------------------------
    def parser_bodies(self):
        return {p: b for p, b in self.prog.bodies.items() if is_parser_ret(b.local_ty(0))}

    def tail_params(self, body):
        """Parameters p (1-based locals) such that on every return the Ok remainder is a tail of p's entry value."""
        key = id(body)
        if key in self._summary:
            return self._summary[key]
        if key in self._in_progress:
            # coinductive hypothesis: a safety property; assume it for the recursive use
            return set(range(1, body.arg_count + 1))
        self._in_progress.add(key)
        try:
            st = self.facts(body)
            res = None
            for blk in sorted(body.live_blocks()):
                if body.term(blk)["k"] != "return":
                    continue
                s = st["out"].get(blk)
                if s is None:
                    continue
                v = s.get(("R", 0), s.get(("T", 0), s.get(("S", 0), frozenset())))
                ps = set(range(1, body.arg_count + 1)) if v == ALL else {t[1] for t in v if isinstance(t, tuple) and t[0] == "p"}
                res = ps if res is None else (res & ps)
            res = res or set()
        finally:
            self._in_progress.discard(key)
        self._summary[key] = res
        return res

    def _closure_bodies(self, ty, param_ty=None):
        """Crate closures of this type.  Closures written inside one attribute string share a span (and so a printed
        type); they are told apart by the type of their first parameter, and callers require the property of all."""
        if self._by_closure_ty is None:
            self._by_closure_ty = {}
            for p, b in self.prog.bodies.items():
                if b.kind == "Closure" and b.span:
                    self._by_closure_ty.setdefault("{closure@%s}" % b.span["s"], []).append(b)
        t = re.sub(r"^&('\w+ )?(mut )?", "", (ty or "").strip())
        cands = self._by_closure_ty.get(t, [])
        if len(cands) > 1 and param_ty is not None:
            cands = [b for b in cands if b.arg_count >= 2 and b.local_ty(2) == param_ty]
        return cands

    def _closure_tail(self, ty, param, param_ty=None):
        cands = self._closure_bodies(ty, param_ty)
        return bool(cands) and all(param in self.tail_params(b) for b in cands)

    def _local_body(self, c):
        if not hasattr(self, "_norm"):
            from .mir import strip_lifetimes, norm_path
            self._norm = {}
            for p, b in self.prog.bodies.items():
                self._norm.setdefault(strip_lifetimes(norm_path(p)), b)
        return self.prog.bodies.get(c.path) or self.prog.bodies.get(c.npath) or self._norm.get(c.npath)

    def _mentions_ok(self, text):
        """Every crate-local parser named in a callee's type is itself tail-returning."""
        self._closure_bodies("")
        for tok in set(re.findall(r"\{closure@[^{}]*\}", text)):
            for b in self._by_closure_ty.get(tok, []):
                if is_parser_ret(b.local_ty(0)) and not self.tail_params(b):
                    return False
        for m in set(re.findall(r"\{((?:<[^{}]*>|[\w:]+)[^{}]*)\}", text)):
            b = self.prog.bodies.get(m) or self.prog.bodies.get(re.sub(r"<&'?\w* ?\[u8\]>", "<&'nom [u8]>", m))
            if b is not None and is_parser_ret(b.local_ty(0)) and not self.tail_params(b):
                return False
            if b is None and "{closure" not in m and re.search(r"\b(crate|self)\b", m):
                return False
        return True

    # ---- per-body facts ----------------------------------------------------------------------------------------
    def facts(self, body):
        key = id(body)
        if key in self._facts:
            return self._facts[key]
        escaped = set()
        for blk, i, s in body.stmts():
            if s["k"] == "assign" and s["rv"]["k"] in ("ref", "addr") and s["rv"].get("bk") != "shared":
                pl = s["rv"]["place"]
                if not any(p["k"] == "deref" for p in pl.get("p", [])):
                    escaped.add(pl["l"])
        entry = {}
        for p in range(1, body.arg_count + 1):
            ty = body.local_ty(p)
            if p in escaped:
                continue
            if is_slice(ty):
                entry[("S", p)] = frozenset([("p", p)])
            elif TUPLE0_RE.match(ty):
                entry[("T", p)] = frozenset([("p", p)])
        ins = {0: entry}
        outs = {}
        at_term = {}
        work = [0]
        n = 0
        while work:
            b = work.pop()
            n += 1
            if n > 20000:
                break
            st = dict(ins[b])
            for s in body.blocks[b]["stmts"]:
                self._stmt(body, st, s, escaped)
            at_term[b] = dict(st)
            t = body.term(b)
            if t["k"] in ("call", "tailcall"):
                self._call(body, st, t, escaped)
            outs[b] = st
            for sc in body.succs(b):
                old = ins.get(sc)
                new = _join(old, st)
                if old is None or new != old:
                    ins[sc] = new
                    if sc not in work:
                        work.append(sc)
        res = {"in": ins, "out": outs, "at_term": at_term}
        self._facts[key] = res
        return res

    # ---- transfer ----------------------------------------------------------------------------------------------
    @staticmethod
    def _kill(st, x):
        for k in [k for k in st if k[1] == x]:
            del st[k]
        for k, v in list(st.items()):
            if v == ALL:
                continue
            if k[0] == "TC":
                if x in v:
                    del st[k]
            elif x in v:
                st[k] = v - {x}

    @staticmethod
    def _oplocal(op):
        if op.get("k") in ("copy", "move") and not op["place"].get("p"):
            return op["place"]["l"]
        return None

    def _set_equal(self, st, x, s):
        """x := s where both are slices holding the same value."""
        v = st.get(("S", s))
        base = frozenset() if v in (None, ALL) else v
        st[("S", x)] = base | {s}
        st[("S", s)] = base | {x} if v != ALL else frozenset([x])
        for k, w in list(st.items()):
            if k[0] in ("S", "T", "R", "C", "NU", "NL", "P") and w != ALL and s in w and k != ("S", x):
                st[k] = w | {x}

    def _stmt(self, body, st, s, escaped):
        if s["k"] != "assign":
            return
        x = s["place"]["l"]
        if s["place"].get("p"):
            if not any(p["k"] == "deref" for p in s["place"]["p"]):
                self._kill(st, x)
            return
        rv = s["rv"]
        new = {}
        eq = None
        if rv["k"] == "use" and rv["op"].get("k") in ("copy", "move"):
            pl = rv["op"]["place"]
            src, proj = pl["l"], pl.get("p", [])
            ks = [p["k"] for p in proj]
            if not proj:
                for kind in ("T", "R", "C", "NU", "NL", "TC", "P"):
                    if (kind, src) in st:
                        new[(kind, x)] = st[(kind, src)]
                if is_slice(body.local_ty(src)) and src not in escaped and src != x:
                    eq = src
            elif ks == ["field"] and proj[0]["i"] == 0 and ("T", src) in st:
                new[("S", x)] = st[("T", src)]
            elif ks == ["deref"] and ("P", src) in st and is_slice(body.local_ty(x)):
                new[("S", x)] = st[("P", src)]
            elif ks == ["downcast", "field"] and proj[1]["i"] == 0:
                if proj[0].get("variant") == "Continue" and ("C", src) in st:
                    new[("T", x)] = st[("C", src)]
                elif proj[0].get("variant") == "Ok" and ("R", src) in st:
                    new[("T", x)] = st[("R", src)]
            elif ks == ["downcast", "field", "field"] and proj[1]["i"] == 0 and proj[2]["i"] == 0:
                if proj[0].get("variant") == "Continue" and ("C", src) in st:
                    new[("S", x)] = st[("C", src)]
                elif proj[0].get("variant") == "Ok" and ("R", src) in st:
                    new[("S", x)] = st[("R", src)]
        elif rv["k"] == "ref" and rv.get("bk") == "shared":
            pl = rv["place"]
            ks = [p["k"] for p in pl.get("p", [])]
            proj = pl.get("p", [])
            if ks == ["deref"] and is_slice(body.local_ty(pl["l"])) and pl["l"] not in escaped and pl["l"] != x:
                eq = pl["l"]
            elif ks == ["downcast", "field", "field"] and proj[1]["i"] == 0 and proj[2]["i"] == 0:
                # `ref tail` binding of a match guard: a pointer to the remainder inside the result
                src = pl["l"]
                if proj[0].get("variant") == "Ok" and ("R", src) in st:
                    new[("P", x)] = st[("R", src)]
                elif proj[0].get("variant") == "Continue" and ("C", src) in st:
                    new[("P", x)] = st[("C", src)]
            elif ks == ["field"] and proj[0]["i"] == 0 and ("T", pl["l"]) in st:
                new[("P", x)] = st[("T", pl["l"])]
            elif not ks and is_slice(body.local_ty(pl["l"])) and pl["l"] not in escaped:
                v0 = st.get(("S", pl["l"]))
                new[("P", x)] = (frozenset() if v0 in (None, ALL) else v0) | {pl["l"]}
        elif rv["k"] == "aggregate":
            ops = rv.get("ops", [])
            if rv.get("agg") == "tuple" and ops:
                comps = tuple(self._oplocal(o) for o in ops)
                if all(c is not None for c in comps):
                    new[("TC", x)] = comps
                s0 = comps[0]
                if s0 is not None and is_slice(body.local_ty(s0)) and s0 not in escaped:
                    v = st.get(("S", s0))
                    new[("T", x)] = (frozenset() if v in (None, ALL) else v) | {s0}
            elif rv.get("agg") == "adt" and rv.get("adt") in ("std::result::Result", "std::ops::ControlFlow"):
                good = "Ok" if rv["adt"] == "std::result::Result" else "Continue"
                kind = "R" if rv["adt"] == "std::result::Result" else "C"
                if rv.get("variant") != good:
                    new[(kind, x)] = ALL
                elif ops:
                    s0 = self._oplocal(ops[0])
                    if s0 is not None and ("T", s0) in st:
                        new[(kind, x)] = st[("T", s0)]
        self._kill(st, x)
        if x in escaped:
            return
        for k, v in new.items():
            if v != ALL and k[0] != "TC":
                v = v - {x}
            elif k[0] == "TC" and x in v:
                continue
            st[k] = v
        if eq is not None and is_slice(body.local_ty(x)):
            self._set_equal(st, x, eq)

    def _tail_of(self, st, s):
        v = st.get(("S", s))
        return (frozenset() if v in (None, ALL) else v) | {s}

    def _call(self, body, st, t, escaped):
        dest = t.get("dest")
        if not dest:
            return
        x = dest["l"]
        if dest.get("p"):
            self._kill(st, x)
            return
        f = t["func"]
        c = Callee(f["fn"]) if f.get("k") == "const" and "fn" in f else None
        args = [self._oplocal(a) for a in t.get("args", [])]
        argtys = t.get("argtys", [])
        dty = body.local_ty(x)
        new = {}
        if c is not None:
            if c.nsyn == "std::ops::Try::branch" and args and ("R", args[0]) in st:
                new[("C", x)] = st[("R", args[0])]
            elif c.nsyn == "std::ops::FromResidual::from_residual" and is_parser_ret(dty):
                new[("R", x)] = ALL
            elif c.is_(*LEN) and args and args[0] is not None and is_slice(body.local_ty(args[0])) and args[0] not in escaped:
                s = args[0]
                new[("NU", x)] = self._tail_of(st, s)
                new[("NL", x)] = frozenset([s]) | frozenset(k[1] for k, v in st.items() if k[0] == "S" and v != ALL and s in v)
            elif re.search(r"result::Result(<T, E>)?::map_err$", c.npath):
                if args and ("R", args[0]) in st:
                    new[("R", x)] = st[("R", args[0])]
            elif re.search(r"result::Result(<T, E>)?::(map|and_then)$", c.npath) and len(args) == 2 and args[0] is not None and ("R", args[0]) in st and is_parser_ret(dty):
                if self._closure_tail(argtys[1], 2, str((c.args or [None])[0])):
                    new[("R", x)] = st[("R", args[0])]
            elif re.search(r"ops::Index<I>.*::index$|ops::Index::index$", c.nsyn + "|" + c.npath) and is_slice(dty) and len(argtys) == 2 \
                    and argtys[1].startswith("std::ops::RangeFrom<") and args[0] is not None and is_slice(body.local_ty(args[0])) and args[0] not in escaped:
                new[("S", x)] = self._tail_of(st, args[0])
            elif c.nsyn == "std::iter::Iterator::try_fold" and is_parser_ret(dty) and len(args) == 3 and args[1] is not None and ("T", args[1]) in st:
                if self._closure_tail(argtys[2], 2, argtys[1]):
                    new[("R", x)] = st[("T", args[1])]
            elif is_parser_ret(dty):
                new.update(self._parser_call(body, st, t, c, args, argtys, x, escaped))
        self._kill(st, x)
        if x in escaped:
            return
        for k, v in new.items():
            st[k] = v if v == ALL else v - {x}

    def _parser_call(self, body, st, t, c, args, argtys, x, escaped):
        """Result of applying a parser: its Ok remainder is a tail of the cursor argument(s)."""
        cursors = None  # list of slice locals handed in
        callee_body = None
        param_of = {}   # callee param local -> caller slice local
        if c.nsyn in FN_CALLS and len(args) == 2:
            comps = st.get(("TC", args[1])) if args[1] is not None else None
            if not comps:
                return {}
            cursors = [l for l in comps if is_slice(body.local_ty(l))]
            cb = self._local_body(c) if c.local else None
            if cb is None and c.local:
                return {}
            if cb is not None:
                callee_body = cb
                for i, l in enumerate(comps):
                    param_of[2 + i] = l
            elif c.crate in TRUSTED_CRATES or re.match(r"^&?(mut )?(fn\(|impl )", argtys[0]):
                if not self._mentions_ok(argtys[0] + " " + " ".join(map(str, c.args or []))):
                    return {}
                if argtys[0].lstrip("&mut ").startswith("fn("):
                    # a fn item / fn pointer value: only crate-local items named in the type are checked above
                    if "{" not in argtys[0]:
                        return {}
            else:
                return {}
        else:
            cursors = [l for l, ty in zip(args, argtys) if l is not None and is_slice(ty)]
            if len(cursors) != sum(1 for ty in argtys if is_slice(ty)):
                return {}
            if c.local:
                callee_body = self._local_body(c)
                if callee_body is None:
                    return {}
                for i, l in enumerate(args):
                    param_of[1 + i] = l
            elif c.crate in TRUSTED_CRATES:
                if not self._mentions_ok(" ".join(map(str, c.args or []))):
                    return {}
            else:
                return {}
        if callee_body is not None:
            ps = self.tail_params(callee_body)
            rel = None
            for p in ps:
                l = param_of.get(p)
                if l is None or l in escaped:
                    continue
                if is_slice(body.local_ty(l)):
                    v = self._tail_of(st, l)
                elif ("T", l) in st and st[("T", l)] != ALL:
                    v = st[("T", l)]
                else:
                    continue
                rel = v if rel is None else (rel | v)
            return {("R", x): rel} if rel else {}
        if not cursors or any(l in escaped for l in cursors):
            return {}
        rel = None
        for l in cursors:
            v = self._tail_of(st, l)
            rel = v if rel is None else (rel & v)
        return {("R", x): rel} if rel else {}

    # ---- queries -----------------------------------------------------------------------------------------------
    def sub_is_safe(self, body, blk, a_op, b_op):
        """`a - b` at the terminator of blk: a = len(A), b = len(B) with B a tail of A."""
        a, b = self._oplocal(a_op), self._oplocal(b_op)
        if a is None or b is None:
            return None
        st = self.facts(body)["at_term"].get(blk)
        if st is None:
            return None
        nu, nl = st.get(("NU", b)), st.get(("NL", a))
        if not nu or not nl or nu == ALL or nl == ALL:
            return None
        common = nu & nl
        return sorted(common, key=repr) if common else None
