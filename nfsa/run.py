"""Driver for ./check: argument handling, lazy fact loading, rule dispatch."""
import importlib
import json
import os
import sys
import traceback

from . import engine, facts
from .mir import Program

PROPS = ["C%02d" % i for i in range(1, 18)]


class Env:
    """Lazy access to facts/programs for the configurations a rule needs."""

    def __init__(self, ctx):
        self.ctx = ctx
        self._progs = {}
        self._errs = {}

    primary = "default"

    def prog(self, cfg="default"):
        if cfg == "default":
            cfg = self.primary
        if cfg in self._progs:
            return self._progs[cfg]
        if cfg in self._errs:
            raise self._errs[cfg]
        try:
            f = facts.get(cfg)
        except facts.FactsError as e:
            self._errs[cfg] = e
            raise
        p = Program(f)
        self._progs[cfg] = p
        c = f["config"]
        self.ctx.configs.append({"name": cfg, "features": c["features"], "overflow_checks": c["overflow_checks"],
                                 "debug_assertions": c["debug_assertions"], "rustc": c["rustc"], "tree_hash": f["_tree_hash"]})
        self.ctx.analysed["tree_hash"] = f["_tree_hash"]
        self.ctx.analysed.setdefault("bodies", len(f["bodies"]))
        self.ctx.analysed.setdefault("adts", len(f["adts"]))
        self.ctx.analysed.setdefault("instances", len(f["graph"]["nodes"]))
        self.ctx.analysed.setdefault("call_edges", sum(len(n["callees"]) for n in f["graph"]["nodes"]))
        return p


def thorough(ctx, env, mod, pid):
    """Thorough tier: the same rules on the other build configurations (feature off; overflow checks /
    debug assertions off), the module's own extra checks, and the seeded-mutant sensitivity run."""
    if hasattr(mod, "run_thorough"):
        mod.run_thorough(ctx, env)
    # C17 is itself a comparison of the two feature configurations (default vs nofeat, both with the checks the
    # default profile has): re-running it with one side swapped for another profile compares unlike with unlike
    extra = [] if pid == "C17" else ["nofeat", "default-nochecks"]
    for cfg in extra:
        n0 = len(ctx.obls)
        env.primary = cfg
        try:
            env.prog("default")
            mod.run(ctx, env)
        except facts.FactsError as e:
            ctx.ob("R0", "crate", "compiles:%s" % cfg, False, "crate does not compile in configuration %s" % cfg, extra=e.log[-3000:])
        finally:
            env.primary = "default"
        for o in ctx.obls[n0:]:
            o["func"] = "[%s] %s" % (cfg, o["func"])
            # same key as in the default configuration so that known findings apply; keep distinct for counting
            o["key"] = o["key"]
            o["cfg"] = cfg
    # seeded mutants for this property
    import subprocess
    here = os.path.dirname(os.path.dirname(os.path.abspath(__file__)))
    try:
        r = subprocess.run([sys.executable, os.path.join(here, "selftest", "run_mutants.py"), "-j", "8", "--json", pid],
                           stdout=subprocess.PIPE, stderr=subprocess.PIPE, text=True, timeout=3000)
        res = json.loads(r.stdout.strip().splitlines()[-1]) if r.stdout.strip() else []
    except Exception as e:  # noqa
        res = []
        ctx.note("mutant run failed: %s" % e)
    applied = detected = 0
    st = []
    for m in res:
        if m["status"] in ("skipped", "nocompile", "norule"):
            st.append({"mutant": m["id"], "status": m["status"], "detail": str(m["detail"])[:200]})
            continue
        if m["status"] in ("silent-ok", "unexpected-alarm"):
            st.append({"mutant": m["id"], "status": m["status"], "detail": str(m["detail"])[:300]})
            continue
        applied += 1
        ok = m["status"] == "detected"
        detected += 1 if ok else 0
        st.append({"mutant": m["id"], "status": m["status"], "detail": str(m["detail"])[:300]})
        if not ok:
            print("SELFTEST-MISS property=%s mutant=%s (checker sensitivity gap, not a violation of the analysed tree)" % (pid, m["id"]))
    # checker self-validation is reported in the evidence; it is not a verdict about /repo and never raises VIOLATION
    ctx.analysed["selftest"] = {"mutants_applied": applied, "mutants_detected": detected, "results": st,
                                "rule": "each seeded property-breaking edit (selftest/mutants.json, applied to a scratch copy of the current /repo) must trip the named rule; harmless edits must stay silent"}


def main(argv):
    if not argv or argv[0] not in PROPS:
        sys.stderr.write("usage: check <C01..C17> [--tier quick|thorough] [--replay file]\n")
        return 2
    pid = argv[0]
    tier = os.environ.get("VERIF_TIER", "quick")
    replay = None
    i = 1
    while i < len(argv):
        if argv[i] == "--tier":
            tier = argv[i + 1]
            i += 2
        elif argv[i] == "--replay":
            replay = argv[i + 1]
            i += 2
        else:
            i += 1
    if tier not in ("quick", "thorough"):
        tier = "quick"
    try:
        seed = int(os.environ.get("VERIF_SEED", "0"))
    except ValueError:
        seed = 0
    ctx = engine.Ctx(pid, tier, seed)
    env = Env(ctx)
    mod = importlib.import_module("nfsa.rules.%s" % pid.lower())
    try:
        try:
            env.prog("default")
        except facts.FactsError as e:
            ctx.ob("R0", "crate", "compiles:default", False,
                   "the crate does not compile in the default configuration; nothing can be analysed (fail closed)",
                   extra=e.log[-4000:])
        else:
            mod.run(ctx, env)
            if tier == "thorough":
                thorough(ctx, env, mod, pid)
    except Exception:
        ctx.ob("R0", "engine", "internal-error", False,
               "rule engine raised an exception (fail closed): " + traceback.format_exc()[-3000:])
    if replay:
        try:
            want = json.load(open(replay))["key"]
        except Exception:
            want = None
        hits = [o for o in ctx.obls if o["key"] == want]
        print("replay key=%s -> %s" % (want, [(o["status"], o["reason"]) for o in hits] or "no such obligation on this tree"))
    cmd = "./check %s --tier %s" % (pid, tier)
    return engine.finish(ctx, mod.LEVEL, mod.EXPLANATION, mod.ASSUMPTIONS, cmd)
