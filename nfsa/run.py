"""Driver for ./check: argument handling, lazy fact loading, rule dispatch."""
import importlib
import json
import os
import sys
import traceback

from . import engine, facts
from .mir import Program

PROPS = ["C%02d" % i for i in range(1, 18)]


class Env:
    """Lazy access to facts/programs for the configurations a rule needs."""

    def __init__(self, ctx):
        self.ctx = ctx
        self._progs = {}
        self._errs = {}

    def prog(self, cfg="default"):
        if cfg in self._progs:
            return self._progs[cfg]
        if cfg in self._errs:
            raise self._errs[cfg]
        try:
            f = facts.get(cfg)
        except facts.FactsError as e:
            self._errs[cfg] = e
            raise
        p = Program(f)
        self._progs[cfg] = p
        c = f["config"]
        self.ctx.configs.append({"name": cfg, "features": c["features"], "overflow_checks": c["overflow_checks"],
                                 "debug_assertions": c["debug_assertions"], "rustc": c["rustc"], "tree_hash": f["_tree_hash"]})
        self.ctx.analysed["tree_hash"] = f["_tree_hash"]
        self.ctx.analysed.setdefault("bodies", len(f["bodies"]))
        self.ctx.analysed.setdefault("adts", len(f["adts"]))
        self.ctx.analysed.setdefault("instances", len(f["graph"]["nodes"]))
        self.ctx.analysed.setdefault("call_edges", sum(len(n["callees"]) for n in f["graph"]["nodes"]))
        return p


def main(argv):
    if not argv or argv[0] not in PROPS:
        sys.stderr.write("usage: check <C01..C17> [--tier quick|thorough] [--replay file]\n")
        return 2
    pid = argv[0]
    tier = os.environ.get("VERIF_TIER", "quick")
    replay = None
    i = 1
    while i < len(argv):
        if argv[i] == "--tier":
            tier = argv[i + 1]
            i += 2
        elif argv[i] == "--replay":
            replay = argv[i + 1]
            i += 2
        else:
            i += 1
    if tier not in ("quick", "thorough"):
        tier = "quick"
    try:
        seed = int(os.environ.get("VERIF_SEED", "0"))
    except ValueError:
        seed = 0
    ctx = engine.Ctx(pid, tier, seed)
    env = Env(ctx)
    mod = importlib.import_module("nfsa.rules.%s" % pid.lower())
    try:
        try:
            env.prog("default")
        except facts.FactsError as e:
            ctx.ob("R0", "crate", "compiles:default", False,
                   "the crate does not compile in the default configuration; nothing can be analysed (fail closed)",
                   extra=e.log[-4000:])
        else:
            mod.run(ctx, env)
            if tier == "thorough" and hasattr(mod, "run_thorough"):
                mod.run_thorough(ctx, env)
    except Exception:
        ctx.ob("R0", "engine", "internal-error", False,
               "rule engine raised an exception (fail closed): " + traceback.format_exc()[-3000:])
    if replay:
        try:
            want = json.load(open(replay))["key"]
        except Exception:
            want = None
        hits = [o for o in ctx.obls if o["key"] == want]
        print("replay key=%s -> %s" % (want, [(o["status"], o["reason"]) for o in hits] or "no such obligation on this tree"))
    cmd = "./check %s --tier %s" % (pid, tier)
    return engine.finish(ctx, mod.LEVEL, mod.EXPLANATION, mod.ASSUMPTIONS, cmd)
