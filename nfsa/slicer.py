"""A3 — def-use slicer over exported MIR (flow-insensitive reaching definitions;
at -Zmir-opt-level=0 compiler temporaries are single-assignment, user `let mut`
locals become `phi`).  Produces expression trees (tuples):

  ("arg", n)                         function parameter _n
  ("const", val, ty)                 evaluated scalar
  ("constfn", Callee)                function item value
  ("promoted", owner, idx)           promoted constant
  ("constother", repr, ty)
  ("call", block, Callee|None, [args])
  ("field", base, name, adt)         ADT field
  ("tfield", base, idx)              tuple / closure-env field
  ("downcast", base, variant)
  ("ok", base) / ("err", base) / ("some", base)   payload of Result/Option/ControlFlow
  ("ref", base, mut) ("deref", base)
  ("agg", adt, variant, [ops], [field names])
  ("tuple", [ops]) ("array", [ops]) ("closure", path, [upvars])
  ("binop", op, a, b) ("unop", op, a) ("cast", kind, a, ty) ("discr", base)
  ("index", base, idx)
  ("phi", [exprs])  ("cycle", local)  ("opaque", why)
  ("mutlocal", local, expr)          local whose address is taken mutably
Anything the slicer cannot follow is `opaque`; rules treat opaque as not proven.
"""
from .mir import Callee

TRY_BRANCH = ("std::ops::Try::branch", "core::ops::Try::branch")


class Slicer:
    def __init__(self, body, follow_mut=False):
        self.body = body
        self.defs = {}      # local -> [("assign", b, i, rv) | ("call", b, term)]
        self.partial = {}   # local -> [(proj, b, i, rv)]
        self.mut_borrowed = set()
        self.memo = {}
        self.inprog = set()
        self.follow_mut = follow_mut
        self._index()

    def _index(self):
        bd = self.body
        for b in sorted(bd.live_blocks()):
            blk = bd.blocks[b]
            for i, s in enumerate(blk["stmts"]):
                if s["k"] != "assign":
                    continue
                pl = s["place"]
                rv = s["rv"]
                if not pl.get("p"):
                    self.defs.setdefault(pl["l"], []).append(("assign", b, i, rv))
                else:
                    self.partial.setdefault(pl["l"], []).append((pl["p"], b, i, rv))
                if rv["k"] == "ref" and rv["bk"] == "mut" and not any(e["k"] == "deref" for e in rv["place"].get("p", [])):
                    self.mut_borrowed.add(rv["place"]["l"])
                if rv["k"] == "rawptr" and not any(e["k"] == "deref" for e in rv["place"].get("p", [])):
                    self.mut_borrowed.add(rv["place"]["l"])
            t = blk["term"]
            if t["k"] == "call":
                d = t["dest"]
                if not d.get("p"):
                    self.defs.setdefault(d["l"], []).append(("call", b, t))
                else:
                    self.partial.setdefault(d["l"], []).append((d["p"], b, -1, {"k": "callres", "b": b}))

    # ------------------------------------------------------------------
    def local(self, l):
        if l in self.memo:
            return self.memo[l]
        if l in self.inprog:
            return ("cycle", l)
        bd = self.body
        if 1 <= l <= bd.arg_count and l not in self.defs:
            e = ("arg", l)
            self.memo[l] = e
            return e
        self.inprog.add(l)
        ds = self.defs.get(l, [])
        exprs = []
        if 1 <= l <= bd.arg_count:
            exprs.append(("arg", l))
        for d in ds:
            if d[0] == "assign":
                exprs.append(self.rvalue(d[3], d[1]))
            else:
                exprs.append(self.call_expr(d[1], d[2]))
        self.inprog.discard(l)
        tainted = False
        if self.inprog:
            for x in exprs:
                if _has_cycle_to(x, self.inprog):
                    tainted = True
                    break
        if not exprs:
            if l in self.partial:
                e = ("partial", l)
            else:
                e = ("opaque", "undefined-local-%d" % l)
        elif len(exprs) == 1:
            e = exprs[0]
        else:
            e = ("phi", exprs)
        if l in self.mut_borrowed:
            e = ("mutlocal", l, e)
        if not tainted:
            self.memo[l] = e
        return e

    def single_call_def(self, l):
        """If local l is defined only by one call terminator, a shallow ("call", block, Callee, []) node."""
        ds = self.defs.get(l, [])
        if len(ds) == 1 and ds[0][0] == "call":
            t = ds[0][2]
            f = t["func"]
            if f.get("k") == "const" and "fn" in f:
                return ("call", ds[0][1], Callee(f["fn"]), [])
        return None

    def call_expr(self, b, t):
        f = t["func"]
        if f.get("k") == "const" and "fn" in f:
            c = Callee(f["fn"])
            args = [self.operand(a) for a in t["args"]]
            return ("call", b, c, args)
        # indirect call through a value
        return ("call", b, None, [self.operand(f)] + [self.operand(a) for a in t["args"]])

    def operand(self, o):
        k = o["k"]
        if k in ("copy", "move"):
            return self.place(o["place"])
        if k == "const":
            if "fn" in o:
                return ("constfn", Callee(o["fn"]))
            if "val" in o:
                return ("const", o["val"], o["ty"])
            if "promoted" in o:
                return ("promoted", o.get("promoted_of"), o["promoted"])
            if "unevaluated" in o:
                return ("uconst", o["unevaluated"], tuple(o.get("uv_args") or ()), o["ty"])
            return ("constother", o.get("repr"), o["ty"])
        return ("opaque", "operand-" + k)

    def place(self, p):
        e = self.local(p["l"])
        projs = p.get("p", [])
        # partial definitions: `_5.0 = x` then read `_5.0`
        if projs and e[0] in ("partial",) :
            first = projs[0]
            cands = []
            for (pp, b, i, rv) in self.partial.get(p["l"], []):
                if pp and pp[0].get("k") == first.get("k") and pp[0].get("i") == first.get("i") and len(pp) == 1:
                    cands.append(self.rvalue(rv, b) if rv["k"] != "callres" else self.call_expr(rv["b"], self.body.blocks[rv["b"]]["term"]))
            if cands:
                e = cands[0] if len(cands) == 1 else ("phi", cands)
                projs = projs[1:]
        for pe in projs:
            e = self.project(e, pe)
        return e

    def project(self, e, pe):
        k = pe["k"]
        if k == "deref":
            if e[0] == "ref":
                return e[1]
            return ("deref", e)
        if k == "field":
            name = pe.get("name")
            idx = pe["i"]
            # through aggregates
            if e[0] == "agg" and name is not None and idx < len(e[3]):
                return e[3][idx]
            if e[0] in ("tuple",) and idx < len(e[1]):
                return e[1][idx]
            if e[0] == "downcast":
                base, var = e[1], e[2]
                if var in ("Continue", "Ok") and idx == 0:
                    return self._payload("ok", base)
                if var in ("Break", "Err") and idx == 0:
                    return self._payload("err", base)
                if var == "Some" and idx == 0:
                    return self._payload("some", base)
                if base[0] == "agg" and base[2] == var and idx < len(base[3]):
                    return base[3][idx]
                return mk_field(e, name if name is not None else str(idx), pe.get("adt"))
            if "adt" in pe and name is not None:
                return ("field", e, name, pe.get("adt"))
            return ("tfield", e, idx)
        if k == "downcast":
            return ("downcast", e, pe.get("variant", str(pe["vi"])))
        if k == "index":
            return ("index", e, self.local(pe["l"]))
        if k in ("constindex", "subslice"):
            return ("index", e, ("const", pe.get("offset", pe.get("from")), k))
        return ("opaque", "proj-" + k)

    def _payload(self, kind, base):
        # `?` : branch(x) as Continue .0  ==> ok(x)
        if base[0] == "call" and base[2] is not None and base[2].nsyn in TRY_BRANCH:
            return (kind, base[3][0])
        if base[0] == "agg" and base[2] in ("Ok", "Some", "Continue") and kind in ("ok", "some"):
            return base[3][0]
        if base[0] == "agg" and base[2] in ("Err", "Break") and kind == "err":
            return base[3][0]
        return (kind, base)

    def rvalue(self, rv, b=None):
        k = rv["k"]
        if k == "use":
            return self.operand(rv["op"])
        if k == "ref":
            return ("ref", self.place(rv["place"]), rv["bk"] == "mut")
        if k == "rawptr":
            return ("ref", self.place(rv["place"]), True)
        if k == "copyforderef":
            return self.place(rv["place"])
        if k == "cast":
            return ("cast", rv["kind"], self.operand(rv["op"]), rv["ty"], rv.get("from"))
        if k == "binop":
            return ("binop", rv["op"], self.operand(rv["a"]), self.operand(rv["b"]), rv.get("aty"))
        if k == "unop":
            return ("unop", rv["op"], self.operand(rv["a"]))
        if k == "discriminant":
            return ("discr", self.place(rv["place"]))
        if k == "aggregate":
            a = rv["agg"]
            ops = [self.operand(o) for o in rv["ops"]]
            if a == "adt":
                return ("agg", rv["adt"], rv["variant"], ops, rv.get("fields", []))
            if a == "tuple":
                return ("tuple", ops)
            if a == "array":
                return ("array", ops)
            if a == "closure":
                return ("closure", rv["closure"], ops)
            return ("opaque", "aggregate-" + a)
        if k == "repeat":
            return ("repeat", self.operand(rv["op"]), rv.get("n"))
        return ("opaque", "rvalue-" + k)


def _has_cycle_to(e, locals_):
    """Does expression e contain a ("cycle", L) marker for some L in locals_?"""
    seen = set()
    st = [e]
    while st:
        x = st.pop()
        if id(x) in seen or not isinstance(x, tuple):
            continue
        seen.add(id(x))
        if x and x[0] == "cycle":
            if x[1] in locals_:
                return True
            continue
        for c in x[1:]:
            if isinstance(c, tuple):
                st.append(c)
            elif isinstance(c, list):
                st.extend(y for y in c if isinstance(y, tuple))
    return False


# ---------------------------------------------------------------------------
# expression helpers

IDENTITY_CALLS = {
    "std::ops::Deref::deref", "core::ops::Deref::deref",
    "std::ops::DerefMut::deref_mut", "core::ops::DerefMut::deref_mut",
    "std::convert::AsRef::as_ref", "core::convert::AsRef::as_ref",
    "std::borrow::Borrow::borrow", "core::borrow::Borrow::borrow",
    "std::vec::Vec::as_slice", "alloc::vec::Vec::as_slice",
    "std::string::String::as_bytes", "alloc::string::String::as_bytes",
    "std::string::String::as_str",
    "std::clone::Clone::clone", "core::clone::Clone::clone",
    "std::option::Option::cloned", "core::option::Option::cloned",
    "std::option::Option::copied", "core::option::Option::copied",
    "std::option::Option::as_ref", "core::option::Option::as_ref",
    "std::result::Result::as_ref",
    "std::convert::identity",
    "std::iter::IntoIterator::into_iter",  # for &T / iterators: identity on the sequence
}

WIDEN_CALLS = {"std::convert::From::from", "core::convert::From::from", "std::convert::Into::into", "core::convert::Into::into"}


def peel(e, identity=IDENTITY_CALLS, casts=True, mutlocal=True, widen=False):
    """Strip value-preserving wrappers: refs/derefs, identity-like calls, unsize /
    widening casts.  Returns the core expression."""
    while True:
        k = e[0]
        if k in ("ref", "deref"):
            e = e[1]
        elif k == "mutlocal" and mutlocal:
            e = e[2]
        elif k == "cast" and casts and (e[1].startswith("PointerCoercion") or (widen and e[1] == "IntToInt")):
            e = e[2]
        elif k == "call" and e[2] is not None and (e[2].nsyn in identity or e[2].npath in identity) and e[3]:
            e = e[3][0]
        elif k == "call" and widen and e[2] is not None and e[2].nsyn in WIDEN_CALLS and e[3]:
            e = e[3][0]
        elif k == "agg" and e[1] in ("std::borrow::Cow", "alloc::borrow::Cow") and len(e[3]) == 1 and identity:
            e = e[3][0]          # Cow::Borrowed(x) / Cow::Owned(x): the same bytes, borrowed or owned
        else:
            return e


def walk(e, fn, seen=None):
    """Pre-order walk over an expression tree; fn(node) -> False to stop descending."""
    if seen is None:
        seen = set()
    if id(e) in seen:
        return
    seen.add(id(e))
    if fn(e) is False:
        return
    k = e[0]
    if k in ("ref", "deref", "ok", "err", "some", "discr", "downcast", "field", "tfield"):
        walk(e[1], fn, seen)
    elif k == "mutlocal":
        walk(e[2], fn, seen)
    elif k == "call":
        for a in e[3]:
            walk(a, fn, seen)
    elif k == "agg":
        for a in e[3]:
            walk(a, fn, seen)
    elif k in ("tuple", "array", "phi"):
        for a in e[1]:
            walk(a, fn, seen)
    elif k == "closure":
        for a in e[2]:
            walk(a, fn, seen)
    elif k == "binop":
        walk(e[2], fn, seen)
        walk(e[3], fn, seen)
    elif k == "unop":
        walk(e[2], fn, seen)
    elif k == "cast":
        walk(e[2], fn, seen)
    elif k == "index":
        walk(e[1], fn, seen)
        walk(e[2], fn, seen)
    elif k == "repeat":
        walk(e[1], fn, seen)


def find(e, pred):
    out = []

    def f(n):
        if pred(n):
            out.append(n)
        return True

    walk(e, f)
    return out


def show(e, depth=0, maxdepth=8):
    if depth > maxdepth:
        return "…"
    k = e[0]
    r = lambda x: show(x, depth + 1, maxdepth)
    if k == "arg":
        return "arg%d" % e[1]
    if k == "const":
        return "%s_%s" % (e[1], e[2])
    if k == "constfn":
        return "fn:%s" % e[1].id
    if k == "promoted":
        return "promoted[%s]" % e[2]
    if k == "constother":
        return "const(%s)" % e[1]
    if k == "uconst":
        return "const(%s%s)" % (e[1], ("::<%s>" % ", ".join(e[2])) if e[2] else "")
    if k == "call":
        return "%s(%s)@bb%d" % (e[2].id if e[2] else "<indirect>", ", ".join(r(a) for a in e[3]), e[1])
    if k == "field":
        return "%s.%s" % (r(e[1]), e[2])
    if k == "tfield":
        return "%s.%d" % (r(e[1]), e[2])
    if k == "downcast":
        return "(%s as %s)" % (r(e[1]), e[2])
    if k in ("ok", "err", "some"):
        return "%s(%s)" % (k, r(e[1]))
    if k == "ref":
        return "&%s%s" % ("mut " if e[2] else "", r(e[1]))
    if k == "deref":
        return "*%s" % r(e[1])
    if k == "agg":
        return "%s::%s{%s}" % (e[1], e[2], ", ".join(r(a) for a in e[3]))
    if k in ("tuple", "array"):
        return "%s(%s)" % (k, ", ".join(r(a) for a in e[1]))
    if k == "closure":
        return "closure<%s>[%s]" % (e[1], ", ".join(r(a) for a in e[2]))
    if k == "binop":
        return "%s(%s, %s)" % (e[1], r(e[2]), r(e[3]))
    if k == "unop":
        return "%s(%s)" % (e[1], r(e[2]))
    if k == "cast":
        return "(%s as %s)" % (r(e[2]), e[3])
    if k == "discr":
        return "discr(%s)" % r(e[1])
    if k == "phi":
        return "phi(%s)" % " | ".join(r(a) for a in e[1])
    if k == "mutlocal":
        return "mut_%d{%s}" % (e[1], r(e[2]))
    if k == "index":
        return "%s[%s]" % (r(e[1]), r(e[2]))
    return "%s" % (e,)


# ---------------------------------------------------------------------------
# Inter-procedural simplification: apply closures passed to Result/Option
# combinators so that `x.map(|(r, h)| (r, h.version)).map_err(f)?` slices to
# `(ok(x).0, ok(x).1.version)`.

def _n(c):
    return c.nsyn if c is not None else ""


RESULT_MAP = {"std::result::Result::map", "core::result::Result::map"}
RESULT_MAP_ERR = {"std::result::Result::map_err", "core::result::Result::map_err"}
OPTION_MAP = {"std::option::Option::map", "core::option::Option::map"}
OPTION_OK_OR = {"std::option::Option::ok_or", "core::option::Option::ok_or",
                "std::option::Option::ok_or_else", "core::option::Option::ok_or_else"}
RESULT_OK = {"std::result::Result::ok", "core::result::Result::ok"}
FN_CALL_ONCE = {"std::ops::FnOnce::call_once", "core::ops::FnOnce::call_once", "std::ops::FnMut::call_mut", "core::ops::FnMut::call_mut",
                "std::ops::Fn::call", "core::ops::Fn::call"}
OPTION_UNWRAP_OR = {"std::option::Option::unwrap_or", "core::option::Option::unwrap_or"}
OPTION_VIEW = {"std::option::Option::as_deref", "core::option::Option::as_deref", "std::option::Option::as_ref", "core::option::Option::as_ref",
               "std::option::Option::as_deref_mut", "std::option::Option::as_mut", "std::option::Option::copied", "std::option::Option::cloned"}
AND_THEN = {"std::result::Result::and_then", "core::result::Result::and_then",
            "std::option::Option::and_then", "core::option::Option::and_then"}


def mk_field(e, name, adt):
    if e[0] == "agg" and name in e[4]:
        return e[3][e[4].index(name)]
    if e[0] == "phi":
        return ("phi", [mk_field(x, name, adt) for x in e[1]])
    if e[0] == "downcast":
        # (phi(A{..} | B{..}) as A).f : only the members built as variant A can be read through the downcast
        base = e[1]
        while base[0] == "mutlocal":
            base = base[2]
        if base[0] == "agg" and base[2] == e[2] and name in base[4]:
            return base[3][base[4].index(name)]
        if base[0] == "phi" and base[1] and all(m[0] == "agg" for m in base[1]):
            ms = [m for m in base[1] if m[2] == e[2] and name in m[4]]
            if ms:
                vals = [m[3][m[4].index(name)] for m in ms]
                return vals[0] if len(vals) == 1 else ("phi", vals)
    return ("field", e, name, adt)


def mk_tfield(e, idx):
    if e[0] == "tuple" and idx < len(e[1]):
        return e[1][idx]
    if e[0] == "closure" and idx < len(e[2]):
        return e[2][idx]
    if e[0] == "phi":
        return ("phi", [mk_tfield(x, idx) for x in e[1]])
    return ("tfield", e, idx)


def mk_deref(e):
    if e[0] == "ref":
        return e[1]
    if e[0] == "closure":
        # closure bodies receive `&env` / `&mut env`; the environment value is modelled by value
        return e
    return ("deref", e)


FROM_RESIDUAL = {"std::ops::FromResidual::from_residual", "core::ops::FromResidual::from_residual"}
NEVER = ("never",)


class Interp:
    def __init__(self, prog):
        self.prog = prog
        self.slicers = {}
        self.depth = 0

    def slicer(self, path):
        if path not in self.slicers:
            b = self.prog.bodies.get(path)
            if b is None:
                return None
            self.slicers[path] = Slicer(b)
        return self.slicers[path]

    def ret_expr(self, path):
        s = self.slicer(path)
        if s is None:
            return None
        return s.local(0)

    def apply(self, f, args):
        """f: ("closure", path, upvars) or ("constfn", Callee); args: list of exprs."""
        f = peel(f, identity=(), casts=False)
        if f[0] == "constfn":
            return ("call", -1, f[1], list(args))
        if f[0] != "closure":
            return ("opaque", "apply-non-closure")
        path, upvars = f[1], f[2]
        if self.depth > 12:
            return ("opaque", "apply-depth")
        ret = self.ret_expr(path)
        if ret is None:
            return ("opaque", "closure-body-missing")
        self.depth += 1
        try:
            env = ("closure", path, upvars)
            mapping = {1: env}
            for i, a in enumerate(args):
                mapping[2 + i] = a
            out = self.subst(ret, mapping)
            return self.simplify(out)
        finally:
            self.depth -= 1

    def subst(self, e, mapping, memo=None):
        if memo is None:
            memo = {}
        key = id(e)
        if key in memo:
            return memo[key]
        k = e[0]
        r = lambda x: self.subst(x, mapping, memo)
        if k == "arg":
            out = mapping.get(e[1], e)
        elif k == "ref":
            out = ("ref", r(e[1]), e[2])
        elif k == "deref":
            out = mk_deref(r(e[1]))
        elif k == "field":
            out = mk_field(r(e[1]), e[2], e[3])
        elif k == "tfield":
            base = r(e[1])
            # closure env is accessed as (*_1).i or _1.i
            out = mk_tfield(base, e[2])
        elif k == "downcast":
            out = ("downcast", r(e[1]), e[2])
        elif k in ("ok", "err", "some"):
            out = self._payload(k, r(e[1]))
        elif k == "discr":
            out = ("discr", r(e[1]))
        elif k == "mutlocal":
            out = ("mutlocal", e[1], r(e[2]))
        elif k == "call":
            out = ("call", e[1], e[2], [r(a) for a in e[3]])
        elif k == "agg":
            out = ("agg", e[1], e[2], [r(a) for a in e[3]], e[4])
        elif k in ("tuple", "array"):
            out = (k, [r(a) for a in e[1]])
        elif k == "phi":
            out = ("phi", [r(a) for a in e[1]])
        elif k == "closure":
            out = ("closure", e[1], [r(a) for a in e[2]])
        elif k == "binop":
            out = ("binop", e[1], r(e[2]), r(e[3]), e[4] if len(e) > 4 else None)
        elif k == "unop":
            out = ("unop", e[1], r(e[2]))
        elif k == "cast":
            out = ("cast", e[1], r(e[2]), e[3], e[4] if len(e) > 4 else None)
        elif k == "index":
            out = ("index", r(e[1]), r(e[2]))
        elif k == "repeat":
            out = ("repeat", r(e[1]), e[2])
        else:
            out = e
        memo[key] = out
        return out

    def _payload(self, kind, base):
        if base[0] == "agg" and base[2] in ("Ok", "Some", "Continue") and kind in ("ok", "some"):
            return base[3][0]
        if base[0] == "agg" and base[2] in ("Err", "Break") and kind == "err":
            return base[3][0]
        if base[0] == "phi":
            return ("phi", [self._payload(kind, x) for x in base[1]])
        return (kind, base)

    def simplify(self, e, memo=None):
        """Bottom-up: resolve ok/err/some through map / map_err / ok_or with closure application."""
        if memo is None:
            memo = {}
        key = id(e)
        if key in memo:
            return memo[key]
        memo[key] = e  # cycle guard
        k = e[0]
        s = lambda x: self.simplify(x, memo)
        if k in ("ok", "err", "some"):
            base = s(e[1])
            out = self._through(k, base)
        elif k == "field":
            out = mk_field(s(e[1]), e[2], e[3])
        elif k == "tfield":
            out = mk_tfield(s(e[1]), e[2])
        elif k == "deref":
            out = mk_deref(s(e[1]))
        elif k == "ref":
            out = ("ref", s(e[1]), e[2])
        elif k == "call":
            out = self._ctor_call(self._option_default(("call", e[1], e[2], [s(a) for a in e[3]])))
        elif k == "agg":
            out = ("agg", e[1], e[2], [s(a) for a in e[3]], e[4])
        elif k in ("tuple", "array"):
            out = (k, [s(a) for a in e[1]])
        elif k == "phi":
            out = ("phi", [s(a) for a in e[1]])
        elif k == "mutlocal":
            out = ("mutlocal", e[1], s(e[2]))
        elif k == "downcast":
            out = ("downcast", s(e[1]), e[2])
        elif k == "cast":
            out = ("cast", e[1], s(e[2]), e[3], e[4] if len(e) > 4 else None)
        elif k == "binop":
            out = ("binop", e[1], s(e[2]), s(e[3]), e[4] if len(e) > 4 else None)
        elif k == "unop":
            out = ("unop", e[1], s(e[2]))
        elif k == "discr":
            out = ("discr", s(e[1]))
        elif k == "closure":
            out = ("closure", e[1], [s(a) for a in e[2]])
        elif k == "index":
            out = ("index", s(e[1]), s(e[2]))
        elif k == "promoted":
            out = self.promoted(e)
        elif k == "uconst":
            out = self.uconst(e)
        else:
            out = e
        memo[key] = out
        return out

    def _ctor_call(self, call):
        """`f(x)` where the function value f is a tuple-variant / tuple-struct constructor of a crate type
        (`wrap: impl FnOnce(T) -> Packet` called with `Packet::V5`): the aggregate it builds."""
        if call[0] == "call" and call[2] is None and len(call[3]) >= 2:
            # call through a function pointer: `wrap: fn(T) -> Packet` called with `Packet::V5 as fn(..)`
            f = call[3][0]
            while f[0] in ("ref", "deref") or (f[0] == "cast" and (str(f[1]).startswith("PointerCoercion") or "Reify" in str(f[1]))):
                f = f[1] if f[0] != "cast" else f[2]
            if f[0] == "constfn" and "::" in f[1].path:
                adt_path, variant = f[1].path.rsplit("::", 1)
                adt = self.prog.adts.get(adt_path)
                if adt is not None:
                    for v in adt["variants"]:
                        if v["name"] == variant and len(v["fields"]) == len(call[3]) - 1:
                            return ("agg", adt_path, variant, list(call[3][1:]), [fl["name"] for fl in v["fields"]])
            return call
        if call[0] != "call" or call[2] is None or _n(call[2]) not in FN_CALL_ONCE or len(call[3]) != 2:
            return call
        f = call[3][0]
        while f[0] in ("ref", "deref") or (f[0] == "cast" and str(f[1]).startswith("PointerCoercion")):
            f = f[1] if f[0] != "cast" else f[2]
        if f[0] != "constfn":
            return call
        path = f[1].path
        if "::" not in path:
            return call
        adt_path, variant = path.rsplit("::", 1)
        adt = self.prog.adts.get(adt_path)
        argt = call[3][1]
        if adt is None or argt[0] != "tuple":
            return call
        for v in adt["variants"]:
            if v["name"] == variant and len(v["fields"]) == len(argt[1]):
                return ("agg", adt_path, variant, list(argt[1]), [fl["name"] for fl in v["fields"]])
        return call

    def _option_default(self, call):
        """`opt.unwrap_or(d)` where opt's variants are known on every incoming path (`None` initially, `Some(x)` after
        an iteration): the value is d on the None paths and the payload on the Some paths."""
        c = call[2]
        if c is None or _n(c) not in OPTION_UNWRAP_OR or len(call[3]) != 2:
            return call
        x = call[3][0]

        def strip(v):
            while True:
                if v[0] in ("ref", "deref"):
                    v = v[1]
                elif v[0] == "mutlocal":
                    v = v[2]
                elif v[0] == "call" and v[2] is not None and _n(v[2]) in OPTION_VIEW and v[3]:
                    v = v[3][0]
                else:
                    return v

        def variants(v, depth=0):
            v = strip(v)
            if depth > 6:
                return None
            if v[0] == "agg" and v[2] in ("None", "Some") and v[1].endswith("option::Option"):
                return [(v[2], v[3][0] if v[3] else None)]
            if v[0] == "phi":
                out = []
                for m in v[1]:
                    r = variants(m, depth + 1)
                    if r is None:
                        return None
                    out += r
                return out
            return None

        vs = variants(x)
        if not vs:
            return call
        members = []
        for name, payload in vs:
            members.append(call[3][1] if name == "None" else payload)
        uniq = []
        for m in members:
            if all(show(m, 0, 80) != show(u, 0, 80) for u in uniq):
                uniq.append(m)
        return uniq[0] if len(uniq) == 1 else ("phi", uniq)

    def uconst(self, e, depth=0):
        """A reference to a constant item: replaced by the value its (CTFE) body builds — a free / inherent const,
        or `<T as Trait>::NAME` once T is concrete (resolved through the impl that provides it)."""
        path = e[1]
        if path not in self.prog.consts and e[2]:
            path = self.prog.trait_consts.get((e[1], e[2][0]))
        b = self.prog.consts.get(path) if path else None
        if b is None or depth > 4:
            return e
        key = ("const", path)
        if key not in self.slicers:
            self.slicers[key] = Slicer(b)
        return self.simplify(self.slicers[key].local(0))

    def promoted(self, e):
        lst = self.prog.promoted.get(e[1])
        if not lst or e[2] >= len(lst):
            return e
        key = ("promoted", e[1], e[2])
        if key not in self.slicers:
            self.slicers[key] = Slicer(lst[e[2]])
        return self.simplify(self.slicers[key].local(0))

    def _through(self, kind, base):
        b = base
        if b[0] == "call" and b[2] is not None:
            n = _n(b[2])
            a = b[3]
            if n in RESULT_MAP and len(a) == 2:
                if kind == "ok":
                    return self.apply(a[1], [self._through("ok", a[0])])
                if kind == "err":
                    return self._through("err", a[0])
            if n in RESULT_MAP_ERR and len(a) == 2:
                if kind == "ok":
                    return self._through("ok", a[0])
                if kind == "err":
                    return self.apply(a[1], [self._through("err", a[0])])
            if n in OPTION_MAP and len(a) == 2 and kind == "some":
                return self.apply(a[1], [self._through("some", a[0])])
            if n in OPTION_OK_OR and len(a) == 2 and kind == "ok":
                return self._through("some", a[0])
            if n in RESULT_OK and len(a) == 1 and kind == "some":
                return self._through("ok", a[0])
            if n in AND_THEN and len(a) == 2 and kind in ("ok", "some"):
                inner = self.apply(a[1], [self._through(kind, a[0])])
                return self._through(kind, inner)
            if n in TRY_BRANCH and len(a) == 1:
                return self._through(kind, a[0])
            if n in FROM_RESIDUAL and kind in ("ok", "some"):
                return NEVER
            if n in FROM_RESIDUAL and kind == "err" and len(a) == 1:
                # `x?` on the error path: the residual is Err(e) (identity From on the error type)
                inner = a[0]
                if inner[0] == "err":
                    return self._through("err", inner[1])
                if inner[0] == "agg" and inner[2] in ("Err", "Break"):
                    return self._payload("err", inner)
                return self._payload("err", ("agg", "core::result::Result", "Err", [inner], ["0"])) if inner[0] != "call" else ("err", inner)
        if b[0] == "phi":
            ms = [self._through(kind, x) for x in b[1]]
            ms = [m for m in ms if m != NEVER]
            if not ms:
                return NEVER
            return ms[0] if len(ms) == 1 else ("phi", ms)
        if b[0] == "agg" and b[2] in ("Err", "Break", "None") and kind in ("ok", "some"):
            return NEVER
        if b[0] == "agg" and b[2] in ("Ok", "Continue", "Some") and kind == "err":
            return NEVER
        return self._payload(kind, b)


# ---------------------------------------------------------------------------
# generic child mapping + inlining of small private helper functions

def map_children(e, f, payload=None):
    """Rebuild node e with f applied to its child expressions (smart constructors re-simplify)."""
    k = e[0]
    if k == "ref":
        return ("ref", f(e[1]), e[2])
    if k == "deref":
        return mk_deref(f(e[1]))
    if k == "field":
        return mk_field(f(e[1]), e[2], e[3])
    if k == "tfield":
        return mk_tfield(f(e[1]), e[2])
    if k == "downcast":
        return ("downcast", f(e[1]), e[2])
    if k in ("ok", "err", "some"):
        b = f(e[1])
        return payload(k, b) if payload else (k, b)
    if k == "discr":
        return ("discr", f(e[1]))
    if k == "mutlocal":
        return ("mutlocal", e[1], f(e[2]))
    if k == "call":
        return ("call", e[1], e[2], [f(a) for a in e[3]])
    if k == "agg":
        return ("agg", e[1], e[2], [f(a) for a in e[3]], e[4])
    if k in ("tuple", "array", "phi"):
        return (k, [f(a) for a in e[1]])
    if k == "closure":
        return ("closure", e[1], [f(a) for a in e[2]])
    if k == "binop":
        return ("binop", e[1], f(e[2]), f(e[3]), e[4] if len(e) > 4 else None)
    if k == "unop":
        return ("unop", e[1], f(e[2]))
    if k == "cast":
        return ("cast", e[1], f(e[2]), e[3], e[4] if len(e) > 4 else None)
    if k == "index":
        return ("index", f(e[1]), f(e[2]))
    if k == "repeat":
        return ("repeat", f(e[1]), e[2])
    return e


def subst_types(e, tmap, memo=None, prog=None):
    """Instantiate type parameters: constant references (`<F as Trait>::NAME` with F := concrete) and, when `prog` is
    given, calls of crate-trait methods on a type parameter (`x.method()` with x: S, S := concrete), which are
    re-targeted at the impl that provides the method."""
    if memo is None:
        memo = {}
    key = id(e)
    if key in memo:
        return memo[key]
    if e[0] == "uconst":
        out = ("uconst", e[1], tuple(tmap.get(a, a) for a in e[2]), e[3])
    else:
        out = map_children(e, lambda x: subst_types(x, tmap, memo, prog), None)
        if prog is not None and out[0] == "call" and out[2] is not None:
            rc = prog.resolve_trait_call(out[2], tmap)
            if rc is not None:
                out = ("call", out[1], rc, out[3])
    memo[key] = out
    return out


def _inlinable(prog, c, keep=(), allow_pub=False):
    if c is None or not c.local or c.kind not in ("Item",):
        return None
    if c.path in keep:
        return None
    b = prog.bodies.get(c.path)
    if b is None or b.kind == "Closure" or b.derived:
        return None
    if b.j.get("pub") and not allow_pub:
        return None
    pi = b.parent_impl or {}
    if "nom_derive::Parse" in pi.get("trait", "") or c.path.endswith(("::parse_be", "::parse_le")):
        return None
    if b.nblocks > 80 or b.sccs():
        return None
    return b


def _inline(self, e, memo=None, depth=0, stack=()):
    """Replace calls to small, loop-free, private crate helpers by their return expression (arguments
    substituted), so that extracting / inlining such a helper does not change what a rule sees."""
    if memo is None:
        memo = {}
    key = id(e)
    if key in memo:
        return memo[key]
    memo[key] = e
    f = lambda x: _inline(self, x, memo, depth, stack)
    out = map_children(e, f, self._through)
    if out[0] == "call" and depth < 6:
        c = out[2]
        b = _inlinable(self.prog, c, getattr(self, "keep", ()), getattr(self, "allow_pub", False))
        if b is not None and c.path not in stack and len(out[3]) == b.arg_count:
            ret = self.ret_expr(c.path)
            if ret is not None:
                mapping = {i + 1: a for i, a in enumerate(out[3])}
                body = self.subst(ret, mapping)
                gens = b.j.get("generics") or []
                if gens and c.args and len(gens) == len(c.args):
                    body = subst_types(body, dict(zip(gens, c.args)))
                body = self.simplify(body)
                out = _inline(self, body, None, depth + 1, stack + (c.path,))
    memo[key] = out
    return out


Interp.inline = _inline
