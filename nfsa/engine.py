"""Obligation bookkeeping, known-findings handling, evidence and replay files."""
import json
import re
import os
import time

from . import facts as F

VERIF = F.VERIF
EVID = os.environ.get("NFSA_EVIDENCE_DIR") or os.path.join(VERIF, "evidence")
REPLAY = os.path.join(EVID, "replay")
KNOWN = os.path.join(VERIF, "known_findings.json")

TRUSTED_BASE = [
    "rustc 1.97.0-nightly front end, type checker and MIR construction (facts are read from it)",
    "documented contracts of core/alloc/std",
    "documented contracts of nom 7.1.3 combinators and nom-derive 0.10.1 expansion (generated code itself is analysed as crate-local MIR)",
    "serde / serde_derive (generated serialize bodies are analysed as crate-local MIR)",
    "byteorder, mac_address documented contracts",
    "/verif/nfsa rule engine and /verif/driver fact extractor",
]


class Ctx:
    """One run of one property's rules."""

    def __init__(self, pid, tier, seed):
        self.pid = pid
        self.tier = tier
        self.seed = seed
        self.obls = []
        self.rule_text = {}
        self.analysed = {}
        self.notes = []
        self.t0 = time.time()
        self.configs = []

    def rule(self, rid, text):
        self.rule_text[rid] = text

    def ob(self, rule, func, detail, ok, reason="", site="", extra=None):
        """Record one obligation.  key = property/rule/function/detail (no line numbers)."""
        # closure indices are renumbered by unrelated edits: keep them out of the key
        key = "%s/%s/%s/%s" % (self.pid, rule, re.sub(r"\{closure#\d+\}", "{closure}", func), detail)
        self.obls.append({
            "key": key, "rule": rule, "func": func, "detail": detail,
            "status": "discharged" if ok else "violated",
            "reason": reason, "site": site, "extra": extra,
        })
        return ok

    def floor(self, rule, func, what, count, minimum):
        """Fail closed when a rule matched fewer instances than counted by hand."""
        return self.ob(rule, func, "floor:%s" % what, count >= minimum,
                       "matched %d instance(s), floor %d" % (count, minimum)
                       + ("" if count >= minimum else " — below-floor (anchor moved or rule went vacuous)"))

    def anchor(self, rule, name, found):
        return self.ob(rule, name, "anchor", bool(found), "anchor present" if found else "anchor-missing")

    def count(self, name, n):
        self.analysed[name] = self.analysed.get(name, 0) + n

    def note(self, s):
        self.notes.append(s)


def load_known():
    try:
        with open(KNOWN) as f:
            return json.load(f)
    except OSError:
        return {"known": [], "fixed": []}


def finish(ctx, level, explanation, assumptions, checker_cmd):
    """Apply known findings, print verdict lines, write evidence; returns exit code."""
    known = load_known()
    kmap = {}
    for k in known.get("known", []):
        if k["property"] == ctx.pid:
            kmap[k["key"]] = k
    viol = []
    knownhits = []
    for o in ctx.obls:
        if o["status"] == "violated" and o["key"] in kmap:
            o["status"] = "known"
            knownhits.append(o)
        elif o["status"] == "violated":
            viol.append(o)
    os.makedirs(REPLAY, exist_ok=True)
    for f in os.listdir(REPLAY):
        if f.startswith(ctx.pid + "-"):
            try:
                os.unlink(os.path.join(REPLAY, f))
            except OSError:
                pass
    for o in knownhits:
        print("KNOWN-FINDING: property=%s %s [%s]" % (ctx.pid, kmap[o["key"]]["what"], o["key"]))
    n = 0
    for o in viol:
        n += 1
        rp = os.path.join(REPLAY, "%s-%d.json" % (ctx.pid, n))
        with open(rp, "w") as f:
            json.dump({
                "property": ctx.pid, "key": o["key"], "rule": o["rule"],
                "rule_text": ctx.rule_text.get(o["rule"], ""),
                "function": o["func"], "detail": o["detail"], "site": o["site"],
                "reason": o["reason"], "extra": o["extra"], "tree_hash": ctx.analysed.get("tree_hash"),
            }, f, indent=1, default=str)
        print("VIOLATION property=%s replay=%s" % (ctx.pid, rp))
        print("  rule=%s function=%s detail=%s site=%s\n  reason=%s" % (o["rule"], o["func"], o["detail"], o["site"], o["reason"]))
    total = len(ctx.obls)
    disc = sum(1 for o in ctx.obls if o["status"] == "discharged")
    per_rule = {}
    for o in ctx.obls:
        r = per_rule.setdefault(o["rule"], {"obligations": 0, "discharged": 0, "known": 0, "violated": 0})
        r["obligations"] += 1
        r[o["status"]] = r.get(o["status"], 0) + 1
    # samples: a few obligations per rule, violated/known first
    samples = []
    byrule = {}
    for o in sorted(ctx.obls, key=lambda o: {"violated": 0, "known": 1, "discharged": 2}[o["status"]]):
        lst = byrule.setdefault(o["rule"], [])
        if len(lst) < 4 or o["status"] != "discharged":
            lst.append(o)
    for r in sorted(byrule):
        for o in byrule[r]:
            samples.append({"rule": o["rule"], "function": o["func"], "instance": o["detail"],
                            "verdict": o["status"], "site": o["site"], "reason": o["reason"][:300]})
    if level == "proof" and (knownhits or viol):
        level_out = "other"
    else:
        level_out = level
    cov = {
        "obligations": total,
        "discharged": disc,
        "known_findings": len(knownhits),
        "checker_cmd": checker_cmd,
        "trusted_base": TRUSTED_BASE,
        "explanation": explanation,
        "rules": {r: dict(per_rule[r], text=ctx.rule_text.get(r, "")) for r in sorted(per_rule)},
        "analysed": ctx.analysed,
        "configurations": ctx.configs,
        "samples": samples[:120],
        "exhaustive": True,
        "notes": ctx.notes,
        "evaluations": total,
        "distinct_nontrivial": len(set(o["key"] for o in ctx.obls)),
        "rule": "one obligation per rule instance found in the MIR of /repo's working tree; distinct = distinct (rule,function,instance) keys",
    }
    ev = {
        "property_id": ctx.pid,
        "tier": ctx.tier,
        "seed": ctx.seed,
        "level": level_out,
        "coverage": cov,
        "assumptions": assumptions,
        "wall_s": round(time.time() - ctx.t0, 2),
        "violations": len(viol),
    }
    os.makedirs(EVID, exist_ok=True)
    with open(os.path.join(EVID, "%s.json" % ctx.pid), "w") as f:
        json.dump(ev, f, indent=1, default=str)
    print("%s: %d obligations, %d discharged, %d known finding(s), %d violation(s) [tier=%s, %.1fs]"
          % (ctx.pid, total, disc, len(knownhits), len(viol), ctx.tier, time.time() - ctx.t0))
    return 1 if viol else 0
