// nfsa-driver: rustc_private fact extractor for the netflow_parser static checks.
//
// Injected with RUSTC_WORKSPACE_WRAPPER under `cargo +nightly check`. For the
// crate named in NFSA_CRATE (default netflow_parser) it writes, after analysis,
// one JSON file (NFSA_OUT) holding: every local MIR body (statements,
// terminators, resolved callees, field names), promoted bodies, ADT / impl /
// static inventories, unsafe inventory, an instance-level call graph walked
// from the requested roots through dependency MIR, and `# Panics` doc facts
// for external callees. It runs no code of the analysed crate.
#![feature(rustc_private)]
#![allow(clippy::all)]

extern crate rustc_abi;
extern crate rustc_driver;
extern crate rustc_hir;
extern crate rustc_interface;
extern crate rustc_middle;
extern crate rustc_span;

mod json;
use json::J;

use rustc_driver::{Callbacks, Compilation};
use rustc_hir::def::DefKind;
use rustc_hir::def_id::{DefId, LOCAL_CRATE};
use rustc_middle::mir::{
    self, AggregateKind, AssertKind, BasicBlock, Body, Operand, Place, PlaceElem, Rvalue,
    StatementKind, TerminatorKind,
};
use rustc_middle::ty::print::with_no_trimmed_paths;
use rustc_middle::ty::{self, EarlyBinder, GenericArgsRef, Instance, InstanceKind, Ty, TyCtxt, TypingEnv};
use rustc_span::Span;
use std::collections::{BTreeMap, BTreeSet, HashMap, HashSet, VecDeque};

const DRIVER_VERSION: &str = "nfsa-driver-10";

struct Cb;

impl Callbacks for Cb {
    fn after_analysis<'tcx>(
        &mut self,
        _compiler: &rustc_interface::interface::Compiler,
        tcx: TyCtxt<'tcx>,
    ) -> Compilation {
        let want = std::env::var("NFSA_CRATE").unwrap_or_else(|_| "netflow_parser".to_string());
        let name = tcx.crate_name(LOCAL_CRATE).to_string();
        if name != want {
            return Compilation::Continue;
        }
        let out = match std::env::var("NFSA_OUT") {
            Ok(o) => o,
            Err(_) => return Compilation::Continue,
        };
        let facts = extract(tcx);
        let mut s = String::with_capacity(32 << 20);
        facts.write(&mut s);
        std::fs::write(&out, s).expect("write NFSA_OUT");
        Compilation::Continue
    }
}

fn main() {
    let mut args: Vec<String> = std::env::args().collect();
    // cargo passes the real rustc as argv[1] to a workspace wrapper
    if args.len() > 1 && (args[1].ends_with("rustc") || args[1].contains("/rustc")) {
        args.remove(1);
    }
    rustc_driver::run_compiler(&args, &mut Cb);
}

// ---------------------------------------------------------------------------

fn ty_s(ty: Ty<'_>) -> String {
    with_no_trimmed_paths!(format!("{}", ty))
}

fn path_s(tcx: TyCtxt<'_>, d: DefId) -> String {
    with_no_trimmed_paths!(tcx.def_path_str(d))
}

/// The type itself plus every type nested in references, ADT arguments, tuples, slices, arrays.
fn component_types<'tcx>(t: Ty<'tcx>, out: &mut Vec<Ty<'tcx>>, depth: usize) {
    if depth > 8 || out.contains(&t) {
        return;
    }
    match t.kind() {
        ty::Ref(_, inner, _) => component_types(*inner, out, depth + 1),
        ty::Adt(_, args) => {
            out.push(t);
            for a in args.iter() {
                if let Some(x) = a.as_type() {
                    component_types(x, out, depth + 1);
                }
            }
        }
        ty::Tuple(ts) => {
            for x in ts.iter() {
                component_types(x, out, depth + 1);
            }
        }
        ty::Slice(x) | ty::Array(x, _) => component_types(*x, out, depth + 1),
        ty::Param(_) | ty::Alias(..) => {}
        _ => out.push(t),
    }
}

fn canon_path(tcx: TyCtxt<'_>, d: DefId) -> String {
    let c = format!("{}{}", tcx.crate_name(d.krate), tcx.def_path(d).to_string_no_crate_verbose());
    if let Some(rest) = c.strip_prefix("serde_core::") {
        format!("serde::{}", rest)
    } else {
        c
    }
}

fn args_j<'tcx>(args: GenericArgsRef<'tcx>) -> J {
    J::A(
        args.iter()
            .map(|a| J::S(with_no_trimmed_paths!(format!("{}", a))))
            .collect(),
    )
}

fn span_j(tcx: TyCtxt<'_>, sp: Span) -> J {
    let sm = tcx.sess.source_map();
    let mut o = vec![("s", J::S(sm.span_to_diagnostic_string(sp)))];
    if sp.from_expansion() {
        let ed = sp.ctxt().outer_expn_data();
        o.push(("exp", J::B(true)));
        o.push(("macro", J::S(format!("{}", ed.kind.descr()))));
        o.push(("call", J::S(sm.span_to_diagnostic_string(sp.source_callsite()))));
    }
    J::O(o)
}

fn kind_name(k: &InstanceKind<'_>) -> &'static str {
    match k {
        InstanceKind::Item(_) => "Item",
        InstanceKind::Intrinsic(_) => "Intrinsic",
        InstanceKind::VTableShim(_) => "VTableShim",
        InstanceKind::ReifyShim(..) => "ReifyShim",
        InstanceKind::FnPtrShim(..) => "FnPtrShim",
        InstanceKind::Virtual(..) => "Virtual",
        InstanceKind::ClosureOnceShim { .. } => "ClosureOnceShim",
        InstanceKind::ConstructCoroutineInClosureShim { .. } => "ConstructCoroutineInClosureShim",
        InstanceKind::ThreadLocalShim(_) => "ThreadLocalShim",
        InstanceKind::FutureDropPollShim(..) => "FutureDropPollShim",
        InstanceKind::DropGlue(..) => "DropGlue",
        InstanceKind::CloneShim(..) => "CloneShim",
        InstanceKind::FnPtrAddrShim(..) => "FnPtrAddrShim",
        InstanceKind::AsyncDropGlueCtorShim(..) => "AsyncDropGlueCtorShim",
        InstanceKind::AsyncDropGlue(..) => "AsyncDropGlue",
    }
}

fn crate_of(tcx: TyCtxt<'_>, d: DefId) -> String {
    tcx.crate_name(d.krate).to_string()
}

fn inst_j<'tcx>(tcx: TyCtxt<'tcx>, inst: Instance<'tcx>) -> J {
    let d = inst.def_id();
    J::O(vec![
        ("path", J::S(path_s(tcx, d))),
        ("args", args_j(inst.args)),
        ("kind", J::S(kind_name(&inst.def).to_string())),
        ("local", J::B(d.is_local())),
        ("crate", J::S(crate_of(tcx, d))),
        ("id", J::S(inst_id(tcx, inst))),
    ])
}

fn inst_id<'tcx>(_tcx: TyCtxt<'tcx>, inst: Instance<'tcx>) -> String {
    with_no_trimmed_paths!(format!("{}", inst))
}

struct Cx<'a, 'tcx> {
    tcx: TyCtxt<'tcx>,
    body: &'a Body<'tcx>,
    env: TypingEnv<'tcx>,
    ext_callees: &'a mut HashSet<DefId>,
}

impl<'a, 'tcx> Cx<'a, 'tcx> {
    fn place(&self, p: &Place<'tcx>) -> J {
        let tcx = self.tcx;
        let mut pty = mir::PlaceTy::from_ty(self.body.local_decls[p.local].ty);
        let mut proj = Vec::new();
        for elem in p.projection.iter() {
            let e = match elem {
                PlaceElem::Deref => J::O(vec![("k", J::S("deref".into()))]),
                PlaceElem::Field(f, fty) => {
                    let mut o = vec![("k", J::S("field".into())), ("i", J::I(f.as_usize() as i128))];
                    match pty.ty.kind() {
                        ty::Adt(adt, _) => {
                            let v = pty.variant_index.unwrap_or(rustc_abi::FIRST_VARIANT);
                            let vd = adt.variant(v);
                            o.push(("name", J::S(vd.fields[f].name.to_string())));
                            o.push(("adt", J::S(path_s(tcx, adt.did()))));
                            if adt.is_enum() {
                                o.push(("variant", J::S(vd.name.to_string())));
                            }
                        }
                        ty::Closure(d, _) => {
                            o.push(("closure", J::S(path_s(tcx, *d))));
                        }
                        ty::Tuple(_) => {
                            o.push(("tuple", J::B(true)));
                        }
                        _ => {}
                    }
                    o.push(("fty", J::S(ty_s(fty))));
                    J::O(o)
                }
                PlaceElem::Downcast(_, vidx) => {
                    let mut o = vec![("k", J::S("downcast".into())), ("vi", J::I(vidx.as_usize() as i128))];
                    if let ty::Adt(adt, _) = pty.ty.kind() {
                        o.push(("variant", J::S(adt.variant(vidx).name.to_string())));
                        o.push(("adt", J::S(path_s(tcx, adt.did()))));
                    }
                    J::O(o)
                }
                PlaceElem::Index(l) => J::O(vec![("k", J::S("index".into())), ("l", J::I(l.as_usize() as i128))]),
                PlaceElem::ConstantIndex { offset, min_length, from_end } => J::O(vec![
                    ("k", J::S("constindex".into())),
                    ("offset", J::I(offset as i128)),
                    ("min_length", J::I(min_length as i128)),
                    ("from_end", J::B(from_end)),
                ]),
                PlaceElem::Subslice { from, to, from_end } => J::O(vec![
                    ("k", J::S("subslice".into())),
                    ("from", J::I(from as i128)),
                    ("to", J::I(to as i128)),
                    ("from_end", J::B(from_end)),
                ]),
                PlaceElem::OpaqueCast(_) => J::O(vec![("k", J::S("opaquecast".into()))]),
                PlaceElem::UnwrapUnsafeBinder(_) => J::O(vec![("k", J::S("unwrapbinder".into()))]),
            };
            proj.push(e);
            pty = pty.projection_ty(tcx, elem);
        }
        let mut o = vec![("l", J::I(p.local.as_usize() as i128))];
        if !proj.is_empty() {
            o.push(("p", J::A(proj)));
            o.push(("ty", J::S(ty_s(pty.ty))));
        }
        J::O(o)
    }

    fn operand(&mut self, op: &Operand<'tcx>) -> J {
        match op {
            Operand::Copy(p) => J::O(vec![("k", J::S("copy".into())), ("place", self.place(p))]),
            Operand::Move(p) => J::O(vec![("k", J::S("move".into())), ("place", self.place(p))]),
            Operand::Constant(c) => self.constant(&c.const_),
            #[allow(unreachable_patterns)]
            _ => J::O(vec![("k", J::S("other".into())), ("repr", J::S(format!("{:?}", op)))]),
        }
    }

    fn constant(&mut self, c: &mir::Const<'tcx>) -> J {
        let tcx = self.tcx;
        let ty = c.ty();
        let mut o = vec![("k", J::S("const".into())), ("ty", J::S(ty_s(ty)))];
        match ty.kind() {
            ty::FnDef(d, args) => {
                o.push(("fn", self.fnref(*d, args)));
            }
            _ => {
                if let mir::Const::Unevaluated(uv, _) = c {
                    if let Some(p) = uv.promoted {
                        o.push(("promoted", J::I(p.as_usize() as i128)));
                        o.push(("promoted_of", J::S(path_s(tcx, uv.def))));
                    } else {
                        o.push(("unevaluated", J::S(path_s(tcx, uv.def))));
                        o.push(("uv_args", args_j(uv.args)));
                    }
                }
                let prim = matches!(
                    ty.kind(),
                    ty::Bool | ty::Char | ty::Int(_) | ty::Uint(_) | ty::Float(_)
                );
                if prim {
                    if let Some(si) = c.try_eval_scalar_int(tcx, self.env) {
                        let size = si.size();
                        let bits = si.to_bits(size);
                        match ty.kind() {
                            ty::Int(_) => {
                                let v = size.sign_extend(bits) as i128;
                                o.push(("val", J::I(v)));
                            }
                            ty::Float(_) => {
                                o.push(("bits", J::S(format!("{}", bits))));
                            }
                            _ => {
                                if bits <= i128::MAX as u128 {
                                    o.push(("val", J::I(bits as i128)));
                                } else {
                                    o.push(("bits", J::S(format!("{}", bits))));
                                }
                            }
                        }
                    }
                }
                o.push(("repr", J::S(with_no_trimmed_paths!(format!("{}", c)))));
            }
        }
        J::O(o)
    }

    fn fnref(&mut self, d: DefId, args: GenericArgsRef<'tcx>) -> J {
        let tcx = self.tcx;
        if !d.is_local() {
            self.ext_callees.insert(d);
        }
        let mut o = vec![
            ("path", J::S(path_s(tcx, d))),
            ("args", args_j(args)),
            ("local", J::B(d.is_local())),
            ("crate", J::S(crate_of(tcx, d))),
        ];
        if let Some(assoc) = tcx.opt_associated_item(d) {
            if let Some(tr) = assoc.trait_container(tcx) {
                o.push(("trait", J::S(path_s(tcx, tr))));
            }
        }
        match Instance::try_resolve(tcx, self.env, d, args) {
            Ok(Some(inst)) => {
                let rd = inst.def_id();
                if !rd.is_local() {
                    self.ext_callees.insert(rd);
                }
                o.push(("resolved", inst_j(tcx, inst)));
            }
            Ok(None) => o.push(("resolved", J::Null)),
            Err(_) => o.push(("resolved", J::S("error".into()))),
        }
        J::O(o)
    }

    fn rvalue(&mut self, rv: &Rvalue<'tcx>) -> J {
        let tcx = self.tcx;
        match rv {
            Rvalue::Use(op, _) => J::O(vec![("k", J::S("use".into())), ("op", self.operand(op))]),
            Rvalue::Repeat(op, n) => J::O(vec![
                ("k", J::S("repeat".into())),
                ("op", self.operand(op)),
                ("n", J::S(format!("{}", n))),
            ]),
            Rvalue::Ref(_, bk, p) => {
                let m = match bk {
                    mir::BorrowKind::Shared => "shared",
                    mir::BorrowKind::Fake(_) => "fake",
                    mir::BorrowKind::Mut { .. } => "mut",
                };
                J::O(vec![("k", J::S("ref".into())), ("bk", J::S(m.into())), ("place", self.place(p))])
            }
            Rvalue::RawPtr(kind, p) => J::O(vec![
                ("k", J::S("rawptr".into())),
                ("kind", J::S(format!("{:?}", kind))),
                ("place", self.place(p)),
            ]),
            Rvalue::Cast(kind, op, ty) => J::O(vec![
                ("k", J::S("cast".into())),
                ("kind", J::S(format!("{:?}", kind))),
                ("op", self.operand(op)),
                ("ty", J::S(ty_s(*ty))),
                ("from", J::S(ty_s(op.ty(self.body, tcx)))),
            ]),
            Rvalue::BinaryOp(op, ab) => J::O(vec![
                ("k", J::S("binop".into())),
                ("op", J::S(format!("{:?}", op))),
                ("a", self.operand(&ab.0)),
                ("b", self.operand(&ab.1)),
                ("aty", J::S(ty_s(ab.0.ty(self.body, tcx)))),
            ]),
            Rvalue::UnaryOp(op, a) => J::O(vec![
                ("k", J::S("unop".into())),
                ("op", J::S(format!("{:?}", op))),
                ("a", self.operand(a)),
            ]),
            Rvalue::Discriminant(p) => J::O(vec![("k", J::S("discriminant".into())), ("place", self.place(p))]),
            Rvalue::Aggregate(kind, ops) => {
                let mut o = vec![("k", J::S("aggregate".into()))];
                match &**kind {
                    AggregateKind::Array(t) => {
                        o.push(("agg", J::S("array".into())));
                        o.push(("elem", J::S(ty_s(*t))));
                    }
                    AggregateKind::Tuple => o.push(("agg", J::S("tuple".into()))),
                    AggregateKind::Adt(d, vidx, args, _, active) => {
                        let adt = tcx.adt_def(*d);
                        let vd = adt.variant(*vidx);
                        o.push(("agg", J::S("adt".into())));
                        o.push(("adt", J::S(path_s(tcx, *d))));
                        o.push(("variant", J::S(vd.name.to_string())));
                        o.push(("vi", J::I(vidx.as_usize() as i128)));
                        o.push(("is_enum", J::B(adt.is_enum())));
                        o.push(("targs", args_j(args)));
                        o.push((
                            "fields",
                            J::A(vd.fields.iter().map(|f| J::S(f.name.to_string())).collect()),
                        ));
                        if let Some(a) = active {
                            o.push(("active", J::I(a.as_usize() as i128)));
                        }
                    }
                    AggregateKind::Closure(d, args) => {
                        o.push(("agg", J::S("closure".into())));
                        o.push(("closure", J::S(path_s(tcx, *d))));
                        let _ = args;
                    }
                    AggregateKind::Coroutine(d, _) | AggregateKind::CoroutineClosure(d, _) => {
                        o.push(("agg", J::S("coroutine".into())));
                        o.push(("closure", J::S(path_s(tcx, *d))));
                    }
                    AggregateKind::RawPtr(t, _) => {
                        o.push(("agg", J::S("rawptr".into())));
                        o.push(("elem", J::S(ty_s(*t))));
                    }
                }
                let opsj: Vec<J> = ops.iter().map(|x| self.operand(x)).collect();
                o.push(("ops", J::A(opsj)));
                J::O(o)
            }
            Rvalue::CopyForDeref(p) => J::O(vec![("k", J::S("copyforderef".into())), ("place", self.place(p))]),
            Rvalue::ThreadLocalRef(d) => J::O(vec![("k", J::S("threadlocalref".into())), ("def", J::S(path_s(tcx, *d)))]),
            Rvalue::WrapUnsafeBinder(op, _) => J::O(vec![("k", J::S("wrapbinder".into())), ("op", self.operand(op))]),
            #[allow(unreachable_patterns)]
            _ => J::O(vec![("k", J::S("other".into())), ("repr", J::S(format!("{:?}", rv)))]),
        }
    }

    fn block(&mut self, bb: BasicBlock) -> J {
        let tcx = self.tcx;
        let data = &self.body.basic_blocks[bb];
        let mut stmts = Vec::new();
        for st in data.statements.iter() {
            match &st.kind {
                StatementKind::Assign(b) => {
                    let (p, rv) = &**b;
                    stmts.push(J::O(vec![
                        ("k", J::S("assign".into())),
                        ("place", self.place(p)),
                        ("rv", self.rvalue(rv)),
                        ("span", span_j(tcx, st.source_info.span)),
                    ]));
                }
                StatementKind::SetDiscriminant { place, variant_index } => {
                    stmts.push(J::O(vec![
                        ("k", J::S("setdiscr".into())),
                        ("place", self.place(place)),
                        ("vi", J::I(variant_index.as_usize() as i128)),
                    ]));
                }
                StatementKind::Intrinsic(i) => {
                    stmts.push(J::O(vec![("k", J::S("intrinsic".into())), ("repr", J::S(format!("{:?}", i)))]));
                }
                _ => {}
            }
        }
        let term = data.terminator();
        let tspan = span_j(tcx, term.source_info.span);
        let t = match &term.kind {
            TerminatorKind::Goto { target } => J::O(vec![("k", J::S("goto".into())), ("t", J::I(target.as_usize() as i128))]),
            TerminatorKind::SwitchInt { discr, targets } => {
                let mut ts = Vec::new();
                for (v, t) in targets.iter() {
                    let vj = if v <= i128::MAX as u128 { J::I(v as i128) } else { J::S(format!("{}", v)) };
                    ts.push(J::A(vec![vj, J::I(t.as_usize() as i128)]));
                }
                J::O(vec![
                    ("k", J::S("switch".into())),
                    ("op", self.operand(discr)),
                    ("opty", J::S(ty_s(discr.ty(self.body, tcx)))),
                    ("targets", J::A(ts)),
                    ("otherwise", J::I(targets.otherwise().as_usize() as i128)),
                ])
            }
            TerminatorKind::UnwindResume => J::O(vec![("k", J::S("resume".into()))]),
            TerminatorKind::UnwindTerminate(_) => J::O(vec![("k", J::S("terminate".into()))]),
            TerminatorKind::Return => J::O(vec![("k", J::S("return".into()))]),
            TerminatorKind::Unreachable => J::O(vec![("k", J::S("unreachable".into()))]),
            TerminatorKind::Drop { place, target, .. } => J::O(vec![
                ("k", J::S("drop".into())),
                ("place", self.place(place)),
                ("t", J::I(target.as_usize() as i128)),
            ]),
            TerminatorKind::Call { func, args, destination, target, fn_span, .. } => {
                let mut o = vec![("k", J::S("call".into())), ("func", self.operand(func))];
                let a: Vec<J> = args.iter().map(|x| self.operand(&x.node)).collect();
                o.push(("args", J::A(a)));
                let at: Vec<J> = args.iter().map(|x| J::S(ty_s(x.node.ty(self.body, tcx)))).collect();
                o.push(("argtys", J::A(at)));
                o.push(("dest", self.place(destination)));
                o.push(("t", match target { Some(t) => J::I(t.as_usize() as i128), None => J::Null }));
                o.push(("fn_span", span_j(tcx, *fn_span)));
                J::O(o)
            }
            TerminatorKind::TailCall { func, args, .. } => {
                let mut o = vec![("k", J::S("tailcall".into())), ("func", self.operand(func))];
                let a: Vec<J> = args.iter().map(|x| self.operand(&x.node)).collect();
                o.push(("args", J::A(a)));
                J::O(o)
            }
            TerminatorKind::Assert { cond, expected, msg, target, .. } => {
                let (kind, ops): (String, Vec<J>) = match &**msg {
                    AssertKind::BoundsCheck { len, index } => ("BoundsCheck".into(), vec![self.operand(len), self.operand(index)]),
                    AssertKind::Overflow(op, a, b) => (format!("Overflow:{:?}", op), vec![self.operand(a), self.operand(b)]),
                    AssertKind::OverflowNeg(a) => ("OverflowNeg".into(), vec![self.operand(a)]),
                    AssertKind::DivisionByZero(a) => ("DivisionByZero".into(), vec![self.operand(a)]),
                    AssertKind::RemainderByZero(a) => ("RemainderByZero".into(), vec![self.operand(a)]),
                    AssertKind::MisalignedPointerDereference { .. } => ("MisalignedPointerDereference".into(), vec![]),
                    AssertKind::NullPointerDereference => ("NullPointerDereference".into(), vec![]),
                    AssertKind::InvalidEnumConstruction(a) => ("InvalidEnumConstruction".into(), vec![self.operand(a)]),
                    other => (format!("{:?}", other), vec![]),
                };
                J::O(vec![
                    ("k", J::S("assert".into())),
                    ("cond", self.operand(cond)),
                    ("expected", J::B(*expected)),
                    ("kind", J::S(kind)),
                    ("ops", J::A(ops)),
                    ("t", J::I(target.as_usize() as i128)),
                ])
            }
            TerminatorKind::FalseEdge { real_target, .. } => J::O(vec![("k", J::S("goto".into())), ("t", J::I(real_target.as_usize() as i128))]),
            TerminatorKind::FalseUnwind { real_target, .. } => J::O(vec![("k", J::S("goto".into())), ("t", J::I(real_target.as_usize() as i128))]),
            other => J::O(vec![("k", J::S("other".into())), ("repr", J::S(format!("{:?}", other)))]),
        };
        J::O(vec![
            ("stmts", J::A(stmts)),
            ("term", t),
            ("tspan", tspan),
            ("cleanup", J::B(data.is_cleanup)),
        ])
    }
}

fn body_j<'tcx>(tcx: TyCtxt<'tcx>, body: &Body<'tcx>, env: TypingEnv<'tcx>, ext: &mut HashSet<DefId>) -> J {
    let mut cx = Cx { tcx, body, env, ext_callees: ext };
    let mut locals = Vec::new();
    for (_l, d) in body.local_decls.iter_enumerated() {
        locals.push(J::O(vec![("ty", J::S(ty_s(d.ty)))]));
    }
    let mut dbg = Vec::new();
    for v in body.var_debug_info.iter() {
        if let mir::VarDebugInfoContents::Place(p) = &v.value {
            dbg.push(J::O(vec![("name", J::S(v.name.to_string())), ("place", cx.place(p))]));
        }
    }
    let mut blocks = Vec::new();
    for (bb, _) in body.basic_blocks.iter_enumerated() {
        blocks.push(cx.block(bb));
    }
    J::O(vec![
        ("arg_count", J::I(body.arg_count as i128)),
        ("locals", J::A(locals)),
        ("debug", J::A(dbg)),
        ("blocks", J::A(blocks)),
    ])
}

// ---------------------------------------------------------------------------

fn has_panics_doc(tcx: TyCtxt<'_>, d: DefId) -> (bool, bool) {
    // (has any doc, has a "# Panics" section)
    let mut any = false;
    let mut pan = false;
    let mut check = |d: DefId| {
        for a in tcx.get_all_attrs(d).iter() {
            if let Some(s) = a.doc_str() {
                any = true;
                let s = s.as_str();
                for line in s.lines() {
                    let t = line.trim();
                    if t.starts_with('#') && t.trim_start_matches('#').trim().eq_ignore_ascii_case("panics") {
                        pan = true;
                    }
                }
            }
        }
    };
    check(d);
    if let Some(assoc) = tcx.opt_associated_item(d) {
        if let Some(t) = assoc.trait_item_def_id() {
            if t != d {
                check(t);
            }
        }
    }
    (any, pan)
}

struct UnsafeVisitor<'tcx> {
    tcx: TyCtxt<'tcx>,
    found: Vec<J>,
}

impl<'tcx> rustc_hir::intravisit::Visitor<'tcx> for UnsafeVisitor<'tcx> {
    type NestedFilter = rustc_middle::hir::nested_filter::OnlyBodies;
    fn maybe_tcx(&mut self) -> Self::MaybeTyCtxt {
        self.tcx
    }
    fn visit_block(&mut self, b: &'tcx rustc_hir::Block<'tcx>) {
        if let rustc_hir::BlockCheckMode::UnsafeBlock(src) = b.rules {
            let user = matches!(src, rustc_hir::UnsafeSource::UserProvided);
            self.found.push(J::O(vec![
                ("what", J::S("unsafe_block".into())),
                ("user", J::B(user)),
                ("span", span_j(self.tcx, b.span)),
            ]));
        }
        rustc_hir::intravisit::walk_block(self, b);
    }
}

fn extract<'tcx>(tcx: TyCtxt<'tcx>) -> J {
    let mut ext: HashSet<DefId> = HashSet::new();
    let mut bodies: Vec<(String, J)> = Vec::new();
    let mut promoted: Vec<(String, J)> = Vec::new();
    let mut by_path: HashMap<String, DefId> = HashMap::new();
    let mut aliases: Vec<J> = Vec::new();

    for ldid in tcx.hir_body_owners() {
        let did = ldid.to_def_id();
        let kind = tcx.def_kind(did);
        if !matches!(kind, DefKind::Fn | DefKind::AssocFn | DefKind::Closure) {
            continue;
        }
        let path = path_s(tcx, did);
        by_path.insert(path.clone(), did);
        // alias usable as a root spec: "@<trait path>|<self type>|<method name>"
        if let Some(assoc) = tcx.opt_associated_item(did) {
            if let Some(imp) = assoc.impl_container(tcx) {
                if matches!(tcx.def_kind(imp), DefKind::Impl { of_trait: true }) {
                    let tr = tcx.impl_trait_ref(imp).instantiate_identity().skip_norm_wip();
                    let self_ty = tcx.type_of(imp).instantiate_identity().skip_norm_wip();
                    let canon = format!("{}{}", tcx.crate_name(tr.def_id.krate), tcx.def_path(tr.def_id).to_string_no_crate_verbose());
                    let canon = if let Some(rest) = canon.strip_prefix("serde_core::") { format!("serde::{}", rest) } else { canon };
                    let alias = format!("@{}|{}|{}", canon, ty_s(self_ty), assoc.name());
                    if !tcx.is_automatically_derived(imp) || canon.ends_with("Serialize") {
                        aliases.push(J::S(alias.clone()));
                    }
                    by_path.insert(alias, did);
                }
            }
        }
        let body = tcx.optimized_mir(did);
        let env = TypingEnv::post_analysis(tcx, did);
        let mut o = vec![
            ("path", J::S(path.clone())),
            ("kind", J::S(format!("{:?}", kind))),
            ("span", span_j(tcx, tcx.def_span(did))),
        ];
        if matches!(kind, DefKind::Fn | DefKind::AssocFn) {
            let sig = tcx.fn_sig(did).instantiate_identity().skip_norm_wip();
            o.push(("sig", J::S(with_no_trimmed_paths!(format!("{}", sig)))));
            o.push(("unsafe_fn", J::B(!sig.safety().is_safe())));
            let g = tcx.generics_of(did);
            let names: Vec<J> = (0..g.count()).map(|i| J::S(g.param_at(i, tcx).name.to_string())).collect();
            o.push(("generics", J::A(names)));
            let vis = tcx.visibility(did);
            o.push(("pub", J::B(vis.is_public())));
        }
        // parent impl
        let mut parent = did;
        loop {
            match tcx.opt_parent(parent) {
                Some(p) => {
                    parent = p;
                    let pk = tcx.def_kind(p);
                    if matches!(pk, DefKind::Impl { .. }) {
                        let self_ty = tcx.type_of(p).instantiate_identity().skip_norm_wip();
                        let mut io = vec![("self_ty", J::S(ty_s(self_ty))), ("impl", J::S(path_s(tcx, p)))];
                        if let DefKind::Impl { of_trait: true } = pk {
                            let tr = tcx.impl_trait_ref(p).instantiate_identity().skip_norm_wip();
                            io.push(("trait", J::S(path_s(tcx, tr.def_id))));
                            io.push(("trait_ref", J::S(with_no_trimmed_paths!(format!("{}", tr)))));
                        }
                        io.push(("derived", J::B(tcx.is_automatically_derived(p))));
                        o.push(("parent_impl", J::O(io)));
                        break;
                    }
                    if matches!(pk, DefKind::Mod | DefKind::Trait) {
                        if matches!(pk, DefKind::Trait) {
                            o.push(("parent_trait", J::S(path_s(tcx, p))));
                        }
                        break;
                    }
                }
                None => break,
            }
        }
        o.push(("mir", body_j(tcx, body, env, &mut ext)));
        let proms = tcx.promoted_mir(did);
        if !proms.is_empty() {
            let mut pv = Vec::new();
            for pb in proms.iter() {
                pv.push(body_j(tcx, pb, env, &mut ext));
            }
            promoted.push((path.clone(), J::A(pv)));
        }
        bodies.push((path, J::O(o)));
    }

    // constant items (free, inherent and trait-impl associated consts): their CTFE bodies, so that enum-typed
    // constants and `<T as Trait>::CONST` references can be resolved by the analyses
    let mut consts: Vec<(String, J)> = Vec::new();
    for ldid in tcx.hir_body_owners() {
        let did = ldid.to_def_id();
        let kind = tcx.def_kind(did);
        if !matches!(kind, DefKind::Const { .. } | DefKind::AssocConst { .. }) {
            continue;
        }
        if tcx.generics_of(did).count() != 0 && tcx.generics_of(did).own_params.len() != 0 {
            continue;
        }
        let path = path_s(tcx, did);
        let mut o = vec![("path", J::S(path.clone())), ("span", span_j(tcx, tcx.def_span(did)))];
        if let Some(assoc) = tcx.opt_associated_item(did) {
            o.push(("name", J::S(assoc.name().to_string())));
            if let Some(imp) = assoc.impl_container(tcx) {
                let self_ty = tcx.type_of(imp).instantiate_identity().skip_norm_wip();
                o.push(("self_ty", J::S(ty_s(self_ty))));
                if matches!(tcx.def_kind(imp), DefKind::Impl { of_trait: true }) {
                    let tr = tcx.impl_trait_ref(imp).instantiate_identity().skip_norm_wip();
                    o.push(("trait", J::S(path_s(tcx, tr.def_id))));
                    if let Some(ti) = assoc.trait_item_def_id() {
                        o.push(("trait_item", J::S(path_s(tcx, ti))));
                    }
                }
            } else if let Some(tr) = assoc.trait_container(tcx) {
                o.push(("in_trait", J::S(path_s(tcx, tr))));
            }
        }
        let has_params = tcx.generics_of(did).count() != 0;
        if !has_params {
            let body = tcx.mir_for_ctfe(did);
            let env = TypingEnv::post_analysis(tcx, did);
            o.push(("mir", body_j(tcx, body, env, &mut ext)));
        }
        consts.push((path, J::O(o)));
    }

    // ADTs, statics, impls
    let mut adts: Vec<(String, J)> = Vec::new();
    let mut statics: Vec<J> = Vec::new();
    let mut impls: Vec<J> = Vec::new();
    let mut others: Vec<J> = Vec::new();
    let sm = tcx.sess.source_map();
    let attr_snips = |d: DefId| -> J {
        let mut v = Vec::new();
        for a in tcx.get_all_attrs(d).iter() {
            if a.doc_str().is_some() {
                continue;
            }
            match a {
                rustc_hir::Attribute::Unparsed(item) => {
                    if let Ok(s) = sm.span_to_snippet(item.span) {
                        v.push(J::S(s));
                    } else {
                        v.push(J::S(format!("{:?}", a.name())));
                    }
                }
                rustc_hir::Attribute::Parsed(k) => {
                    let d = format!("{:?}", k);
                    let head: String = d.chars().take_while(|c| c.is_alphanumeric() || *c == '_').collect();
                    v.push(J::S(format!("parsed:{}", head)));
                }
            }
        }
        J::A(v)
    };
    for ld in tcx.hir_crate_items(()).definitions() {
        let d = ld.to_def_id();
        let k = tcx.def_kind(d);
        match k {
            DefKind::Struct | DefKind::Enum | DefKind::Union => {
                let adt = tcx.adt_def(d);
                let mut vars = Vec::new();
                for (vi, v) in adt.variants().iter_enumerated() {
                    let mut fields = Vec::new();
                    for f in v.fields.iter() {
                        let fty = tcx.type_of(f.did).instantiate_identity().skip_norm_wip();
                        fields.push(J::O(vec![
                            ("name", J::S(f.name.to_string())),
                            ("ty", J::S(ty_s(fty))),
                            ("pub", J::B(f.vis.is_public())),
                            ("attrs", attr_snips(f.did)),
                        ]));
                    }
                    let mut vo = vec![
                        ("name", J::S(v.name.to_string())),
                        ("vi", J::I(vi.as_usize() as i128)),
                        ("fields", J::A(fields)),
                        ("attrs", attr_snips(v.def_id)),
                    ];
                    if adt.is_enum() {
                        let dv = adt.discriminant_for_variant(tcx, vi);
                        vo.push(("discr", J::S(format!("{}", dv.val))));
                    }
                    vars.push(J::O(vo));
                }
                let p = path_s(tcx, d);
                adts.push((
                    p.clone(),
                    J::O(vec![
                        ("path", J::S(p)),
                        ("kind", J::S(format!("{:?}", k))),
                        ("repr", J::S(format!("{:?}", adt.repr().int))),
                        ("variants", J::A(vars)),
                        ("attrs", attr_snips(d)),
                        ("span", span_j(tcx, tcx.def_span(d))),
                        ("pub", J::B(tcx.visibility(d).is_public())),
                    ]),
                ));
            }
            DefKind::Static { mutability, nested, .. } => {
                let t = tcx.type_of(d).instantiate_identity().skip_norm_wip();
                statics.push(J::O(vec![
                    ("path", J::S(path_s(tcx, d))),
                    ("ty", J::S(ty_s(t))),
                    ("mut", J::B(mutability.is_mut())),
                    ("nested", J::B(nested)),
                    ("freeze", J::B(t.is_freeze(tcx, TypingEnv::fully_monomorphized()))),
                    ("span", span_j(tcx, tcx.def_span(d))),
                ]));
            }
            DefKind::Impl { of_trait } => {
                let self_ty = tcx.type_of(d).instantiate_identity().skip_norm_wip();
                let mut io = vec![
                    ("path", J::S(path_s(tcx, d))),
                    ("self_ty", J::S(ty_s(self_ty))),
                    ("derived", J::B(tcx.is_automatically_derived(d))),
                    ("span", span_j(tcx, tcx.def_span(d))),
                ];
                if of_trait {
                    let tr = tcx.impl_trait_ref(d).instantiate_identity().skip_norm_wip();
                    io.push(("trait", J::S(path_s(tcx, tr.def_id))));
                    io.push(("trait_ref", J::S(with_no_trimmed_paths!(format!("{}", tr)))));
                    let hdr = tcx.impl_trait_header(d);
                    io.push(("unsafe", J::B(!hdr.safety.is_safe())));
                }
                impls.push(J::O(io));
            }
            DefKind::ForeignMod | DefKind::GlobalAsm | DefKind::ForeignTy => {
                others.push(J::O(vec![("path", J::S(path_s(tcx, d))), ("kind", J::S(format!("{:?}", k)))]));
            }
            _ => {}
        }
    }

    // unsafe inventory (HIR)
    let mut uv = UnsafeVisitor { tcx, found: Vec::new() };
    tcx.hir_visit_all_item_likes_in_crate(&mut uv);
    let unsafe_inv = uv.found;

    // instance graph
    let roots_env = std::env::var("NFSA_ROOTS").unwrap_or_default();
    let mut graph_nodes: Vec<J> = Vec::new();
    let mut roots_found: Vec<J> = Vec::new();
    let mut serialize_method: Option<DefId> = None;
    // locate serde::ser::Serialize::serialize via any local impl
    for (path, did) in by_path.iter() {
        let _ = path;
        if let Some(assoc) = tcx.opt_associated_item(*did) {
            if let Some(t) = assoc.trait_item_def_id() {
                if canon_path(tcx, t) == "serde::ser::Serialize::serialize" {
                    serialize_method = Some(t);
                    break;
                }
            }
        }
    }
    {
        let mut ids: HashMap<String, usize> = HashMap::new();
        let mut insts: Vec<Instance<'tcx>> = Vec::new();
        let mut edges: Vec<BTreeSet<usize>> = Vec::new();
        let mut unresolved: Vec<Vec<String>> = Vec::new();
        let mut envs: Vec<TypingEnv<'tcx>> = Vec::new();
        let mut queue: VecDeque<usize> = VecDeque::new();
        let mut root_ids: Vec<(String, usize)> = Vec::new();
        let mut intern = |inst: Instance<'tcx>,
                          env: TypingEnv<'tcx>,
                          ids: &mut HashMap<String, usize>,
                          insts: &mut Vec<Instance<'tcx>>,
                          edges: &mut Vec<BTreeSet<usize>>,
                          unresolved: &mut Vec<Vec<String>>,
                          envs: &mut Vec<TypingEnv<'tcx>>,
                          queue: &mut VecDeque<usize>|
         -> usize {
            let key = format!("{}#{}", inst_id(tcx, inst), kind_name(&inst.def));
            if let Some(i) = ids.get(&key) {
                return *i;
            }
            let i = insts.len();
            ids.insert(key, i);
            insts.push(inst);
            edges.push(BTreeSet::new());
            unresolved.push(Vec::new());
            envs.push(env);
            queue.push_back(i);
            i
        };
        for r in roots_env.split(';').map(|s| s.trim()).filter(|s| !s.is_empty()) {
            match by_path.get(r) {
                Some(did) => {
                    let inst = Instance::new_raw(*did, ty::GenericArgs::identity_for_item(tcx, *did));
                    let env = TypingEnv::post_analysis(tcx, *did);
                    let i = intern(inst, env, &mut ids, &mut insts, &mut edges, &mut unresolved, &mut envs, &mut queue);
                    root_ids.push((r.to_string(), i));
                }
                None => {
                    roots_found.push(J::O(vec![("root", J::S(r.to_string())), ("missing", J::B(true))]));
                }
            }
        }
        while let Some(i) = queue.pop_front() {
            let inst = insts[i];
            let env = envs[i];
            let has_mir = match inst.def {
                InstanceKind::Item(d) => tcx.is_mir_available(d),
                InstanceKind::Intrinsic(_) | InstanceKind::Virtual(..) => false,
                InstanceKind::DropGlue(_, None) => false,
                _ => true,
            };
            if !has_mir {
                continue;
            }
            let body = tcx.instance_mir(inst.def);
            for bbdata in body.basic_blocks.iter() {
                let term = bbdata.terminator();
                let func = match &term.kind {
                    TerminatorKind::Call { func, .. } => func,
                    TerminatorKind::TailCall { func, .. } => func,
                    _ => continue,
                };
                let fty = func.ty(body, tcx);
                let fty = match inst.try_instantiate_mir_and_normalize_erasing_regions(tcx, env, EarlyBinder::bind(fty)) {
                    Ok(t) => t,
                    Err(_) => {
                        unresolved[i].push(format!("normalize-failed:{}", ty_s(fty)));
                        continue;
                    }
                };
                match fty.kind() {
                    ty::FnDef(d, args) => match Instance::try_resolve(tcx, env, *d, args) {
                        Ok(Some(callee)) => {
                            let j = intern(callee, env, &mut ids, &mut insts, &mut edges, &mut unresolved, &mut envs, &mut queue);
                            edges[i].insert(j);
                        }
                        _ => {
                            let mut handled = false;
                            // generic serializer: follow value types to their Serialize impls
                            if let Some(sm_def) = serialize_method {
                                let pth = canon_path(tcx, *d);
                                if pth.starts_with("serde::ser::") {
                                    if let Some(s_param) = inst.args.iter().last() {
                                        let mut tys: Vec<Ty<'tcx>> = Vec::new();
                                        for a in args.iter().skip(1) {
                                            if let Some(t) = a.as_type() {
                                                component_types(t, &mut tys, 0);
                                            }
                                        }
                                        for t in tys {
                                            let nargs = tcx.mk_args(&[t.into(), s_param]);
                                            if let Ok(Some(callee)) = Instance::try_resolve(tcx, env, sm_def, nargs) {
                                                let j = intern(callee, env, &mut ids, &mut insts, &mut edges, &mut unresolved, &mut envs, &mut queue);
                                                edges[i].insert(j);
                                                handled = true;
                                            }
                                        }
                                    }
                                }
                            }
                            let tag = if handled { "serde-generic" } else { "unresolved" };
                            unresolved[i].push(format!("{}:{}", tag, with_no_trimmed_paths!(tcx.def_path_str_with_args(*d, args))));
                        }
                    },
                    _ => {
                        unresolved[i].push(format!("indirect:{}", ty_s(fty)));
                    }
                }
            }
        }
        for (i, inst) in insts.iter().enumerate() {
            let d = inst.def_id();
            let has_mir = match inst.def {
                InstanceKind::Item(d) => tcx.is_mir_available(d),
                InstanceKind::Intrinsic(_) | InstanceKind::Virtual(..) => false,
                InstanceKind::DropGlue(_, None) => false,
                _ => true,
            };
            let mut asserts: BTreeMap<String, i128> = BTreeMap::new();
            if has_mir && !d.is_local() {
                let body = tcx.instance_mir(inst.def);
                for bbdata in body.basic_blocks.iter() {
                    if let TerminatorKind::Assert { msg, .. } = &bbdata.terminator().kind {
                        let k = match &**msg {
                            AssertKind::BoundsCheck { .. } => "BoundsCheck",
                            AssertKind::Overflow(..) => "Overflow",
                            AssertKind::OverflowNeg(_) => "OverflowNeg",
                            AssertKind::DivisionByZero(_) => "DivisionByZero",
                            AssertKind::RemainderByZero(_) => "RemainderByZero",
                            AssertKind::MisalignedPointerDereference { .. } => "Misaligned",
                            AssertKind::NullPointerDereference => "NullPtr",
                            _ => "Other",
                        };
                        *asserts.entry(k.to_string()).or_insert(0) += 1;
                    }
                }
            }
            graph_nodes.push(J::O(vec![
                ("i", J::I(i as i128)),
                ("id", J::S(inst_id(tcx, *inst))),
                ("path", J::S(path_s(tcx, d))),
                ("args", args_j(inst.args)),
                ("kind", J::S(kind_name(&inst.def).to_string())),
                ("local", J::B(d.is_local())),
                ("crate", J::S(crate_of(tcx, d))),
                ("has_mir", J::B(has_mir)),
                ("callees", J::A(edges[i].iter().map(|x| J::I(*x as i128)).collect())),
                ("unresolved", J::A(unresolved[i].iter().map(|s| J::S(s.clone())).collect())),
                ("asserts", J::OD(asserts.into_iter().map(|(k, v)| (k, J::I(v))).collect())),
            ]));
        }
        for (r, i) in root_ids {
            roots_found.push(J::O(vec![("root", J::S(r)), ("node", J::I(i as i128))]));
        }
    }

    // extern docs
    let mut docs: Vec<(String, J)> = Vec::new();
    for d in ext.iter() {
        let (any, pan) = has_panics_doc(tcx, *d);
        docs.push((
            path_s(tcx, *d),
            J::O(vec![("doc", J::B(any)), ("panics", J::B(pan)), ("crate", J::S(crate_of(tcx, *d)))]),
        ));
    }

    // config
    let mut cfgs: Vec<J> = Vec::new();
    for (name, val) in tcx.sess.config.iter() {
        if name.as_str() == "feature" {
            if let Some(v) = val {
                cfgs.push(J::S(v.to_string()));
            }
        }
    }
    let config = J::O(vec![
        ("crate", J::S(tcx.crate_name(LOCAL_CRATE).to_string())),
        ("features", J::A(cfgs)),
        ("rustc", J::S(rustc_interface::util::rustc_version_str().unwrap_or("unknown").to_string())),
        ("driver", J::S(DRIVER_VERSION.to_string())),
        ("overflow_checks", J::B(tcx.sess.overflow_checks())),
        ("debug_assertions", J::B(tcx.sess.opts.debug_assertions)),
        ("mir_opt_level", J::I(tcx.sess.mir_opt_level() as i128)),
    ]);

    J::O(vec![
        ("config", config),
        ("bodies", J::OD(bodies)),
        ("promoted", J::OD(promoted)),
        ("consts", J::OD(consts)),
        ("adts", J::OD(adts)),
        ("statics", J::A(statics)),
        ("impls", J::A(impls)),
        ("other_items", J::A(others)),
        ("unsafe", J::A(unsafe_inv)),
        ("graph", J::O(vec![("roots", J::A(roots_found)), ("nodes", J::A(graph_nodes))])),
        ("extern_docs", J::OD(docs)),
        ("root_aliases", J::A(aliases)),
    ])
}
