#!/bin/sh
# usage: run.sh <repo> <out.json> [extra cargo args...]   (env NFSA_ROOTS, NFSA_RUSTFLAGS)
set -e
REPO=$1; OUT=$2; shift 2
T=$(mktemp -d /tmp/nfsa_t.XXXXXX)
trap 'rm -rf "$T"' EXIT
cd "$REPO"
LD_LIBRARY_PATH=$(rustc +nightly --print sysroot)/lib \
RUSTFLAGS="-Zmir-opt-level=0 -Zalways-encode-mir -Awarnings $NFSA_RUSTFLAGS" \
RUSTC_WORKSPACE_WRAPPER=/verif/driver/target/release/nfsa-driver \
NFSA_OUT=$OUT CARGO_TARGET_DIR=$T CARGO_NET_OFFLINE=true \
cargo +nightly check --offline --lib "$@" >"$T/log" 2>&1 || { cat "$T/log"; exit 2; }
