#!/usr/bin/env python3
"""Regenerates MANIFEST.json from the rule modules (single source of truth for level/explanation)."""
import importlib, json, os, sys
HERE = os.path.dirname(os.path.abspath(__file__))
sys.path.insert(0, HERE)
CLAIMED = sys.argv[1:] or []
TECH = {
 "C01": "reachability-scoped MIR panic-site discharge + instance call-graph SCC (recursion) + loop-boundedness rules (custom rustc_private driver)",
 "C02": "CFG path rules + def-use slicing on parse_bytes/dispatcher MIR; parser wire-layout dataflow for body-length constants",
 "C03": "nom-derive parser wire-layout dataflow vs independent Cisco offset table; switch-table extraction vs IANA table",
 "C04": "wire-layout dataflow + switch tables (width table, lookup tables) + def-use slicing of record count / decode loop",
 "C05": "wire-layout dataflow + constant/condition extraction (var-len, enterprise bit, set dispatch) on MIR",
 "C06": "who-may-write / typestate-style access-path analysis of cache maps over all MIR bodies + dominance guards",
 "C07": "guard dominance (contains_key true-edge dominates decoder calls) with map/key agreement by def-use slicing",
 "C08": "exporter byte-layout abstract interpretation vs parser wire-layout (reader/writer table agreement)",
 "C09": "exporter/parser layout agreement per flowset kind + value codec inverse-pair table from switch arms",
 "C10": "exporter/parser layout agreement + information-loss rules (stored field = wire value, no orphan bytes)",
 "C11": "structural rules on the packet loop: same receiver, own remainder, order-preserving push, no per-call state",
 "C12": "gate dominance + conditional reachability dispatch table on dispatcher MIR",
 "C13": "projection table extraction (aggregate operands / BTreeMap::get keys) + producer/consumer variant-kind agreement",
 "C14": "complete-mode primitive inventory, count/take delimitation, call-graph dominators for streaming parsers",
 "C15": "shape rules: capacity-style allocation arguments, loop-invariant clones in repetitions (def-use slicing)",
 "C16": "serialized type-graph closure, derive coverage from serialize MIR, hash-iteration who-may-call rule",
 "C17": "rustc type-check of the feature-off configuration + differential MIR comparison across configurations",
}
def main():
    claimed = [p for p in ["C%02d" % i for i in range(1, 18)] if os.path.exists(os.path.join(HERE, "nfsa", "rules", p.lower() + ".py"))]
    na_path = os.path.join(HERE, "not_applicable.json")
    na = json.load(open(na_path)) if os.path.exists(na_path) else []
    na_ids = set(x["property_id"] for x in na)
    checks = []
    for pid in claimed:
        if pid in na_ids:
            continue
        m = importlib.import_module("nfsa.rules." + pid.lower())
        checks.append({
            "property_id": pid,
            "quick_cmd": "./check %s --tier quick" % pid,
            "thorough_cmd": "./check %s --tier thorough" % pid,
            "evidence_file": "/verif/evidence/%s.json" % pid,
            "replay_cmd_template": "./check %s --replay {path}" % pid,
            "engine": "nfsa",
            "level_claimed": {"category": m.LEVEL, "text": m.EXPLANATION, "design_ref": "DESIGN.md §4.%d" % int(pid[1:])},
            "level_note": "Trusted base: rustc nightly front end + MIR construction; documented contracts of core/alloc/std, nom 7.1.3, nom-derive 0.10.1, serde, byteorder, mac_address; the /verif driver and rule engine. Assumes: " + "; ".join(m.ASSUMPTIONS),
            "technique": "static analysis: " + TECH[pid],
        })
    missing = [p for p in ["C%02d" % i for i in range(1, 18)] if p not in [c["property_id"] for c in checks] and p not in na_ids]
    for p in missing:
        na.append({"property_id": p, "reason": "no rule module yet (work in progress); not claimed"})
    man = {
        "version": 1,
        "setup_cmd": "cd /verif/driver && CARGO_NET_OFFLINE=true cargo build --release --offline",
        "hooks": {"guard": "netflow_parser_verif", "enable": "none needed: static analysis reads the compiler's MIR of the unmodified crate; no instrumentation exists in /repo",
                  "baseline_off_cmd": "cd /repo && cargo test --workspace --no-fail-fast --offline", "source_commits": [], "add_only": True},
        "engines": [{"name": "nfsa", "path": "/verif/nfsa", "serves_properties": [c["property_id"] for c in checks],
                     "kind_free_text": "custom rustc_private MIR fact extractor (driver/) + python rule engine: CFG dominance, def-use slicing with closure application, nom-derive wire-layout dataflow, exporter layout abstract interpretation, instance call graph through dependency MIR"}],
        "checks": checks,
        "not_applicable": na,
        "notes": "All checks are static: `cargo +nightly check` with a RUSTC_WORKSPACE_WRAPPER driver, no netflow_parser code is executed. Facts are cached under /verif/.cache keyed by a content hash of /repo's working tree.",
    }
    json.dump(man, open(os.path.join(HERE, "MANIFEST.json"), "w"), indent=1)
    print("claimed:", [c["property_id"] for c in checks], "n/a:", [x["property_id"] for x in na])
main()
