//! C03: "The symbolic protocol name attached to each record is the IANA name of its protocol number."
//! IANA protocol number 255 is "Reserved"; the enum has `ProtocolTypes::Reserved = 255`, the nom-derived
//! parser used for V9/IPFIX protocol fields yields it, but `From<u8>` (used for V5/V7 records) fell through
//! to the catch-all `Unknown`.
use netflow_parser::protocol::ProtocolTypes;
use netflow_parser::{NetflowPacket, NetflowParser};

fn v5_with_protocol(p: u8) -> Vec<u8> {
    let mut b = vec![0u8; 24 + 48];
    b[1] = 5; // version
    b[3] = 1; // count
    b[24 + 38] = p; // protocol byte of the first record
    b
}

#[test]
fn protocol_255_is_reserved() {
    assert_eq!(ProtocolTypes::from(255u8), ProtocolTypes::Reserved);
    let out = NetflowParser::default().parse_bytes(&v5_with_protocol(255));
    match &out[0] {
        NetflowPacket::V5(v5) => {
            assert_eq!(v5.flowsets[0].protocol_number, 255);
            assert_eq!(v5.flowsets[0].protocol_type, ProtocolTypes::Reserved);
        }
        other => panic!("expected V5, got {other:?}"),
    }
}

#[test]
fn unassigned_numbers_stay_unknown() {
    for p in [145u8, 200, 253, 254] {
        assert_eq!(ProtocolTypes::from(p), ProtocolTypes::Unknown);
    }
}
