use netflow_parser::NetflowParser;
use std::alloc::{GlobalAlloc, Layout, System};
use std::sync::atomic::{AtomicUsize, Ordering};

struct Counting;
static ALLOCATED: AtomicUsize = AtomicUsize::new(0);
unsafe impl GlobalAlloc for Counting {
    unsafe fn alloc(&self, l: Layout) -> *mut u8 {
        ALLOCATED.fetch_add(l.size(), Ordering::Relaxed);
        unsafe { System.alloc(l) }
    }
    unsafe fn dealloc(&self, p: *mut u8, l: Layout) {
        unsafe { System.dealloc(p, l) }
    }
}
#[global_allocator]
static A: Counting = Counting;

fn v9_header(count: u16) -> Vec<u8> {
    let mut h = vec![0, 9];
    h.extend_from_slice(&count.to_be_bytes());
    h.extend_from_slice(&[0; 16]);
    h
}

#[test]
fn empty_data_flowsets_do_not_cost_a_template_copy_each() {
    // packet 1: template 256 with 8000 four-byte fields (32 KB on the wire)
    let nfields: u16 = 8000;
    let mut p1 = v9_header(1);
    let flen = 4 + 4 + 4 * nfields as usize;
    p1.extend_from_slice(&[0, 0]);
    p1.extend_from_slice(&(flen as u16).to_be_bytes());
    p1.extend_from_slice(&[1, 0]);
    p1.extend_from_slice(&nfields.to_be_bytes());
    for _ in 0..nfields {
        p1.extend_from_slice(&[0, 1, 0, 4]);
    }
    // packet 2: 8000 data flowsets for template 256 with an empty body (4 bytes each, 32 KB)
    let nsets: u16 = 8000;
    let mut p2 = v9_header(nsets);
    for _ in 0..nsets {
        p2.extend_from_slice(&[1, 0, 0, 4]);
    }
    let mut parser = NetflowParser::default();
    assert_eq!(parser.parse_bytes(&p1).len(), 1);
    let before = ALLOCATED.load(Ordering::Relaxed);
    let out = parser.parse_bytes(&p2);
    let used = ALLOCATED.load(Ordering::Relaxed) - before;
    assert_eq!(out.len(), 1);
    // before the fix: 385 342 720 bytes for a 32 020 byte buffer (12 034x)
    assert!(used < 256 * p2.len(), "allocated {} bytes for a {} byte buffer ({}x)", used, p2.len(), used / p2.len());
}
