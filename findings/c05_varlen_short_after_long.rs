use netflow_parser::variable_versions::ipfix::FlowSetBody;
use netflow_parser::{NetflowPacket, NetflowParser};

fn msg(sets: &[u8]) -> Vec<u8> {
    let len = 16 + sets.len();
    let mut m = vec![0, 10, (len >> 8) as u8, len as u8, 0, 0, 0, 1, 0, 0, 0, 1, 0, 0, 0, 1];
    m.extend_from_slice(sets);
    m
}

#[test]
fn short_variable_length_record_after_a_longer_one_is_a_record() {
    // template 256: one variable-length field (interfaceName = 82, length 65535)
    let tpl = [0u8, 2, 0, 12, 1, 0, 0, 1, 0, 82, 0xff, 0xff];
    // data set 256: record 1 = 10 octets, record 2 = 2 octets, no padding
    let mut data = vec![1u8, 0, 0, 4 + 11 + 3];
    data.push(10);
    data.extend_from_slice(b"abcdefghij");
    data.push(2);
    data.extend_from_slice(b"xy");
    let mut sets = tpl.to_vec();
    sets.extend_from_slice(&data);
    let mut p = NetflowParser::default();
    let out = p.parse_bytes(&msg(&sets));
    assert_eq!(out.len(), 1);
    let NetflowPacket::IPFix(ipfix) = &out[0] else { panic!("not ipfix: {:?}", out[0]) };
    let FlowSetBody::Data(d) = &ipfix.flowsets[1].body else { panic!("no data set: {:?}", ipfix.flowsets) };
    assert_eq!(d.fields.len(), 2, "records: {:?} padding: {:?}", d.fields, d.padding);
    assert!(d.padding.is_empty());
}
