//! Signed IPFIX fields (mibObjectValueInteger, id 434) of every supported width must decode
//! into a `DataNumber` variant of that width and re-export with the width they arrived with.

use netflow_parser::variable_versions::data_number::{DataNumber, FieldValue};
use netflow_parser::variable_versions::ipfix::FlowSetBody;
use netflow_parser::variable_versions::ipfix_lookup::IPFixField;
use netflow_parser::{NetflowPacket, NetflowParser};

const SIGNED_FIELD: u16 = 434;
const UNSIGNED_FIELD: u16 = 1; // octetDeltaCount
const TEMPLATE_ID: u16 = 256;

/// One IPFIX message: a template set declaring a single field of `field_type` and `width`
/// bytes, followed by one data set holding `records` back to back (no padding).
fn message(field_type: u16, width: u16, records: &[Vec<u8>]) -> Vec<u8> {
    let mut sets = vec![];
    // Template set
    sets.extend_from_slice(&2u16.to_be_bytes());
    sets.extend_from_slice(&12u16.to_be_bytes());
    sets.extend_from_slice(&TEMPLATE_ID.to_be_bytes());
    sets.extend_from_slice(&1u16.to_be_bytes());
    sets.extend_from_slice(&field_type.to_be_bytes());
    sets.extend_from_slice(&width.to_be_bytes());
    // Data set
    let body: Vec<u8> = records.concat();
    sets.extend_from_slice(&TEMPLATE_ID.to_be_bytes());
    sets.extend_from_slice(&u16::try_from(4 + body.len()).unwrap().to_be_bytes());
    sets.extend_from_slice(&body);

    let mut msg = vec![];
    msg.extend_from_slice(&10u16.to_be_bytes());
    msg.extend_from_slice(&u16::try_from(16 + sets.len()).unwrap().to_be_bytes());
    msg.extend_from_slice(&0x0102_0304u32.to_be_bytes());
    msg.extend_from_slice(&7u32.to_be_bytes());
    msg.extend_from_slice(&9u32.to_be_bytes());
    msg.extend_from_slice(&sets);
    msg
}

/// Parses `msg` on a fresh parser, checks that it is a single IPFIX message that re-exports
/// to exactly `msg`, and returns the decoded values of its data set in record order.
fn decode(msg: &[u8]) -> Vec<DataNumber> {
    let mut parsed = NetflowParser::default().parse_bytes(msg);
    assert_eq!(parsed.len(), 1, "{parsed:?}");
    let NetflowPacket::IPFix(ipfix) = parsed.remove(0) else {
        panic!("not an IPFIX message");
    };
    assert_eq!(ipfix.to_be_bytes().unwrap(), msg, "re-export differs");
    assert_eq!(ipfix.flowsets.len(), 2);
    let FlowSetBody::Data(data) = &ipfix.flowsets[1].body else {
        panic!("second set is not data: {:?}", ipfix.flowsets[1].body);
    };
    assert!(data.padding.is_empty());
    data.fields
        .iter()
        .map(|record| {
            assert_eq!(record.len(), 1);
            match record.get(&0) {
                Some((IPFixField::MibObjectValueInteger, FieldValue::DataNumber(n)))
                | Some((IPFixField::OctetDeltaCount, FieldValue::DataNumber(n))) => n.clone(),
                other => panic!("unexpected field {other:?}"),
            }
        })
        .collect()
}

fn json_values(msg: &[u8]) -> Vec<String> {
    let parsed = NetflowParser::default().parse_bytes(msg);
    let json = serde_json::to_value(&parsed).unwrap();
    json[0]["IPFix"]["flowsets"][1]["body"]["Data"]["fields"]
        .as_array()
        .unwrap()
        .iter()
        .map(|record| record["0"][1]["DataNumber"].to_string())
        .collect()
}

#[test]
fn signed_1_byte_fields_decode_as_i8_and_reexport_1_byte() {
    let values = [0i8, 1, -1, i8::MAX, i8::MIN, -1];
    let records: Vec<Vec<u8>> = values.iter().map(|v| v.to_be_bytes().to_vec()).collect();
    let msg = message(SIGNED_FIELD, 1, &records);
    let want: Vec<DataNumber> = values.iter().map(|v| DataNumber::I8(*v)).collect();
    assert_eq!(decode(&msg), want);
    let json: Vec<String> = values.iter().map(|v| v.to_string()).collect();
    assert_eq!(json_values(&msg), json);
}

#[test]
fn signed_2_byte_fields_decode_as_i16_and_reexport_2_bytes() {
    let values = [0i16, 1, -1, i16::MAX, i16::MIN, 0x0102, -2];
    let records: Vec<Vec<u8>> = values.iter().map(|v| v.to_be_bytes().to_vec()).collect();
    let msg = message(SIGNED_FIELD, 2, &records);
    let want: Vec<DataNumber> = values.iter().map(|v| DataNumber::I16(*v)).collect();
    assert_eq!(decode(&msg), want);
    let json: Vec<String> = values.iter().map(|v| v.to_string()).collect();
    assert_eq!(json_values(&msg), json);
}

#[test]
fn signed_8_byte_fields_decode_as_i64_without_truncation() {
    let values = [
        0i64,
        1,
        -1,
        i64::MAX,
        i64::MIN,
        0x0102_0304_0506_0708,
        i64::from(i32::MAX) + 1,
        i64::from(i32::MIN) - 1,
        1 << 32, // low 32 bits are zero
    ];
    let records: Vec<Vec<u8>> = values.iter().map(|v| v.to_be_bytes().to_vec()).collect();
    let msg = message(SIGNED_FIELD, 8, &records);
    let want: Vec<DataNumber> = values.iter().map(|v| DataNumber::I64(*v)).collect();
    assert_eq!(decode(&msg), want);
    let json: Vec<String> = values.iter().map(|v| v.to_string()).collect();
    assert_eq!(json_values(&msg), json);
}

#[test]
fn signed_16_byte_fields_decode_as_i128_without_truncation() {
    let values = [
        0i128,
        1,
        -1,
        i128::MAX,
        i128::MIN,
        0x0102_0304_0506_0708_090a_0b0c_0d0e_0f10,
        i128::from(i64::MAX) + 1,
        i128::from(i64::MIN) - 1,
        1 << 64,
    ];
    let records: Vec<Vec<u8>> = values.iter().map(|v| v.to_be_bytes().to_vec()).collect();
    let msg = message(SIGNED_FIELD, 16, &records);
    let want: Vec<DataNumber> = values.iter().map(|v| DataNumber::I128(*v)).collect();
    assert_eq!(decode(&msg), want);
    // serde_json::Value cannot hold every i128, so check the streamed text instead.
    let parsed = NetflowParser::default().parse_bytes(&msg);
    let text = serde_json::to_string(&parsed).unwrap();
    assert_eq!(text, serde_json::to_string(&parsed).unwrap());
    for v in values {
        assert!(
            text.contains(&format!("{{\"DataNumber\":{v}}}")),
            "{v} not in {text}"
        );
    }
}

/// Widths the defect did not touch keep their representation.
#[test]
fn signed_3_and_4_byte_fields_are_unchanged() {
    let msg = message(
        SIGNED_FIELD,
        3,
        &[
            vec![0, 0, 0],
            vec![0xff, 0xff, 0xff],
            vec![0x7f, 0xff, 0xff],
            vec![0x80, 0, 0],
        ],
    );
    assert_eq!(
        decode(&msg),
        vec![
            DataNumber::I24(0),
            DataNumber::I24(-1),
            DataNumber::I24(0x7f_ffff),
            DataNumber::I24(-0x80_0000),
        ]
    );

    let values = [0i32, 1, -1, i32::MAX, i32::MIN];
    let records: Vec<Vec<u8>> = values.iter().map(|v| v.to_be_bytes().to_vec()).collect();
    let msg = message(SIGNED_FIELD, 4, &records);
    let want: Vec<DataNumber> = values.iter().map(|v| DataNumber::I32(*v)).collect();
    assert_eq!(decode(&msg), want);
}

/// Unsigned fields of the same widths keep their unsigned variants.
#[test]
fn unsigned_fields_are_unchanged() {
    let cases: [(u16, Vec<u8>, DataNumber); 6] = [
        (1, vec![0xff], DataNumber::U8(0xff)),
        (2, vec![0xff, 0xfe], DataNumber::U16(0xfffe)),
        (3, vec![0xff, 0xfe, 0xfd], DataNumber::U24(0xff_fefd)),
        (4, vec![0xff; 4], DataNumber::U32(u32::MAX)),
        (8, vec![0xff; 8], DataNumber::U64(u64::MAX)),
        (16, vec![0xff; 16], DataNumber::U128(u128::MAX)),
    ];
    for (width, bytes, want) in cases {
        let msg = message(UNSIGNED_FIELD, width, &[bytes.clone(), bytes]);
        assert_eq!(decode(&msg), vec![want.clone(), want], "width {width}");
    }
}

/// A width that no integer type has is still refused, and a data set that ends inside a
/// value is padding, not a record.
#[test]
fn unsupported_and_truncated_signed_values_yield_no_record() {
    for width in [0u16, 5, 6, 7, 9, 15, 17, 32] {
        let msg = message(
            SIGNED_FIELD,
            width,
            &[vec![0xff; usize::from(width.max(1))]],
        );
        let parsed = NetflowParser::default().parse_bytes(&msg);
        for packet in &parsed {
            if let NetflowPacket::IPFix(ipfix) = packet {
                for set in &ipfix.flowsets {
                    assert!(
                        !matches!(set.body, FlowSetBody::Data(_)),
                        "width {width}: {set:?}"
                    );
                }
            }
        }
    }

    for width in [2u16, 8, 16] {
        // One complete value followed by a value that is one byte short.
        let whole = vec![0x80; usize::from(width)];
        let short = vec![0x80; usize::from(width) - 1];
        let msg = message(SIGNED_FIELD, width, &[whole, short.clone()]);
        let mut parsed = NetflowParser::default().parse_bytes(&msg);
        assert_eq!(parsed.len(), 1);
        let NetflowPacket::IPFix(ipfix) = parsed.remove(0) else {
            panic!("not an IPFIX message");
        };
        assert_eq!(ipfix.to_be_bytes().unwrap(), msg);
        let FlowSetBody::Data(data) = &ipfix.flowsets[1].body else {
            panic!("second set is not data");
        };
        assert_eq!(data.fields.len(), 1, "width {width}");
        assert_eq!(data.padding, short, "width {width}");
    }
}

/// The public conversions cover the new variants.
#[test]
fn conversions_cover_the_new_variants() {
    assert_eq!(i8::try_from(&DataNumber::I8(-5)).unwrap(), -5);
    assert_eq!(i16::try_from(&DataNumber::I16(-500)).unwrap(), -500);
    assert_eq!(i64::try_from(&DataNumber::I64(i64::MIN)).unwrap(), i64::MIN);
    assert_eq!(
        i128::try_from(&DataNumber::I128(i128::MIN)).unwrap(),
        i128::MIN
    );
    assert_eq!(
        i64::try_from(&FieldValue::DataNumber(DataNumber::I64(-9))).unwrap(),
        -9
    );
    assert!(i64::try_from(&DataNumber::I32(1)).is_err());
    assert!(i32::try_from(&DataNumber::I64(1)).is_err());

    assert_eq!(usize::from(DataNumber::I8(5)), 5);
    assert_eq!(usize::from(DataNumber::I16(500)), 500);
    assert_eq!(usize::from(DataNumber::I64(1 << 40)), 1 << 40);
    assert_eq!(usize::from(DataNumber::I128(7)), 7);
    // Negative values wrap exactly as the existing I32 arm does.
    assert_eq!(
        usize::from(DataNumber::I8(-1)),
        usize::from(DataNumber::I32(-1))
    );
    assert_eq!(
        usize::from(DataNumber::I64(-1)),
        usize::from(DataNumber::I32(-1))
    );
}
