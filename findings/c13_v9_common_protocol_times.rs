//! The common-flow view of a V9 packet must carry the protocol and the
//! first/last switched times of every record that has those fields.
//!
//! The V9 decoder reports PROTOCOL (4) as `FieldValue::ProtocolType` and
//! LAST_SWITCHED (21) / FIRST_SWITCHED (22) as `FieldValue::Duration`; the
//! projection used to accept `FieldValue::DataNumber` only and reported all four
//! common fields as `None` for every parsed V9 packet.

use std::net::{IpAddr, Ipv4Addr};
use std::time::Duration;

use netflow_parser::netflow_common::NetflowCommonFlowSet;
use netflow_parser::protocol::ProtocolTypes;
use netflow_parser::variable_versions::data_number::FieldValue;
use netflow_parser::variable_versions::v9::{FlowSetBody, V9};
use netflow_parser::variable_versions::v9_lookup::V9Field;
use netflow_parser::{NetflowPacket, NetflowParser};

const IPV4_SRC_ADDR: u16 = 8;
const IPV4_DST_ADDR: u16 = 12;
const L4_SRC_PORT: u16 = 7;
const L4_DST_PORT: u16 = 11;
const PROTOCOL: u16 = 4;
const LAST_SWITCHED: u16 = 21;
const FIRST_SWITCHED: u16 = 22;
const IN_BYTES: u16 = 1;

const SYS_UP_TIME: u32 = 0x0102_0304;

fn header(count: u16) -> Vec<u8> {
    let mut out = vec![];
    out.extend_from_slice(&9u16.to_be_bytes());
    out.extend_from_slice(&count.to_be_bytes());
    out.extend_from_slice(&SYS_UP_TIME.to_be_bytes());
    out.extend_from_slice(&1_700_000_000u32.to_be_bytes());
    out.extend_from_slice(&7u32.to_be_bytes());
    out.extend_from_slice(&1u32.to_be_bytes());
    out
}

/// Template flowset holding one template; always a multiple of four bytes long.
fn template_flowset(template_id: u16, fields: &[(u16, u16)]) -> Vec<u8> {
    let mut out = vec![];
    out.extend_from_slice(&0u16.to_be_bytes());
    out.extend_from_slice(&((8 + 4 * fields.len()) as u16).to_be_bytes());
    out.extend_from_slice(&template_id.to_be_bytes());
    out.extend_from_slice(&(fields.len() as u16).to_be_bytes());
    for (field_type, field_length) in fields {
        out.extend_from_slice(&field_type.to_be_bytes());
        out.extend_from_slice(&field_length.to_be_bytes());
    }
    out
}

/// Data flowset holding the records, padded with zeroes to a multiple of four bytes.
fn data_flowset(template_id: u16, records: &[Vec<u8>]) -> Vec<u8> {
    let mut body: Vec<u8> = records.iter().flatten().copied().collect();
    body.resize(body.len().next_multiple_of(4), 0);
    let mut out = vec![];
    out.extend_from_slice(&template_id.to_be_bytes());
    out.extend_from_slice(&((4 + body.len()) as u16).to_be_bytes());
    out.extend_from_slice(&body);
    out
}

fn packet(flowsets: &[Vec<u8>]) -> Vec<u8> {
    let mut out = header(flowsets.len() as u16);
    for flowset in flowsets {
        out.extend_from_slice(flowset);
    }
    out
}

/// src, dst, sport, dport, protocol, first switched, last switched
const FLOW_TEMPLATE: [(u16, u16); 7] = [
    (IPV4_SRC_ADDR, 4),
    (IPV4_DST_ADDR, 4),
    (L4_SRC_PORT, 2),
    (L4_DST_PORT, 2),
    (PROTOCOL, 1),
    (FIRST_SWITCHED, 4),
    (LAST_SWITCHED, 4),
];

fn flow_record(index: u16, protocol: u8, first: u32, last: u32) -> Vec<u8> {
    let mut out = vec![];
    out.extend_from_slice(&[10, 0, (index >> 8) as u8, index as u8]);
    out.extend_from_slice(&[10, 1, (index >> 8) as u8, index as u8]);
    out.extend_from_slice(&index.to_be_bytes());
    out.extend_from_slice(&(!index).to_be_bytes());
    out.push(protocol);
    out.extend_from_slice(&first.to_be_bytes());
    out.extend_from_slice(&last.to_be_bytes());
    out
}

fn parse_one_v9(parser: &mut NetflowParser, bytes: &[u8]) -> (NetflowPacket, V9) {
    let mut parsed = parser.parse_bytes(bytes);
    assert_eq!(parsed.len(), 1, "one packet expected: {parsed:?}");
    let packet = parsed.remove(0);
    let v9 = match &packet {
        NetflowPacket::V9(v9) => v9.clone(),
        other => panic!("V9 packet expected: {other:?}"),
    };
    (packet, v9)
}

/// Decoded records of all data flowsets of the packet, in order.
fn decoded_records(v9: &V9) -> Vec<Vec<(V9Field, FieldValue)>> {
    v9.flowsets
        .iter()
        .filter_map(|flowset| match &flowset.body {
            FlowSetBody::Data(data) => Some(&data.fields),
            _ => None,
        })
        .flatten()
        .map(|record| record.values().cloned().collect())
        .collect()
}

fn decoded_value(record: &[(V9Field, FieldValue)], field: V9Field) -> Option<&FieldValue> {
    // Every template below has at most one field of each type unless the test says so.
    record
        .iter()
        .rev()
        .find(|(f, _)| *f == field)
        .map(|(_, v)| v)
}

#[test]
fn v9_common_view_carries_protocol_and_switched_times() {
    let mut parser = NetflowParser::default();
    let bytes = packet(&[
        template_flowset(256, &FLOW_TEMPLATE),
        data_flowset(
            256,
            &[
                flow_record(1, 6, 100, 200),
                flow_record(2, 17, 1_000, 61_001),
            ],
        ),
    ]);
    let (packet, _) = parse_one_v9(&mut parser, &bytes);
    let common = packet.as_netflow_common().expect("V9 converts");

    assert_eq!(common.version, 9);
    assert_eq!(common.timestamp, SYS_UP_TIME);
    assert_eq!(common.flowsets.len(), 2);

    let flow = &common.flowsets[0];
    assert_eq!(flow.src_addr, Some(IpAddr::V4(Ipv4Addr::new(10, 0, 0, 1))));
    assert_eq!(flow.dst_addr, Some(IpAddr::V4(Ipv4Addr::new(10, 1, 0, 1))));
    assert_eq!(flow.src_port, Some(1));
    assert_eq!(flow.dst_port, Some(!1u16));
    assert_eq!(flow.protocol_number, Some(6));
    assert_eq!(flow.protocol_type, Some(ProtocolTypes::Tcp));
    assert_eq!(flow.first_seen, Some(100));
    assert_eq!(flow.last_seen, Some(200));

    // Milliseconds, not seconds: 1_000 ms and 61_001 ms stay what they were.
    let flow = &common.flowsets[1];
    assert_eq!(flow.src_port, Some(2));
    assert_eq!(flow.protocol_number, Some(17));
    assert_eq!(flow.protocol_type, Some(ProtocolTypes::Udp));
    assert_eq!(flow.first_seen, Some(1_000));
    assert_eq!(flow.last_seen, Some(61_001));
}

#[test]
fn v9_common_view_protocol_for_every_octet() {
    let mut parser = NetflowParser::default();
    let records: Vec<Vec<u8>> = (0..=255u16)
        .map(|octet| flow_record(octet, octet as u8, u32::from(octet), u32::from(octet) + 1))
        .collect();
    let bytes = packet(&[
        template_flowset(300, &FLOW_TEMPLATE),
        data_flowset(300, &records),
    ]);
    let (packet, v9) = parse_one_v9(&mut parser, &bytes);
    let decoded = decoded_records(&v9);
    let common = packet.as_netflow_common().expect("V9 converts");
    assert_eq!(decoded.len(), 256);
    assert_eq!(common.flowsets.len(), 256);

    for (octet, (flow, record)) in common.flowsets.iter().zip(&decoded).enumerate() {
        // same record, same order
        assert_eq!(flow.src_port, Some(octet as u16));

        // the name is the decoded one ...
        let decoded_protocol = match decoded_value(record, V9Field::Protocol) {
            Some(FieldValue::ProtocolType(protocol)) => *protocol,
            other => panic!("protocol {octet} decoded as {other:?}"),
        };
        assert_eq!(flow.protocol_type, Some(decoded_protocol), "octet {octet}");
        // a decoded `Unknown` (unassigned octets 145..=254) has lost its octet: the name is reported without a number
        assert_eq!(flow.protocol_number.is_some(), decoded_protocol != ProtocolTypes::Unknown, "octet {octet}");

        // ... and whenever the decoder kept the number, it is the wire octet
        if decoded_protocol != ProtocolTypes::Unknown {
            assert_eq!(flow.protocol_number, Some(octet as u8), "octet {octet}");
            assert_eq!(u8::from(decoded_protocol), octet as u8, "octet {octet}");
        }
    }

    let named = |octet: usize| {
        let flow = &common.flowsets[octet];
        (flow.protocol_number, flow.protocol_type)
    };
    assert_eq!(named(0), (Some(0), Some(ProtocolTypes::Hopopt)));
    assert_eq!(named(1), (Some(1), Some(ProtocolTypes::Icmp)));
    assert_eq!(named(2), (Some(2), Some(ProtocolTypes::Igmp)));
    assert_eq!(named(6), (Some(6), Some(ProtocolTypes::Tcp)));
    assert_eq!(named(17), (Some(17), Some(ProtocolTypes::Udp)));
    assert_eq!(named(143), (Some(143), Some(ProtocolTypes::Ethernet)));
    assert_eq!(named(144), (Some(144), Some(ProtocolTypes::Aggfrag)));
    assert_eq!(named(255), (Some(255), Some(ProtocolTypes::Reserved)));
    for octet in 145..=254 {
        assert_eq!(
            common.flowsets[octet].protocol_type,
            Some(ProtocolTypes::Unknown),
            "octet {octet}"
        );
    }
}

#[test]
fn v9_common_view_switched_times_at_the_edges() {
    let times: [(u32, u32); 8] = [
        (0, 0),
        (0, 1),
        (1, 0),
        (999, 1_001),
        (0x7fff_ffff, 0x8000_0000),
        (0xffff_fffe, 0xffff_ffff),
        (u32::MAX, 0),
        (u32::MAX, u32::MAX),
    ];
    let mut parser = NetflowParser::default();
    let records: Vec<Vec<u8>> = times
        .iter()
        .enumerate()
        .map(|(i, (first, last))| flow_record(i as u16, 6, *first, *last))
        .collect();
    let bytes = packet(&[
        template_flowset(256, &FLOW_TEMPLATE),
        data_flowset(256, &records),
    ]);
    let (packet, v9) = parse_one_v9(&mut parser, &bytes);
    let decoded = decoded_records(&v9);
    let common = packet.as_netflow_common().expect("V9 converts");
    assert_eq!(common.flowsets.len(), times.len());

    for ((flow, record), (first, last)) in common.flowsets.iter().zip(&decoded).zip(&times) {
        assert_eq!(flow.first_seen, Some(*first));
        assert_eq!(flow.last_seen, Some(*last));
        // and that is what was decoded
        assert_eq!(
            decoded_value(record, V9Field::FirstSwitched),
            Some(&FieldValue::Duration(Duration::from_millis(u64::from(
                *first
            ))))
        );
        assert_eq!(
            decoded_value(record, V9Field::LastSwitched),
            Some(&FieldValue::Duration(Duration::from_millis(u64::from(
                *last
            ))))
        );
    }
}

#[test]
fn v9_common_view_fields_are_absent_only_when_the_record_has_none() {
    let mut parser = NetflowParser::default();
    let bytes = packet(&[
        // neither protocol nor times
        template_flowset(256, &[(L4_SRC_PORT, 2), (IN_BYTES, 4)]),
        // protocol only
        template_flowset(257, &[(L4_SRC_PORT, 2), (PROTOCOL, 1), (IN_BYTES, 1)]),
        // first switched only
        template_flowset(258, &[(FIRST_SWITCHED, 4)]),
        // last switched only
        template_flowset(259, &[(LAST_SWITCHED, 4)]),
        data_flowset(256, &[vec![0, 1, 0, 0, 0, 9, 0, 0]]),
        data_flowset(257, &[vec![0, 2, 47, 5]]),
        data_flowset(258, &[vec![0, 0, 0, 5]]),
        data_flowset(259, &[vec![0, 0, 0, 6]]),
    ]);
    let (packet, _) = parse_one_v9(&mut parser, &bytes);
    let common = packet.as_netflow_common().expect("V9 converts");
    assert_eq!(common.flowsets.len(), 4);

    let all = |flow: &NetflowCommonFlowSet| {
        (
            flow.protocol_number,
            flow.protocol_type,
            flow.first_seen,
            flow.last_seen,
        )
    };
    assert_eq!(all(&common.flowsets[0]), (None, None, None, None));
    assert_eq!(
        all(&common.flowsets[1]),
        (Some(47), Some(ProtocolTypes::Gre), None, None)
    );
    assert_eq!(all(&common.flowsets[2]), (None, None, Some(5), None));
    assert_eq!(all(&common.flowsets[3]), (None, None, None, Some(6)));
    assert_eq!(common.flowsets[0].src_port, Some(1));
    assert_eq!(common.flowsets[1].src_port, Some(2));
}

#[test]
fn v9_common_view_narrow_and_wide_switched_times() {
    // Not the standard width, but decoded all the same: the value is the
    // milliseconds that were sent.
    let mut parser = NetflowParser::default();
    let bytes = packet(&[
        template_flowset(256, &[(FIRST_SWITCHED, 2), (LAST_SWITCHED, 8)]),
        data_flowset(
            256,
            &[
                vec![0x12, 0x34, 0, 0, 0, 0, 0xff, 0xff, 0xff, 0xff],
                vec![0xff, 0xff, 0, 0, 0, 0, 0, 0, 0, 0],
            ],
        ),
    ]);
    let (packet, _) = parse_one_v9(&mut parser, &bytes);
    let common = packet.as_netflow_common().expect("V9 converts");
    assert_eq!(common.flowsets.len(), 2);
    assert_eq!(common.flowsets[0].first_seen, Some(0x1234));
    assert_eq!(common.flowsets[0].last_seen, Some(u32::MAX));
    assert_eq!(common.flowsets[1].first_seen, Some(0xffff));
    assert_eq!(common.flowsets[1].last_seen, Some(0));
}

#[test]
fn v9_common_view_repeated_protocol_field_is_one_of_the_record() {
    let mut parser = NetflowParser::default();
    let bytes = packet(&[
        template_flowset(256, &[(PROTOCOL, 1), (L4_SRC_PORT, 2), (PROTOCOL, 1)]),
        data_flowset(256, &[vec![6, 0, 80, 17]]),
    ]);
    let (packet, _) = parse_one_v9(&mut parser, &bytes);
    let common = packet.as_netflow_common().expect("V9 converts");
    assert_eq!(common.flowsets.len(), 1);
    let flow = &common.flowsets[0];
    assert_eq!(flow.src_port, Some(80));
    // number and name describe the same occurrence
    let pair = (flow.protocol_number, flow.protocol_type);
    assert!(
        pair == (Some(6), Some(ProtocolTypes::Tcp))
            || pair == (Some(17), Some(ProtocolTypes::Udp)),
        "{pair:?}"
    );
}

#[test]
fn v9_common_flowsets_of_a_buffer_carry_them_too() {
    // template in one call, data in the next one, two packets in one buffer
    let mut parser = NetflowParser::default();
    let template = packet(&[template_flowset(256, &FLOW_TEMPLATE)]);
    assert!(
        parser
            .parse_bytes_as_netflow_common_flowsets(&template)
            .is_empty()
    );

    let mut buffer = packet(&[data_flowset(256, &[flow_record(1, 1, 10, 20)])]);
    buffer.extend_from_slice(&packet(&[data_flowset(
        256,
        &[flow_record(2, 58, 30, 40), flow_record(3, 132, 50, 60)],
    )]));

    let per_packet: Vec<NetflowCommonFlowSet> = NetflowParser {
        v9_parser: {
            let mut other = NetflowParser::default();
            other.parse_bytes(&template);
            other.v9_parser
        },
        ..Default::default()
    }
    .parse_bytes(&buffer)
    .iter()
    .flat_map(|packet| packet.as_netflow_common().expect("V9 converts").flowsets)
    .collect();

    let flows = parser.parse_bytes_as_netflow_common_flowsets(&buffer);
    assert_eq!(flows.len(), 3);
    assert_eq!(per_packet.len(), 3);

    let expected = [
        (1u16, 1u8, ProtocolTypes::Icmp, 10u32, 20u32),
        (2, 58, ProtocolTypes::Ipv6Icmp, 30, 40),
        (3, 132, ProtocolTypes::Sctp, 50, 60),
    ];
    for (flows, (port, number, name, first, last)) in
        flows.iter().zip(&per_packet).zip(&expected)
    {
        for flow in [flows.0, flows.1] {
            assert_eq!(flow.src_port, Some(*port));
            assert_eq!(flow.protocol_number, Some(*number));
            assert_eq!(flow.protocol_type, Some(*name));
            assert_eq!(flow.first_seen, Some(*first));
            assert_eq!(flow.last_seen, Some(*last));
        }
    }
}
